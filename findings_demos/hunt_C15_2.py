"""
C15 defect 2: integrate_spin / transform_to_spatial_orbitals raise a TypeError
for a vanishing expression (or a term that is a pure number) if target
indices have been provided to the expression.

Root cause: adcgen/spatial_orbitals.py:138-140 adds the Term container
('result += term') whose assumptions (target indices i, a) differ from the
assumptions of the result (spin labelled target indices i_alpha, a_alpha)
-> Container.__add__ raises. tests/...::test_number only covers expressions
without provided target indices.

Run from the worktree root:  /venv/bin/python hunt_out/2/demo.py
exit 1 -> defect present, exit 0 -> fixed
"""
import logging
import os
import sys

sys.path.insert(0, os.getcwd())

import adcgen  # noqa E402
from adcgen.expr_container import Expr  # noqa E402
from adcgen.indices import get_symbols  # noqa E402
from adcgen.spatial_orbitals import (  # noqa E402
    integrate_spin, transform_to_spatial_orbitals
)
from adcgen.sympy_objects import AntiSymmetricTensor, KroneckerDelta  # noqa E402
from sympy import S  # noqa E402

logging.getLogger("adcgen").setLevel(logging.ERROR)
print("using", adcgen.__file__)
failed = False

i, j, a, b = get_symbols("ijab")
ia, ja, aa, ba = get_symbols("ijab", "aaaa")

# 1) a vanishing tensor equation, e.g., the first order contribution to the
#    ph/ph block of the RE-ADC secular matrix M_{ia,jb} = 0. The target
#    indices have to be provided, since the Einstein convention does not hold
#    for the secular matrix
zero = Expr(0, real=True, target_idx="iajb")
print("\n1) spin block 'aaaa' of the vanishing expression with target "
      f"indices {zero.provided_target_idx}")
print("   expected: 0")
try:
    res = integrate_spin(zero, "iajb", "aaaa")
    print("   obtained:", res)
    if res.sympy is not S.Zero:
        failed = True
except TypeError as err:
    print("   obtained: TypeError:", str(err)[:90], "...")
    failed = True

# 2) the same for a sum that contains a number
#    delta_ij delta_ab (f_ab ... ) like expression + constant shift
expr = Expr(KroneckerDelta(i, j) * KroneckerDelta(a, b) + 3, real=True,
            target_idx="iajb")
print(f"\n2) spin block 'aaaa' of {expr}")
ref = KroneckerDelta(ia, ja) * KroneckerDelta(aa, ba) + 3
print("   expected:", ref)
for restricted in (False, True):
    try:
        res = transform_to_spatial_orbitals(expr.copy(), "iajb", "aaaa",
                                            restricted=restricted)
        print(f"   obtained (restricted={restricted}):", res)
        if (res.sympy - ref) is not S.Zero:
            failed = True
    except TypeError as err:
        print(f"   obtained (restricted={restricted}): TypeError:",
              str(err)[:90], "...")
        failed = True

# for comparison: without provided target indices numbers are supported
# (tests/spatial_orbitals_test.py::TestIntegrateSpin::test_number)
res = integrate_spin(Expr(42), "", "")
print("\n   integrate_spin(Expr(42), '', '') =", res)

print("\nDEFECT PRESENT" if failed else "\nOK")
sys.exit(1 if failed else 0)
