"""R06e/R13d homomorphism skeleton and A6 exponent accounting.

For a method ``m`` implemented on the four container levels:
  Expr     self._expr = Add(*[t.m(...) for t in self.terms])      (all terms, no filter)
           or an accumulation loop adding t.m(...) once on every path
  Term     Mul(*[o.m(...) for o in self.objects])                 (all objects)
  Polynom  Pow(Add(*[t.m(...) for t in self.terms]), self.exponent)
  Obj      every rebuilt value is Pow(<from base>, <exponent of the object>) or
           the untouched object ``self.sympy``
and parameters of the outer method that the inner method also has are
forwarded.
"""
from __future__ import annotations

import ast

from ..model import AnalysisError, U, Defs, calls_in, call_name, walk_fn
from ..pathcond import conditions
from . import common

MOD = "expr_container"


def _params(fn):
    return [a.arg for a in fn.args.args + fn.args.kwonlyargs]


def comp_call(node, ctor, iter_text, method):
    """Match ``ctor(*[x.method(...) for x in iter_text])`` -> the inner call."""
    if not (isinstance(node, ast.Call) and call_name(node) == ctor and len(node.args) == 1
            and isinstance(node.args[0], ast.Starred) and not node.keywords):
        return None, f"not `{ctor}(*[... for ... in {iter_text}])`"
    g = node.args[0].value
    if not isinstance(g, (ast.ListComp, ast.GeneratorExp)) or len(g.generators) != 1:
        return None, "not a single comprehension"
    gen = g.generators[0]
    if U(gen.iter) != iter_text:
        return None, f"iterates `{U(gen.iter)}` instead of `{iter_text}`"
    if gen.ifs:
        return None, f"filters elements with `{U(gen.ifs[0])}` (some are dropped)"
    e = g.elt
    if not (isinstance(e, ast.Call) and isinstance(e.func, ast.Attribute)
            and U(e.func.value) == U(gen.target) and e.func.attr == method):
        return None, f"element is `{U(e)}`, expected `{U(gen.target)}.{method}(...)`"
    return e, ""


def _forwarded(ctx, rule, call, outer, inner, level):
    ip = set(_params(inner))
    for p in _params(outer):
        if p in ("self", "return_sympy") or p not in ip:
            continue
        passed = any(U(a) == p for a in call.args) or any(U(k.value) == p and k.arg == p for k in call.keywords)
        # positional arguments must also land on the same parameter
        if passed and any(U(a) == p for a in call.args):
            pos = next(i for i, a in enumerate(call.args) if U(a) == p)
            inner_pos = [x for x in _params(inner) if x != "self"]
            passed = pos < len(inner_pos) and inner_pos[pos] == p
        ctx.check(rule, call, passed, f"{level}: parameter `{p}` forwarded",
                  f"{level}: parameter `{p}` of {outer.name} is not forwarded to the inner call `{U(call)}`",
                  key=f"{level} forward {p}")
    rs = [k for k in call.keywords if k.arg == "return_sympy"]
    if "return_sympy" in ip:
        ok = bool(rs) and U(rs[0].value) == "True"
        if not ok:
            # positional True at the right position
            inner_pos = [x for x in _params(inner) if x != "self"]
            i = inner_pos.index("return_sympy")
            ok = len(call.args) > i and U(call.args[i]) == "True"
        if not ok:
            d = inner.args.defaults
            names = [a.arg for a in inner.args.args]
            k = names.index("return_sympy") - (len(names) - len(d))
            ok = not rs and k >= 0 and U(d[k]) == "True"
        ctx.check(rule, call, ok, f"{level}: inner call returns raw sympy",
                  f"{level}: inner call `{U(call)}` does not request return_sympy=True", key=f"{level} raw")


def expr_level(ctx, rule, method, inner_method=None):
    fn = ctx.model.fn(f"{MOD}:Expr.{method}")
    inner = ctx.model.fn(f"{MOD}:Term.{inner_method or method}")
    m = inner_method or method
    defs = Defs(fn)
    stores = common.assigns_to(fn, "self._expr")
    if not stores:
        raise AnalysisError(f"Expr.{method}: no assignment to self._expr")
    ok_any = False
    for st in stores:
        v = defs.resolve(st.value)
        call, why = comp_call(v, "Add", "self.terms", m)
        if call is not None:
            ok_any = True
            ctx.ok(rule, st, f"Expr.{method}: sum of {m} over all terms")
            _forwarded(ctx, rule, call, fn, inner, f"Expr.{method}")
            continue
        # accumulation loop
        accname = U(st.value).split(".")[0]
        loops = [n for n in walk_fn(fn, nested=False) if isinstance(n, ast.For) and U(n.iter) == "self.terms"]
        done = False
        for lp in loops:
            t = U(lp.target)

            def is_event(n, t=t):
                return isinstance(n, ast.AugAssign) and isinstance(n.op, ast.Add) and U(n.target) == accname \
                    and any(isinstance(c, ast.Call) and isinstance(c.func, ast.Attribute) and c.func.attr == m
                            and U(c.func.value) == t for c in ast.walk(n.value))
            acc, drops = common.loop_conservation(ctx, rule, fn, lp, t, is_event=is_event)
            if acc is None and not drops:
                continue
            common.lost(ctx, rule, lp, t, drops)
            done = True
            ok_any = True
            for n in ast.walk(lp):
                if is_event(n):
                    c = next(c for c in ast.walk(n.value) if isinstance(c, ast.Call) and isinstance(c.func, ast.Attribute)
                             and c.func.attr == m)
                    _forwarded(ctx, rule, c, fn, inner, f"Expr.{method}")
            init = [a for a in common.assigns_to(fn, accname) if isinstance(a, (ast.Assign, ast.AnnAssign))]
            ctx.check(rule, lp, any(U(a.value) == "0" for a in init), f"Expr.{method}: accumulator starts at 0",
                      f"Expr.{method}: accumulator `{accname}` does not start at 0", key=f"Expr.{method} init")
        if not done:
            ctx.bad(rule, st, f"Expr.{method}: `self._expr = {U(st.value)}` is neither the sum of "
                    f"`t.{m}(...)` over all terms ({why}) nor an accumulation over self.terms",
                    key=f"Expr.{method} shape")
    return ok_any


def term_level(ctx, rule, method):
    fn = ctx.model.fn(f"{MOD}:Term.{method}")
    inner = ctx.model.fn(f"{MOD}:Obj.{method}")
    defs = Defs(fn)
    rets = common.returns_of(fn)
    n = 0
    for r in rets:
        v = r.value
        if isinstance(v, ast.Call) and call_name(v) == "Expr" and v.args:
            v = v.args[0]
        v = defs.resolve(v)
        call, why = comp_call(v, "Mul", "self.objects", method)
        n += 1
        if call is None:
            ctx.bad(rule, r, f"Term.{method}: returned value `{U(v)[:90]}` is not the product of "
                    f"`o.{method}(...)` over all objects ({why})", key=f"Term.{method} shape")
        else:
            ctx.ok(rule, r, f"Term.{method}: product of {method} over all objects")
            _forwarded(ctx, rule, call, fn, inner, f"Term.{method}")
    ctx.floor(rule, f"returns in Term.{method}", n, 1)


def polynom_level(ctx, rule, method):
    fn = ctx.model.fn(f"{MOD}:Polynom.{method}")
    inner = ctx.model.fn(f"{MOD}:Term.{method}")
    defs = Defs(fn)
    n = 0
    for r in common.returns_of(fn):
        v = r.value
        if isinstance(v, ast.Call) and call_name(v) == "Expr" and v.args:
            v = v.args[0]
        # the result variable is assigned twice (sum, then power): take the last
        if isinstance(v, ast.Name):
            asg = common.assigns_to(fn, v.id)
            if not asg:
                raise AnalysisError(f"Polynom.{method}: no definition of {v.id}")
            last = asg[-1].value
            first = asg[0].value
        else:
            last = first = v
        n += 1
        ok = isinstance(last, ast.Call) and call_name(last) == "Pow" and len(last.args) == 2 \
            and U(last.args[1]) == "self.exponent"
        ctx.check(rule, r, ok, f"Polynom.{method}: Pow(sum, self.exponent)",
                  f"Polynom.{method}: result `{U(last)[:80]}` does not restore the exponent of the polynom",
                  key=f"Polynom.{method} exponent")
        if ok:
            inner_sum = last.args[0]
            if isinstance(inner_sum, ast.Name):
                inner_sum = first
            call, why = comp_call(inner_sum, "Add", "self.terms", method)
            if call is None:
                ctx.bad(rule, r, f"Polynom.{method}: base is not the sum of `t.{method}(...)` over all terms ({why})",
                        key=f"Polynom.{method} shape")
            else:
                ctx.ok(rule, r, f"Polynom.{method}: sum over all terms")
                _forwarded(ctx, rule, call, fn, inner, f"Polynom.{method}")
    ctx.floor(rule, f"returns in Polynom.{method}", n, 1)


EXP_TEXTS = ("self.exponent", "self.base_and_exponent[1]")


def obj_level(ctx, rule, method, allow_zero=False, extra_full=()):
    """A6: values that become the result are FULL (`self.sympy`) or
    Pow(<built from the base>, <the object's exponent>)."""
    fn = ctx.model.fn(f"{MOD}:Obj.{method}")
    defs = Defs(fn)
    res_names = set()
    for r in common.returns_of(fn):
        v = r.value
        if isinstance(v, ast.Call) and call_name(v) == "Expr" and v.args:
            v = v.args[0]
        if isinstance(v, ast.Name):
            res_names.add(v.id)
        elif isinstance(v, ast.Tuple):
            continue
        else:
            _classify(ctx, rule, fn, defs, r, v, method, allow_zero, extra_full)
    n = 0
    for name in res_names:
        for a in common.assigns_to(fn, name):
            if isinstance(a, ast.AugAssign):
                continue
            n += 1
            _classify(ctx, rule, fn, defs, a, a.value, method, allow_zero, extra_full, name)
    ctx.floor(rule, f"result definitions in Obj.{method}", n, 1)


def _classify(ctx, rule, fn, defs, node, v, method, allow_zero, extra_full, name=None):
    t = U(v)
    if t == "self.sympy" or t in extra_full:
        ctx.ok(rule, node, f"Obj.{method}: untouched object kept with its exponent")
        return
    if allow_zero and t in ("0", "S.Zero"):
        ctx.ok(rule, node, f"Obj.{method}: zero")
        return
    if isinstance(v, ast.Call) and call_name(v) == "Pow" and len(v.args) == 2:
        e = U(defs.resolve(v.args[1]))
        base_t = U(defs.resolve(v.args[0]))
        neg = e.startswith("-")
        ok = e.lstrip("-") in EXP_TEXTS
        ctx.check(rule, node, ok, f"Obj.{method}: rebuilt value raised to the object's exponent",
                  f"Obj.{method}: rebuilt value is raised to `{U(v.args[1])}`, not to the exponent of the object",
                  key=f"Obj.{method} exponent")
        ctx.check(rule, node, "self.sympy" not in base_t or "self.sympy.args" in base_t,
                  f"Obj.{method}: base rebuilt from the base of the object",
                  f"Obj.{method}: the full object (base**exponent) is raised to the exponent again",
                  key=f"Obj.{method} double exponent")
        return
    if name is not None and isinstance(v, ast.Constant) and v.value in (None, False):
        return
    if name is not None and isinstance(v, ast.Call) and call_name(v) == "Pow":
        return
    # an intermediate value that is later wrapped (`res = S.Zero; res += ...; res = Pow(res, exp)`)
    later = [a for a in common.assigns_to(fn, name)] if name else []
    if name and any(isinstance(a.value, ast.Call) and call_name(a.value) == "Pow" and U(a.value.args[0]) == name
                    for a in later if isinstance(a, ast.Assign)):
        return
    ctx.bad(rule, node, f"Obj.{method}: result `{t[:80]}` is neither the untouched object nor "
            "Pow(<rebuilt base>, <exponent of the object>) (exponent lost)", key=f"Obj.{method} shape")


def skeleton(ctx, rule, method, expr=True, term=True, polynom=True, obj=True, allow_zero=False):
    if expr:
        expr_level(ctx, rule, method)
    if term:
        term_level(ctx, rule, method)
    if polynom:
        polynom_level(ctx, rule, method)
    if obj:
        obj_level(ctx, rule, method, allow_zero=allow_zero)
