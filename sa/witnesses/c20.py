S = "simplify.py"
E = "expr_container.py"
WITNESSES = [
    dict(id="c20-target-guard", prop="C20", file=S, expect="R20a",
         old="            if idx1[0] == idx2[0] and idx1[0] not in target and \\\n                    idx_counter[idx1[0]] == 2:", new="            if idx1[0] == idx2[0] and \\\n                    idx_counter[idx1[0]] == 2:"),
    dict(id="c20-counter-guard", prop="C20", file=S, expect="R20a",
         old="            elif idx1[1] == idx2[1] and idx1[1] not in target and \\\n                    idx_counter[idx1[1]] == 2:", new="            elif idx1[1] == idx2[1] and idx1[1] not in target:"),
    dict(id="c20-counter-ge", prop="C20", file=S, expect="R20a",
         old="            if idx1[0] == idx2[0] and idx1[0] not in target and \\\n                    idx_counter[idx1[0]] == 2:", new="            if idx1[0] == idx2[0] and idx1[0] not in target and \\\n                    idx_counter[idx1[0]] >= 2:"),
    dict(id="c20-wrong-position", prop="C20", file=S, expect="R20a",
         old="                delta = KroneckerDelta(idx1[0], idx2[0])", new="                delta = KroneckerDelta(idx1[0], idx2[1])"),
    dict(id="c20-counter-other-index", prop="C20", file=S, expect="R20a",
         old="            elif idx1[1] == idx2[1] and idx1[1] not in target and \\\n                    idx_counter[idx1[1]] == 2:", new="            elif idx1[1] == idx2[1] and idx1[1] not in target and \\\n                    idx_counter[idx1[0]] == 2:"),
    dict(id="c20-exponent", prop="C20", file=S, expect="R20b",
         old="                new_term *= Pow(base, exponent - 2)", new="                new_term *= Pow(base, exponent - 1)"),
    dict(id="c20-rest-dropped", prop="C20", file=S, expect="R20b",
         old="                if i == i1 or i == i2:\n                    continue", new="                if i <= i1 or i == i2:\n                    continue"),
    dict(id="c20-counter-source", prop="C20", file=S, expect="R20c",
         old="        idx_counter = Counter(term.idx)", new="        idx_counter = Counter(term.contracted)"),
    dict(id="c20-idx-counter-abs", prop="C20", file=E, expect="R20c",
         old="            n = abs(o.exponent)  # abs value for denominators", new="            n = 1"),
    dict(id="c20-ok-rename", prop="C20", file=S, expect=None,
         old="        target = term.target\n        idx_counter = Counter(term.idx)", new="        idx_counter = Counter(term.idx)\n        target = term.target"),
]
