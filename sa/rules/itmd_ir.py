"""A8: formula IR for the hand-typed definitions in intermediates.py.

``registry(ctx)`` extracts the class table (type, order, default indices,
tensor built by ``_build_tensor``).  ``definition(ctx, name)`` interprets the
body of ``_build_expanded_itmd`` (once-expanded variant, ``fully_expand=False``)
with the table evaluator on symbolic values (class ``Poly``): index variables,
``eri``/``fock``/``orb_energy`` factors, calls of other intermediates,
``Rational`` prefactors, + - * /, ``.permute`` and ``.subs``.  ``canonical``
brings a polynomial into a normal form modulo renaming of contracted indices
and the declared (anti)symmetry of every factor.  Nothing of the repository is
imported or executed.
"""
from __future__ import annotations

import ast
import itertools
import re
from fractions import Fraction

from ..abseval import Interp, Rec
from ..model import AnalysisError, U, calls_in, call_name, walk_fn, kwarg

BASE = {"occ": "ijklmno", "virt": "abcdefgh", "general": "pqrstuvw"}


def space_of(name: str) -> str:
    for sp, letters in BASE.items():
        if name[0] in letters:
            return sp[0]
    raise AnalysisError(f"index name {name} has no space")


def CANON_KEY(name: str):
    return (space_of(name), "", int(name[1:]) if name[1:] else 0, name[0])


def need_bra_ket_swap(upper, lower) -> bool:
    su, sl = [space_of(n) for n in upper], [space_of(n) for n in lower]
    if sl < su:
        return True
    if sl == su:
        nu = [(int(n[1:]) if n[1:] else 0, n[0]) for n in upper]
        nl = [(int(n[1:]) if n[1:] else 0, n[0]) for n in lower]
        return nl < nu
    return False


# ---------------------------------------------------------------------------
# class table

_REG_CACHE = {}


def _eval_slices(node, d):
    """evaluate an index-group expression of _build_tensor on the default names"""
    if isinstance(node, ast.Name) and node.id == "indices":
        return list(range(len(d)))
    if isinstance(node, ast.Subscript) and U(node.value) == "indices":
        idx = list(range(len(d)))
        s = node.slice
        if isinstance(s, ast.Slice):
            lo = s.lower.value if s.lower is not None else None
            hi = s.upper.value if s.upper is not None else None
            return idx[lo:hi]
        if isinstance(s, ast.Constant):
            return [idx[s.value]]
    if isinstance(node, (ast.Tuple, ast.List)):
        out = []
        for e in node.elts:
            out += _eval_slices(e, d)
        return out
    raise AnalysisError(f"_build_tensor: index group `{U(node)}` not recognised")


def _idx_convention(ctx, kind, up, lo):
    """order in which `<tensor>.idx` lists the indices (read from sympy_objects.py)"""
    so = ctx.model.module("sympy_objects")
    cls = kind
    for _ in range(4):
        f = so.functions.get(f"{cls}.idx")
        if f is not None:
            rets = [n for n in walk_fn(f) if isinstance(n, ast.Return)]
            t = U(rets[0].value) if rets else ""
            if t == "self.upper.args + self.lower.args":
                return up + lo
            if t == "self.lower.args + self.upper.args":
                return lo + up
            raise AnalysisError(f"{cls}.idx returns `{t}`: index convention not recognised")
        c = so.classes.get(cls)
        if c is None or not c.bases:
            break
        cls = U(c.bases[0])
    raise AnalysisError(f"index convention of {kind} not found")


def registry(ctx):
    key = ctx.model.digest
    if key in _REG_CACHE:
        ctx.model.used_modules.add("intermediates")
        return _REG_CACHE[key]
    m = ctx.model.module("intermediates")
    out = {}
    for cname, cls in m.classes.items():
        if not any(U(b) == "RegisteredIntermediate" for b in cls.bases):
            continue
        attrs = {}
        for n in cls.body:
            if isinstance(n, ast.AnnAssign) and n.value is not None:
                attrs[U(n.target)] = n.value
            elif isinstance(n, ast.Assign):
                attrs[U(n.targets[0])] = n.value
        try:
            itype = ast.literal_eval(attrs["_itmd_type"])
            order = ast.literal_eval(attrs["_order"])
            didx = tuple(ast.literal_eval(attrs["_default_idx"]))
        except Exception:
            raise AnalysisError(f"{cname}: class attributes not literal")
        build = m.functions.get(f"{cname}._build_expanded_itmd")
        bt = m.functions.get(f"{cname}._build_tensor")
        if build is None or bt is None:
            raise AnalysisError(f"{cname}: _build_expanded_itmd/_build_tensor missing")
        rets = [n for n in walk_fn(bt) if isinstance(n, ast.Return)]
        if len(rets) != 1 or not isinstance(rets[0].value, ast.Call):
            raise AnalysisError(f"{cname}._build_tensor: shape not recognised")
        call = rets[0].value
        kind = call_name(call)
        a0 = call.args[0]
        lit, cfg, ext = None, None, ""
        if isinstance(a0, ast.Constant):
            lit = a0.value
        elif isinstance(a0, ast.JoinedStr):
            for v in a0.values:
                if isinstance(v, ast.FormattedValue) and U(v.value).startswith("tensor_names."):
                    cfg = U(v.value).split(".")[1]
                elif isinstance(v, ast.Constant):
                    ext += str(v.value)
        else:
            raise AnalysisError(f"{cname}._build_tensor: name `{U(a0)}` not recognised")
        if kind == "NonSymmetricTensor":
            pos = _eval_slices(call.args[1], didx)
            groups_pos = [pos]
            idx_order = pos
            bks = 0
        else:
            up = _eval_slices(call.args[1], didx)
            lo = _eval_slices(call.args[2], didx)
            groups_pos = [up, lo]
            bks = int(U(call.args[3])) if len(call.args) > 3 else 0
            idx_order = _idx_convention(ctx, kind, up, lo)
        allpos = sorted(p for g in groups_pos for p in g)
        partition_ok = allpos == list(range(len(didx)))
        groups = [[didx[p] for p in g] for g in groups_pos]
        order_names = [didx[p] for p in idx_order]
        # long name as Obj.longname(use_default_names=True) computes it
        space = "".join(space_of(n) for n in order_names)
        if cfg == "gs_amplitude":
            longname = f"t{len(groups[0])}_{ext}" if ext else f"t{len(groups[0])}"
        elif cfg == "gs_density":
            longname = f"p0_{ext}_{space}" if ext else f"p0_{space}"
        elif lit is not None and lit.startswith("t2eri"):
            longname = f"t2eri_{lit[5:]}"
        elif lit == "t2sq":
            longname = "t2sq"
        elif lit is not None:
            longname = f"{lit}_{space}"
        else:
            longname = None
        out[cname] = {
            "cls": cls, "itmd_type": itype, "order": order, "default_idx": didx, "build": build, "build_tensor": bt,
            "tensor_kind": kind, "tensor_name_literal": lit, "tensor_name_cfg": cfg, "tensor_ext": ext,
            "groups": groups, "groups_pos": groups_pos, "idx_order": order_names, "bra_ket_sym": bks,
            "partition_ok": partition_ok, "slices": [U(a) for a in call.args[1:3]], "longname": longname,
        }
    if len(out) < 5:
        raise AnalysisError("no registered intermediates found")
    _REG_CACHE[key] = out
    return out


# ---------------------------------------------------------------------------
# symbolic polynomials


class Idx:
    __slots__ = ("name",)

    def __init__(self, name):
        self.name = name

    def __repr__(self):
        return self.name


class Poly:
    """sum of (coefficient, tuple of factors); a factor is a tuple
    (kind, name, tuple(index names...), ...) ; denominators are
    ('denom', '', ((coef, idx), ...))"""
    _symexpr = True

    def __init__(self, terms=None):
        self.terms = list(terms or [])

    @staticmethod
    def const(c):
        return Poly([(Fraction(c), ())])

    @staticmethod
    def lift(v):
        if isinstance(v, Poly):
            return v
        if isinstance(v, bool):
            raise AnalysisError("A8: boolean in arithmetic")
        if isinstance(v, (int, Fraction)):
            return Poly.const(v)
        if isinstance(v, float):
            return Poly.const(Fraction(v).limit_denominator(1000))
        raise AnalysisError(f"A8: cannot lift {v!r}")

    def __add__(self, o):
        return Poly(self.terms + Poly.lift(o).terms)

    __radd__ = __add__

    def __neg__(self):
        return Poly([(-c, f) for c, f in self.terms])

    def __sub__(self, o):
        return self + (-Poly.lift(o))

    def __rsub__(self, o):
        return Poly.lift(o) + (-self)

    def __mul__(self, o):
        o = Poly.lift(o)
        return Poly([(c1 * c2, f1 + f2) for c1, f1 in self.terms for c2, f2 in o.terms])

    __rmul__ = __mul__

    def __truediv__(self, o):
        o = Poly.lift(o)
        if len(o.terms) == 1 and not o.terms[0][1]:
            return self * Poly.const(1 / o.terms[0][0])
        lin = []
        for c, fs in o.terms:
            if len(fs) != 1 or fs[0][0] != "e":
                raise AnalysisError("A8: division by something that is not an orbital-energy bracket")
            lin.append((c, fs[0][2][0]))
        den = ("denom", "", tuple(sorted((str(c), i) for c, i in lin)))
        return self * Poly([(Fraction(1), (den,))])

    def __rtruediv__(self, o):
        return Poly.lift(o) / self

    def __pow__(self, n):
        if isinstance(n, Fraction) and n.denominator == 1:
            n = int(n)
        if not isinstance(n, int) or isinstance(n, bool) or abs(n) > 8:
            raise AnalysisError(f"A8: power {n!r} of a polynomial")
        out = Poly.const(1)
        for _ in range(abs(n)):
            out = out * self
        return out if n >= 0 else Poly.const(1) / out

    def rename(self, mp):
        def rf(f):
            if f[0] == "denom":
                return ("denom", "", tuple(sorted((c, mp.get(i, i)) for c, i in f[2])))
            return (f[0], f[1]) + tuple(tuple(mp.get(i, i) for i in grp) for grp in f[2:])
        return Poly([(c, tuple(rf(f) for f in fs)) for c, fs in self.terms])

    def permute(self, *perms):
        p = self
        for a, b in perms:
            a, b = _nm(a), _nm(b)
            p = p.rename({a: b, b: a})
        return p

    def indices(self):
        out = set()
        for _, fs in self.terms:
            for f in fs:
                if f[0] == "denom":
                    out |= {i for _, i in f[2]}
                else:
                    for g in f[2:]:
                        out |= set(g)
        return out


def _nm(x):
    return x.name if isinstance(x, Idx) else x


def tensor_factor(kind, name, *groups):
    return Poly([(Fraction(1), ((kind, name) + tuple(tuple(_nm(i) for i in g) for g in groups),))])


# ---------------------------------------------------------------------------
# interpretation of a definition


def _get_symbols(interp, node, a, kw):
    x = a[0]
    if isinstance(x, str):
        names = re.findall(r"[a-z]\d*", x)
    else:
        names = [n if isinstance(n, str) else n.name for n in x]
    return [Idx(n) for n in names]


def definition(ctx, name, fully_expand=False):
    """-> (Poly, target names, contracted names | None)"""
    reg = registry(ctx)
    info = reg[name]

    def itmd_rec(n):
        inf = reg[n]

        def tensor(interp, node, a, kw):
            idx = kw.get("indices", a[0] if a else None)
            if idx is None:
                idx = [Idx(x) for x in inf["default_idx"]]
            idx = list(idx)
            if len(idx) != len(inf["default_idx"]):
                raise _Typing(f"{name}: `{n}` is called with {len(idx)} indices, it has {len(inf['default_idx'])}", node)
            for got, want in zip(idx, inf["default_idx"]):
                if space_of(_nm(got)) != space_of(want):
                    raise _Typing(f"{name}: `{n}` is called with index `{_nm(got)}` at the position of `{want}` (other space)", node)
            return tensor_factor("itmd", n, idx)
        return Rec("itmd", name=n, tensor=tensor, expand_itmd=tensor)
    registry_val = {}
    for n, inf in reg.items():
        registry_val.setdefault(inf["itmd_type"], {})[n] = itmd_rec(n)
    me = Rec("self", default_idx=info["default_idx"], _registry=registry_val, name=name)

    def eri(interp, node, a, kw):
        idx = list(a[0])
        if len(idx) != 4:
            raise _Typing(f"{name}: eri needs 4 indices, got {len(idx)}", node)
        return tensor_factor("eri", "V", idx[:2], idx[2:])

    def fock(interp, node, a, kw):
        idx = list(a[0])
        if len(idx) != 2:
            raise _Typing(f"{name}: fock needs 2 indices, got {len(idx)}", node)
        return tensor_factor("fock", "f", idx[:1], idx[1:])

    def orb_energy(interp, node, a, kw):
        x = a[0]
        idx = [x] if isinstance(x, (Idx, str)) else list(x)
        if len(idx) != 1:
            raise _Typing(f"{name}: orb_energy needs 1 index", node)
        return tensor_factor("e", "e", idx)

    def attr_hook(interp, obj, attr, node):
        if isinstance(obj, Poly):
            if attr == "sympy":
                return obj
            if attr in ("copy", "expand"):
                return lambda i, n, a, kw: obj
            if attr == "permute":
                return lambda i, n, a, kw: obj.permute(*a)
            if attr == "subs":
                def subs(i, n, a, kw):
                    if not (a and isinstance(a[0], dict) and kw.get("simultaneous") is True):
                        raise AnalysisError(f"A8({name}): subs without simultaneous=True")
                    return obj.rename({_nm(k): _nm(v) for k, v in a[0].items()})
                return subs
        return NotImplemented
    env = {
        "get_symbols": _get_symbols, "eri": eri, "fock": fock, "orb_energy": orb_energy,
        "Rational": lambda i, n, a, kw: Fraction(a[0], a[1]) if len(a) == 2 else Fraction(a[0]),
        "base_expr": lambda i, n, a, kw: ("base_expr",) + tuple(a),
        "product": lambda i, n, a, kw: list(itertools.product(*a)),
        "tuple": lambda i, n, a, kw: tuple(a[0]) if a else (),
        "e": Rec("e", Expr=lambda i, n, a, kw: a[0]),
    }
    interp = Interp(env, attr_hook=attr_hook, what=f"{name}._build_expanded_itmd")
    interp.MAX_STEPS = 400000
    try:
        kind, val = interp.call(info["build"], {"self": me, "fully_expand": fully_expand})
    except _Typing:
        raise
    if kind != "return" or not (isinstance(val, tuple) and val and val[0] == "base_expr"):
        raise AnalysisError(f"A8({name}): definition did not return base_expr(...) ({kind} {val!r})")
    _, expr, target, contracted = val
    expr = Poly.lift(expr)
    target = [_nm(t) for t in target]
    contracted = None if contracted is None else [_nm(c) for c in contracted]
    return expr, target, contracted


class _Typing(Exception):
    def __init__(self, msg, node):
        super().__init__(msg)
        self.msg, self.node = msg, node


# ---------------------------------------------------------------------------
# canonical form


def _sort_sign(seq):
    """sorted tuple and parity of the sorting permutation; None if repeated"""
    seq = list(seq)
    if len(set(seq)) != len(seq):
        return None, 0
    sign = 1
    for i in range(len(seq)):
        for j in range(len(seq) - 1 - i):
            if seq[j] > seq[j + 1]:
                seq[j], seq[j + 1] = seq[j + 1], seq[j]
                sign = -sign
    return tuple(seq), sign


def _norm_factor(f, reg):
    """-> (normalised factor, sign) or (None, 0) if it vanishes"""
    kind = f[0]
    if kind == "denom":
        items = sorted(f[2], key=lambda t: t[1])
        # sign convention: occupied orbital energies positive
        occ = [c for c, i in items if space_of(_strip(i)) == "o"]
        ref = occ[0] if occ else items[0][0]
        if str(ref).startswith("-"):
            items = [(_negs(c), i) for c, i in items]
            return ("denom", "", tuple(items)), -1
        return ("denom", "", tuple(items)), 1
    if kind == "e":
        return f, 1
    if kind in ("eri", "fock"):
        up, s1 = _sort_sign(f[2])
        lo, s2 = _sort_sign(f[3])
        if up is None or lo is None:
            return None, 0
        a, b = sorted([up, lo])  # real orbitals: <pq||rs> = <rs||pq>, f_pq = f_qp
        return (kind, f[1], a, b), s1 * s2
    if kind == "itmd":
        inf = reg[f[1]]
        idx = f[2]
        groups = [tuple(idx[p] for p in g) for g in inf["groups_pos"]]
        if inf["tensor_kind"] == "NonSymmetricTensor":
            return ("itmd", f[1], tuple(idx)), 1
        sign = 1
        ng = []
        for g in groups:
            if inf["tensor_kind"] == "SymmetricTensor":
                ng.append(tuple(sorted(g)))
            else:
                sg, s = _sort_sign(g)
                if sg is None:
                    return None, 0
                ng.append(sg)
                sign *= s
        if inf["bra_ket_sym"] == 1:
            ng = sorted(ng)
        elif inf["bra_ket_sym"] == -1:
            if ng[1] < ng[0]:
                ng = [ng[1], ng[0]]
                sign = -sign
        return ("itmd", f[1]) + tuple(ng), sign
    raise AnalysisError(f"A8: unknown factor kind {kind}")


def _strip(i):
    return i.lstrip("~")


def _negs(c):
    return c[1:] if c.startswith("-") else "-" + c


def canonical(poly: Poly, target, reg) -> dict:
    """normal form: {key: coefficient}; key = sorted tuple of normalised factors
    after the lexicographically minimal renaming of the contracted indices"""
    out = {}
    tset = set(target)
    for coef, fs in poly.terms:
        if coef == 0:
            continue
        contracted = sorted({i for f in fs for i in _factor_indices(f)} - tset)
        by_space = {}
        for c in contracted:
            by_space.setdefault(space_of(c), []).append(c)
        spaces = sorted(by_space)
        best = None
        signs = set()
        perms = [list(itertools.permutations(range(len(by_space[s])))) for s in spaces]
        for combo in itertools.product(*perms):
            mp = {}
            for s, perm in zip(spaces, combo):
                for old, k in zip(by_space[s], perm):
                    mp[old] = f"~{s}{k}"
            sign = 1
            nf = []
            dead = False
            for f in Poly([(1, fs)]).rename(mp).terms[0][1]:
                g, s = _norm_factor(f, reg)
                if g is None:
                    dead = True
                    break
                nf.append(g)
                sign *= s
            if dead:
                best = None
                signs = {0}
                break
            key = tuple(sorted(nf, key=repr))
            kr = repr(key)
            if best is None or kr < best[0]:
                best = (kr, key)
                signs = {sign}
            elif kr == best[0]:
                signs.add(sign)
        if best is None or len(signs) != 1 or 0 in signs:
            continue  # vanishes identically
        key = best[1]
        out[key] = out.get(key, Fraction(0)) + coef * signs.pop()
    return {k: v for k, v in out.items() if v != 0}


def _factor_indices(f):
    if f[0] == "denom":
        return [i for _, i in f[2]]
    out = []
    for g in f[2:]:
        out += list(g)
    return out


def show(nf: dict) -> list[str]:
    return sorted(f"{v} * " + " ".join(_show_factor(f) for f in k) for k, v in nf.items())


def _show_factor(f):
    if f[0] == "denom":
        return "1/(" + " ".join(f"{c if c.startswith('-') else '+' + c}*e_{i}" for c, i in f[2]) + ")"
    return f"{f[1]}[" + "|".join(",".join(g) for g in f[2:]) + "]"
