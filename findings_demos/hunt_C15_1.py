"""
C15 defect 1: the Fock matrix has no known spin blocks.

Obj.allowed_spin_blocks (adcgen/expr_container.py:1949-1994) returns None for
the Fock matrix. integrate_spin (adcgen/spatial_orbitals.py:147-151, 218-242)
therefore sums indices that are only bound through f over both spins
independently and the restricted branch (spatial_orbitals.py:65-83) renames
the vanishing f_{alpha beta} elements to non-vanishing f_{alpha alpha}
elements: wrong prefactors / non-zero results for vanishing spin blocks.
Furthermore, the spin blocks of the RE residual intermediates (contain f) can
not be determined (RuntimeError).

Run from the worktree root:  /venv/bin/python hunt_out/1/demo.py
exit 1 -> defect present, exit 0 -> fixed
"""
import logging
import os
import sys
from fractions import Fraction
from itertools import product

sys.path.insert(0, os.getcwd())

import adcgen  # noqa E402
from adcgen.expr_container import Expr  # noqa E402
from adcgen.indices import get_symbols, Index  # noqa E402
from adcgen.spatial_orbitals import transform_to_spatial_orbitals  # noqa E402
from adcgen.sympy_objects import AntiSymmetricTensor, SymmetricTensor  # noqa E402
from adcgen.tensor_names import tensor_names  # noqa E402
from adcgen.intermediates import Intermediates  # noqa E402
from sympy import S  # noqa E402

logging.getLogger("adcgen").setLevel(logging.ERROR)
print("using", adcgen.__file__)

failed = False


def fock(p, q):
    return AntiSymmetricTensor(tensor_names.fock, (p,), (q,))


def denom(i, a):
    return SymmetricTensor(tensor_names.sym_orb_denom, (i,), (a,), -1)


i, a, p = get_symbols("iap")
ia, aa, pa = get_symbols("iap", "aaa")

# ---------------------------------------------------------------------------
# 1) second order singles energy contribution for a non-HF reference:
#       E = sum_{ia} f_ia f_ia / (e_i - e_a)        (sum over spin orbitals)
#    closed shell (restricted): f is spin conserving and the alpha and
#    beta blocks coincide
#       E = 2 sum_{IA} f_IA f_IA / (e_I - e_A)      (sum over spatial orbitals)
# ---------------------------------------------------------------------------
expr = Expr(fock(i, a) * fock(i, a) * denom(i, a), real=True, target_idx="")
res = transform_to_spatial_orbitals(expr.copy(), "", "", restricted=True,
                                    expand_eri=True)
ref = 2 * fock(ia, aa)**2 * denom(ia, aa)
print("\n1) restricted integration of", expr)
print("   expected:", Expr(ref, real=True))
print("   obtained:", res)
if (res.sympy - Expr(ref, real=True).sympy).expand() is not S.Zero:
    print("   -> WRONG")
    failed = True

# brute force check with numbers (2 occupied, 2 virtual spatial orbitals)
nocc, nvirt = 2, 2
fval = {(I, A): Fraction(3 * I + A + 1, 7) for I in range(nocc)
        for A in range(nvirt)}
eocc = [Fraction(-3), Fraction(-2)]
evirt = [Fraction(1), Fraction(5, 2)]
# spin orbital value: sum over i = (I, s), a = (A, s') with f = 0 if s != s'
spin_orbital_value = sum(
    (fval[I, A]**2 if s == sp else 0) / (eocc[I] - evirt[A])
    for I in range(nocc) for A in range(nvirt) for s in "ab" for sp in "ab"
)
# value of the returned all alpha expression: every remaining index runs over
# the spatial orbitals
coeff = res.sympy / (Expr(ref, real=True).sympy / 2)
assert coeff.is_number, coeff
coeff = Fraction(int(coeff.p), int(coeff.q))
restricted_value = coeff * sum(
    fval[I, A]**2 / (eocc[I] - evirt[A])
    for I in range(nocc) for A in range(nvirt)
)
print("   numeric: spin orbital expression =", spin_orbital_value,
      " returned restricted expression =", restricted_value)
if spin_orbital_value != restricted_value:
    print("   -> WRONG")
    failed = True

# ---------------------------------------------------------------------------
# 2) the alpha/beta block of the fock matrix is zero
# ---------------------------------------------------------------------------
expr = Expr(fock(p, i), real=True, target_idx="pi")
for restricted in (False, True):
    res = transform_to_spatial_orbitals(expr.copy(), "pi", "ab",
                                        restricted=restricted)
    print(f"\n2) block 'ab' of {expr} (restricted={restricted})")
    print("   expected: 0 (or a f_{alpha beta} element in the unrestricted "
          "case)")
    print("   obtained:", res)
    if restricted and res.sympy is not S.Zero:
        print("   -> WRONG: a non-vanishing all alpha fock element is "
              "returned for a vanishing spin block")
        failed = True

# ---------------------------------------------------------------------------
# 3) the spin blocks of the intermediates that contain the fock matrix
#    (RE residuals) can not be determined
# ---------------------------------------------------------------------------
print("\n3) allowed spin blocks of t1_2_re_residual")
try:
    blocks = Intermediates().available["t1_2_re_residual"].allowed_spin_blocks
    print("   obtained:", blocks)
    if blocks != ("aa", "bb"):
        failed = True
except RuntimeError as err:
    print("   expected: ('aa', 'bb')")
    print("   obtained: RuntimeError:", str(err)[:100])
    failed = True

print("\nDEFECT PRESENT" if failed else "\nOK")
sys.exit(1 if failed else 0)
