"""
exploit_perm_sym (and therefore generate_code) counts a term twice if the
expression contains two terms that are equal up to the names of their
contracted indices (an expression that has not been passed through simplify).

Run from the worktree root:  /venv/bin/python hunt_out/1/demo.py
exit code 1: defect present, 0: fixed
"""
import sys, os, re, itertools, random
sys.path.insert(0, os.getcwd())
from fractions import Fraction
import logging
logging.disable(logging.CRITICAL)

from adcgen import Expr, generate_code
from adcgen.indices import get_symbols
from adcgen.sympy_objects import NonSymmetricTensor
from adcgen.sort_expr import exploit_perm_sym
from adcgen.simplify import simplify

N = 3  # number of occupied orbitals
rnd = random.Random(1)
DATA = {  # the two (non-symmetric) input matrices
    "A_oo": {k: Fraction(rnd.randint(-9, 9)) for k in
             itertools.product(range(N), repeat=2)},
    "B_oo": {k: Fraction(rnd.randint(-9, 9)) for k in
             itertools.product(range(N), repeat=2)},
}

i, j, k, l, m = get_symbols("ijklm")


def X(p, q, r):  # sum_r A_pr B_rq
    return NonSymmetricTensor("A", (p, r)) * NonSymmetricTensor("B", (r, q))


# r_ij = X_ij - X_ji - X_ji = X_ij - 2 X_ji, where the two copies of X_ji use
# different names for the contracted index (as in any raw, unsimplified result)
sympy_expr = X(i, j, k) - X(j, i, l) - X(j, i, m)


def expected(iv, jv):
    x = lambda p, q: sum(DATA["A_oo"][p, r] * DATA["B_oo"][r, q]
                         for r in range(N))
    return x(iv, jv) - 2 * x(jv, iv)


# -- a tiny independent interpreter for the emitted einsum code --------------
def einsum(spec, *ops):
    lhs, out = spec.split("->")
    subs = lhs.split(",")
    letters = sorted(set("".join(subs)))
    res = {}
    for vals in itertools.product(range(N), repeat=len(letters)):
        a = dict(zip(letters, vals))
        v = Fraction(1)
        for s, op in zip(subs, ops):
            v *= op[tuple(a[c] for c in s)]
        key = tuple(a[c] for c in out)
        res[key] = res.get(key, 0) + v
    return Arr(res)


class Arr(dict):
    def __rmul__(self, f):
        return Arr({k_: f * v for k_, v in self.items()})
    __mul__ = __rmul__

    def __neg__(self):
        return -1 * self

    def __pos__(self):
        return self


def run_code(code, target):
    total = {k_: Fraction(0) for k_ in itertools.product(range(N),
                                                        repeat=len(target))}
    for block in code.split("The scaling comment is given as")[1:]:
        lines = block.strip().split("\n")[1:]
        perm_str = re.fullmatch(r"Apply (.*) to:", lines[0]).group(1)
        part = {k_: Fraction(0) for k_ in total}
        for line in lines[1:]:
            line = re.sub(r"(?<![\w.\"])(\d+)(?![\w.])", r"Fraction(\1)",
                          line.split("#")[0])
            val = eval(line, {"einsum": einsum, "Fraction": Fraction,
                              **{n: Arr(d) for n, d in DATA.items()}})
            for k_ in part:
                part[k_] += val[k_]
        # apply (1 +- P_pq ...)
        ops = [(1, [])]
        if perm_str != "1":
            toks = perm_str.strip("()").split()[1:]
            for sign, p in zip(toks[::2], toks[1::2]):
                ops.append((1 if sign == "+" else -1,
                            re.findall(r"P_([a-z])([a-z])", p)))
        for sign, perms in ops:
            names = list(target)
            for p, q in perms:
                names = [q if n == p else p if n == q else n for n in names]
            for k_ in total:
                src = tuple(k_[target.index(n)] for n in names)
                total[k_] += sign * part[src]
    return total


failed = False
for opt in (True, False):
    code = generate_code(Expr(sympy_expr), "ij",
                         optimize_contraction_scheme=opt)
    got = run_code(code, "ij")
    bad = [(key, expected(*key), v) for key, v in got.items()
           if v != expected(*key)]
    if bad:
        failed = True
        print(f"generate_code(optimize_contraction_scheme={opt}) emitted\n"
              f"{code}\n-> {len(bad)} of {len(got)} elements of r_ij differ, "
              "e.g. (index, expected, generated code):")
        for b in bad[:3]:
            print("   ", b)

# second, purely symbolic check of exploit_perm_sym itself:
# sum_perms factor * P(sub_expr) has to give back the original expression
original = Expr(sympy_expr)
rebuilt = Expr(0)
for perm_sym, sub_expr in exploit_perm_sym(Expr(sympy_expr), "ij").items():
    rebuilt += sub_expr.sympy
    for perms, factor in perm_sym:
        rebuilt += factor * sub_expr.copy().permute(*perms).sympy
diff = simplify(rebuilt - original.sympy)
if diff.sympy != 0:
    failed = True
    print("exploit_perm_sym: (sum of permuted parts) - (original expression) "
          f"= {diff}   (expected 0)")

if failed:
    sys.exit(1)
print("OK: the generated code reproduces the expression")
