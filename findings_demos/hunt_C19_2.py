"""
C19 / defect 2: the text of a result depends on which member caches were
filled before: a cached sub-result keeps the (old) generic contracted indices
it was built with, 'substitute_contracted' assigns the lowest names according
to the rank of the current names, so the relative age of the index groups -
and with it the text - changes with the call history.

Run from the worktree root:  /venv/bin/python hunt_out/2/demo.py
exit code 1: the text of the same request differs between call histories
exit code 0: all call histories give the same text
"""
import os
import subprocess
import sys

CHILD = r'''
import sys
import adcgen
from adcgen import Operators, GroundState, IntermediateStates, Expr
assert adcgen.__file__.startswith(sys.argv[2]), adcgen.__file__

op = Operators("mp")
gs = GroundState(op)
isr = IntermediateStates(gs, "pp")

history = sys.argv[1]
if history == "overlap":
    # an earlier derivation that fills the cache of isr.precursor for the
    # bra precursor states with the indices 'ia'
    isr.overlap_precursor(2, "ph,ph", "ia,jb")
elif history == "precursor":
    isr.precursor(1, "ph", "bra", "ia")

# the request: second order intermediate state <ia|
res = Expr(isr.intermediate_state(2, "ph", "bra", "ia")).expand()
# rename the contracted indices to the lowest available names
res.substitute_contracted()
for line in sorted(str(t.sympy) for t in res.terms):
    print(line)
'''

root = os.getcwd()
env = dict(os.environ, PYTHONHASHSEED="0", ADCGEN_LOG_LEVEL="ERROR",
           PYTHONPATH=root)
texts = {}
for history in ("none", "overlap", "precursor"):
    out = subprocess.run([sys.executable, "-c", CHILD, history, root],
                         capture_output=True, text=True, env=env, cwd=root)
    if out.returncode:
        print(out.stderr)
        sys.exit(2)
    texts[history] = out.stdout.splitlines()

ref = texts["none"]
failed = False
for history, text in texts.items():
    if text == ref:
        print(f"history {history!r}: {len(text)} terms, same text as "
              "without history")
        continue
    failed = True
    print(f"history {history!r}: {len(text)} terms, TEXT DIFFERS from the "
          "run without history:")
    for line in sorted(set(ref) - set(text)):
        print("   only without history:", line)
    for line in sorted(set(text) - set(ref)):
        print(f"   only with history {history!r}:", line)
if failed:
    print("FAIL: isr.intermediate_state(2, 'ph', 'bra', 'ia') has a "
          "different text (after substitute_contracted) depending on which "
          "cached results preceded it.")
    sys.exit(1)
print("OK: the text does not depend on the call history.")
sys.exit(0)
