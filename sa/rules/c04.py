"""C04 intermediate states: derivation skeleton by abstract evaluation."""
from __future__ import annotations

from fractions import Fraction

from ..model import AnalysisError
from ..symex import Obj
from ..terms import T, sym, kwcall, mcall, call, t_mul, t_add, t_neg, t_pow, expand_products, subterms, args_of, show
from . import dx

EXPLANATION = (
    "Every method of intermediate_states.py is evaluated abstractly (sa.symex) for concrete orders, spaces and sides "
    "with wicks, the ground-state wavefunctions, norm factors, excitation operators and the recursive sub-derivations "
    "left uninterpreted, and the resulting sum of products is compared with the ISR construction on every path (also "
    "the paths on which a norm factor vanishes). R04c precursor: NO(C_I)|Psi^(n)> minus (pp only) the ground-state "
    "projection sum_{a+m=n} N^(a) sum_{i+j+k=m} |Psi^(i)> wicks(<Psi^(j)| NO(C_I) |Psi^(k)>) minus, for every lower "
    "excitation class L, sum N^(a) 1/(n_o(L)! n_v(L)!) |L^(i)> wicks(<L^(j)| NO(C_I) |Psi^(k)>) on indices generated "
    "for L (bra: mirrored, adjoint operators); refusal of foreign spaces, general indices and wrong index counts. "
    "D3: the lifting prefactors of those sums and of intermediate_state / s_root. R04a s_root: sum_k c_k "
    "sum_{o_1+..+o_k=n, o_i>=2} (1/(n_o! n_v!))^(k-1) S^(o_1)_{I,K1} S^(o_2)_{K1,K2} ... S^(o_k)_{K(k-1),J} with c_k the "
    "Taylor coefficients of (1+x)^(-1/2) and fresh interior index strings of the block's space; off-diagonal blocks and "
    "repeated indices refused. intermediate_state: 1/(n_o! n_v!) sum_{a+b=n} S^(-1/2,(a)) precursor^(b) with the "
    "side-dependent index order. overlap_precursor / overlap_isr: sum N^(a) sum wicks(<I^(i)|J^(k)>). D1/D2 are read "
    "off the same comparison (order splits complete, factor order inside wicks). R04b: validate_space evaluated on all "
    "space strings with <= 3 p and <= 3 h for every candidate minimal space (the set of lower spaces of a space is observed "
    "through the public function; the private helper that generates them is evaluated through, not named). R02c: Taylor coefficients of (1+x)^-1/2 "
    "returned by expand_S_taylor for orders 0..9. amplitude_vector: configured left/right name on (virt, occ) indices.")
ASSUMPTIONS = [
    "that the Taylor series of S^(-1/2) orthonormalises is mathematics, not checked",
    "symmetry of the precursor overlap is not decided",
    "skeletons are evaluated for orders 0..3 (thorough tier: up to 6; s_root 0..7, Taylor 0..9) and the listed spaces only (bounded)",
    "wicks, psi, norm_factor, excitation_operator, NO/Dagger and the index generator are uninterpreted or modelled",
]

IS = dx.IS
GEN = sym  # readability


def _isr(scen):
    return scen.objects()[2]


def _lower(space):
    out = []
    while "p" in space and "h" in space:
        space = space.replace("p", "", 1).replace("h", "", 1)
        if space:
            out.append(space)
    return out


def _NF(a):
    return mcall(sym("gs"), "norm_factor", order=a)


def _psi(o, bk):
    return mcall(sym("gs"), "psi", order=o, braket=bk)


def _state(meth, o, sp, bk, idx):
    return mcall(sym("isr"), meth, order=o, space=sp, braket=bk, indices=idx)


def _wicks(expr):
    return kwcall("wicks", expr=expr, rules=None, simplify_kronecker_deltas=True)


def _gen_for(scen, space):
    return [k for k, sp in scen.generated.items() if sp == space]


def _run(ctx, meth, scen, **kw):
    sx = dx.make_sx(ctx, meth, scen, max_paths=8192, hooks=dx.taylor_hooks(),
                    extra_inline={IS + ".expand_S_taylor"} if meth == "s_root" else (),
                    oracle=dx.nothing_vanishes if meth == "s_root" else None)
    fn = ctx.model.fn(f"{IS}.{meth}")
    return fn, sx.run(fn, lambda: dict(self=_isr(scen), **kw))


# ------------------------------------------------------------------ overlaps

def overlaps(ctx):
    rule = "R04c"
    for meth, state in (("overlap_precursor", "precursor"), ("overlap_isr", "intermediate_state")):
        for order in dx.orders(ctx, (0, 1, 2, 3), (4,)):
            for block, idx in ((("ph", "ph"), ("ia", "jb")), (("ph", "pphh"), ("ia", "jkbc"))):
                if order >= 3 and block[1] != "ph":
                    continue
                scen = dx.Scenario()
                fn, outs = _run(ctx, meth, scen, order=order, block=",".join(block), indices=",".join(idx))
                formula = [t_mul(_NF(a), _wicks(t_mul(_state(state, i, block[0], "bra", idx[0]), _state(state, k, block[1], "ket", idx[1]))))
                           for a, m in dx.compositions(order, 2) for i, k in dx.compositions(m, 2)]
                dx.check_formula(ctx, rule, fn, f"{meth}({order}, {block})", outs, formula, key=f"{meth} {order} {block[1]}")
        scen = dx.Scenario()
        fn, outs = _run(ctx, meth, scen, order=1, block="ph,ph", indices="ia")
        dx.all_raise(ctx, rule, fn, f"{meth}: a single index string", outs, key=f"{meth} guard one string")
    scen = dx.Scenario()
    fn, outs = _run(ctx, "overlap_precursor", scen, order=1, block="ph,ph", indices="ia,ib")
    dx.all_raise(ctx, rule, fn, "overlap_precursor: index shared by bra and ket", outs, key="overlap_precursor guard repeated")


# ------------------------------------------------------------------ intermediate state

def intermediate_state(ctx):
    rule = "R04c"
    for variant, space, idx in (("pp", "ph", "ia"), ("pp", "pphh", "ijab"), ("ip", "h", "i"), ("ip", "phh", "ija"), ("dea", "pp", "ab")):
        for bk in ("bra", "ket"):
            for order in dx.orders(ctx, (0, 1, 2, 3), (4, 5, 6)):
                scen = dx.Scenario(variant=variant)
                fn, outs = _run(ctx, "intermediate_state", scen, order=order, space=space, braket=bk, indices=idx)
                what = f"intermediate_state({order}, {space}, {bk})"
                g = _gen_for(scen, space)
                ctx.check("D3", fn, len(scen.generated) == 1 and len(g) == 1, f"{what}: summed precursor indices generated for {space}",
                          f"{what}: indices generated for {sorted(scen.generated.values())}, expected [{space}]", key=f"is generated {space} {bk} {order}")
                if not g:
                    continue
                g = g[0]
                sidx = f"{idx},{g}" if bk == "bra" else f"{g},{idx}"
                formula = [t_mul(dx.lift(space), mcall(sym("isr"), "s_root", order=a, block=(space, space), indices=sidx),
                                 _state("precursor", b, space, bk, g)) for a, b in dx.compositions(order, 2)]
                dx.check_formula(ctx, rule, fn, what, outs, formula, key=f"is {space} {bk} {order}")
    scen = dx.Scenario()
    fn, outs = _run(ctx, "intermediate_state", scen, order=1, space="ph", braket="ket", indices="ia,jb")
    dx.all_raise(ctx, rule, fn, "intermediate_state: two index strings", outs, key="is guard two strings")


# ------------------------------------------------------------------ S^(-1/2)

def s_root(ctx):
    rule = "R04a"
    for space, idx in (("ph", ("ia", "jb")), ("pphh", ("ijab", "klcd")), ("phh", ("ija", "klb"))):
        for order in range(0, 8):
            if order > 5 and space != "ph":
                continue
            scen = dx.Scenario(variant="pp" if "ph" == space[:2] or space == "ph" else "ip")
            fn, outs = _run(ctx, "s_root", scen, order=order, block=f"{space},{space}", indices=",".join(idx))
            what = f"s_root({order}, {space})"
            kmax = max(order // 2, 1)
            gens = _gen_for(scen, space)
            ctx.check(rule, fn, len(gens) == kmax - 1 and len(scen.generated) == len(gens) and len(set(gens)) == len(gens),
                      f"{what}: {kmax - 1} fresh interior index strings of the space {space}",
                      f"{what}: interior index strings generated for {sorted(scen.generated.values())}, expected {kmax - 1} x {space}",
                      key=f"sroot interior {space} {order}")
            if len(gens) != kmax - 1:
                continue
            formula = []
            if order < 2:
                formula.append(mcall(sym("isr"), "overlap_precursor", order=order, block=(space, space), indices=idx))
            else:
                for k in range(1, kmax + 1):
                    ck = dx.taylor_coefficient(Fraction(-1, 2), k)
                    for os_ in dx.compositions(order, k, lo=2):
                        chain = [idx[0]] + gens[:k - 1] + [idx[1]]
                        fs = [mcall(sym("isr"), "overlap_precursor", order=o, block=(space, space), indices=(chain[m], chain[m + 1]))
                              for m, o in enumerate(os_)]
                        formula.append(t_mul(ck, dx.lift(space) ** (k - 1), *fs))
            dx.check_formula(ctx, rule, fn, what, outs, formula, key=f"sroot {space} {order}", only_full=True)
    scen = dx.Scenario()
    fn, outs = _run(ctx, "s_root", scen, order=2, block="ph,pphh", indices="ia,jkbc")
    dx.all_raise(ctx, rule, fn, "s_root: off-diagonal block", outs, key="sroot guard offdiag")
    scen = dx.Scenario()
    fn, outs = _run(ctx, "s_root", scen, order=2, block="ph,ph", indices="ia,ib")
    dx.all_raise(ctx, rule, fn, "s_root: index shared by both strings", outs, key="sroot guard repeated")


def taylor(ctx, rule="R02c"):
    fn = ctx.model.fn(IS + ".expand_S_taylor")
    for order in range(0, 10):
        scen = dx.Scenario()
        sx = dx.make_sx(ctx, "expand_S_taylor", scen, hooks=dx.taylor_hooks())
        outs = sx.run(fn, lambda: dict(self=_isr(scen), order=order, min_order=2))
        if order < 2:
            want = [(1, [(order,)])]
        else:
            want = [(dx.taylor_coefficient(Fraction(-1, 2), k), [tuple(c) for c in dx.compositions(order, k, lo=2)])
                    for k in range(1, order // 2 + 1)]
        got = dx.val(outs[0]) if len(outs) == 1 and outs[0].kind == "return" else None
        norm = None
        if isinstance(got, list):
            try:
                norm = [(Fraction(p), sorted(tuple(t) for t in ts)) for p, ts in got]
            except Exception:
                norm = None
        ctx.check(rule, fn, norm == [(Fraction(p), sorted(ts)) for p, ts in want], f"S^(-1/2) Taylor terms of order {order}",
                  f"expand_S_taylor({order}) returns {show(got)[:300]}, expected {want}", key=f"S taylor {order}")
    scen = dx.Scenario()
    sx = dx.make_sx(ctx, "expand_S_taylor", scen, hooks=dx.taylor_hooks())
    outs = sx.run(fn, lambda: dict(self=_isr(scen), order=4, min_order=0))
    dx.all_raise(ctx, rule, fn, "expand_S_taylor: min_order 0", outs, key="S taylor guard")


# ------------------------------------------------------------------ precursor

def _model_get_indices():
    """Model of Indices.get_indices for plain index strings (occ i-o, virt a-h, general p-z)."""
    def get_indices(sx, a, kw):
        s = a[1] if len(a) > 1 else kw.get("indices")
        if not isinstance(s, str):
            return NotImplemented
        out = {}
        import re
        for name in re.findall(r"<[^>]*>|[a-z]\d*", s):
            c = name[0]
            if c == "<":
                sp = "occ" if False else None
                continue
            sp = "occ" if "i" <= c <= "o" else "virt" if "a" <= c <= "h" else "general"
            o = Obj(None, name)
            o.attrs.update(name=name, space=sp, spin="")
            out.setdefault((sp, ""), []).append(o)
        return out
    return {"Indices.get_indices": get_indices}


def precursor(ctx):
    rule = "R04c"
    fn = ctx.model.fn(IS + ".precursor")
    cases = (("pp", "ph", "ia"), ("pp", "pphh", "ijab"), ("ip", "h", "i"), ("ip", "phh", "ija"), ("ea", "pph", "iab"), ("pp", "ppphhh", "ijkabc"))
    n = 0
    for variant, space, idx in cases:
        for bk in ("ket", "bra"):
            for order in dx.orders(ctx, (0, 1, 2), (3,)):
                if space == "ppphhh" and order > 1:
                    continue
                scen = dx.Scenario(variant=variant)
                sx = dx.make_sx(ctx, "precursor", scen, max_paths=8192, hooks=_model_get_indices())
                outs = sx.run(fn, lambda: dict(self=_isr(scen), order=order, space=space, braket=bk, indices=idx))
                what = f"{variant}: precursor({order}, {space}, {bk})"
                occ = [sym(c) for c in idx if "i" <= c <= "o"]
                virt = [sym(c) for c in idx if "a" <= c <= "h"]
                X = mcall(sym("h"), "excitation_operator", creation=tuple(virt), annihilation=tuple(occ), reverse_annihilation=False)
                if bk == "bra":
                    X = call("Dagger", X)
                NOX = call("NO", X)
                lowers = _lower(space)
                gens = {L: _gen_for(scen, L) for L in lowers}
                ok = all(len(g) == 1 for g in gens.values()) and len(scen.generated) == len(lowers)
                ctx.check("D3", fn, ok, f"{what}: one summed index string per lower class {lowers}",
                          f"{what}: index strings generated for {sorted(scen.generated.values())}, expected one for each of {lowers}",
                          key=f"precursor generated {variant} {space} {bk} {order}")
                if not ok:
                    continue
                formula = [t_mul(NOX, _psi(order, bk))]
                splits = [(a, t) for a, m in dx.compositions(order, 2) for t in dx.compositions(m, 3)]
                if variant == "pp":
                    for a, (t0, t1, t2) in splits:
                        if bk == "ket":
                            formula.append(t_mul(-1, _NF(a), _psi(t0, "ket"), _wicks(t_mul(_psi(t1, "bra"), NOX, _psi(t2, "ket")))))
                        else:
                            formula.append(t_mul(-1, _NF(a), _psi(t2, "bra"), _wicks(t_mul(_psi(t0, "bra"), NOX, _psi(t1, "ket")))))
                for L in lowers:
                    g = gens[L][0]
                    for a, (t0, t1, t2) in splits:
                        if bk == "ket":
                            formula.append(t_mul(-1, _NF(a), dx.lift(L), _state("intermediate_state", t0, L, "ket", g),
                                                 _wicks(t_mul(_state("intermediate_state", t1, L, "bra", g), NOX, _psi(t2, "ket")))))
                        else:
                            formula.append(t_mul(-1, _NF(a), dx.lift(L), _state("intermediate_state", t2, L, "bra", g),
                                                 _wicks(t_mul(_psi(t0, "bra"), NOX, _state("intermediate_state", t1, L, "ket", g)))))
                n += dx.check_formula(ctx, rule, fn, what, outs, formula, key=f"precursor {variant} {space} {bk} {order}")
    ctx.floor(rule, "precursor paths equal to the formula", n, 40)
    # guards
    for variant, space, idx, why in (("ip", "ph", "ia", "space foreign to the variant"), ("pp", "ph", "ip", "general index"),
                                     ("pp", "pphh", "ia", "index count does not fit the space"), ("pp", "ph", "ij", "occupied/virtual count does not fit")):
        scen = dx.Scenario(variant=variant)
        sx = dx.make_sx(ctx, "precursor", scen, hooks=_model_get_indices())
        outs = sx.run(fn, lambda: dict(self=_isr(scen), order=0, space=space, braket="ket", indices=idx))
        dx.all_raise(ctx, rule, fn, f"precursor: {why}", outs, key=f"precursor guard {why}")


# ------------------------------------------------------------------ spaces, amplitude vector

def r04b(ctx):
    rule = "R04b"
    vs = ctx.model.fn(IS + ".validate_space")
    variants = {"pp": ["ph", "hp"], "ea": ["p"], "ip": ["h"], "dip": ["hh"], "dea": ["pp"]}
    init = ctx.model.fn(IS + ".__init__")
    for var, mins in variants.items():
        scen = dx.Scenario()
        sx = dx.make_sx(ctx, "__init__", scen, isinstance_hook=lambda s, o, c: True)
        me = Obj(IS, "self")
        outs = sx.run(init, lambda: dict(self=me, mp=Obj(dx.GS, "gs"), variant=var))
        got = me.attrs.get("min_space")
        ctx.check(rule, init, len(outs) == 1 and outs[0].kind == "return" and got == mins and me.attrs.get("variant") == var,
                  f"{var}: minimal spaces {mins}", f"IntermediateStates(variant='{var}') sets min_space={got}, variant={me.attrs.get('variant')}",
                  key=f"variants {var}")
    scen = dx.Scenario()
    sx = dx.make_sx(ctx, "__init__", scen, isinstance_hook=lambda s, o, c: True)
    outs = sx.run(init, lambda: dict(self=Obj(IS, "self"), mp=Obj(dx.GS, "gs"), variant="xx"))
    dx.all_raise(ctx, rule, init, "unknown ADC variant", outs, key="variants guard")
    spaces = ["p" * a + "h" * b for a in range(4) for b in range(4) if a + b] + ["hp", "hhp", "php"]
    for s in spaces:
        # the lower spaces of s, observed through the public validate_space: with min_space = [x] the answer is
        # "x is s or one of the lower spaces of s" (the private helper that generates them is evaluated through)
        probes = sorted({"p" * a + "h" * b for a in range(s.count("p") + 1) for b in range(s.count("h") + 1) if a + b}
                        | {s, s[::-1], "hp", "ph"})
        seen = set()
        for x in probes:
            scen = dx.Scenario()
            me = _isr(scen)
            me.attrs["min_space"] = [x]
            sx = dx.make_sx(ctx, "validate_space", scen)
            outs = sx.run(vs, lambda: dict(self=me, space_str=s))
            val = dx.val(outs[0]) if len(outs) == 1 and outs[0].kind == "return" else None
            if val is not None and not isinstance(val, T) and bool(val):
                seen.add(x)
            elif val is None or isinstance(val, T):
                seen.add(f"?{x}")
        want_set = {x for x in probes if x == s or x in _lower(s)}
        ctx.check(rule, vs, seen == want_set, f"lower spaces of {s}: {_lower(s)}",
                  f"validate_space('{s}') accepts exactly the minimal spaces {sorted(seen)}, expected {sorted(want_set)} "
                  f"(the space itself and its lower spaces {_lower(s)})", key=f"lower {s}")
        for var, mins in variants.items():
            scen = dx.Scenario(variant=var)
            sx = dx.make_sx(ctx, "validate_space", scen)
            outs = sx.run(vs, lambda: dict(self=_isr(scen), space_str=s))
            val = dx.val(outs[0]) if len(outs) == 1 and outs[0].kind == "return" else None
            want = s in mins or any(x in mins for x in _lower(s))
            ctx.check(rule, vs, val is not None and not isinstance(val, T) and bool(val) == want, f"{var}: {s} valid == {want}",
                      f"validate_space('{s}') for {var}-ADC gives {val}, expected {want}", key=f"valid {var} {s}")


def amplitude_vector(ctx):
    rule = "R04c"
    fn = ctx.model.fn(IS + ".amplitude_vector")
    for lr in ("left", "right"):
        for idx in ("ia", "ijab", "ija"):
            scen = dx.Scenario()
            sx = dx.make_sx(ctx, "amplitude_vector", scen, hooks=_model_get_indices())
            outs = sx.run(fn, lambda: dict(self=_isr(scen), indices=idx, lr=lr))
            v = dx.val(outs[0]) if len(outs) == 1 and outs[0].kind == "return" else None
            ok = isinstance(v, T) and v.op == "call" and v.args[0] == "Amplitude"
            if ok:
                a = args_of(v)
                vals = list(a.values())
                name, up, lo = vals[0], vals[1], vals[2]
                ok = isinstance(name, T) and name.op == "attr" and name.args[1] == f"{lr}_adc_amplitude" and \
                    tuple(up) == tuple(sym(c) for c in idx if "a" <= c <= "h") and tuple(lo) == tuple(sym(c) for c in idx if "i" <= c <= "o")
            ctx.check(rule, fn, ok, f"{lr} amplitude vector on ({idx}): configured name, virtual indices upper, occupied lower",
                      f"amplitude_vector('{idx}', '{lr}') builds {show(v)[:200]}", key=f"amplitude vector {lr} {idx}")


def lower_layers(ctx):
    """Everything the secular matrix and the properties are built from (run by C03/C05 as well)."""
    from . import c02
    if ctx.want("R04c"):
        overlaps(ctx)
        intermediate_state(ctx)
        precursor(ctx)
        amplitude_vector(ctx)
    if ctx.want("R04a"):
        s_root(ctx)
    if ctx.want("R04b"):
        r04b(ctx)
    if ctx.want("R02c"):
        taylor(ctx)
    if hasattr(c02, "ground_state_layer"):
        c02.ground_state_layer(ctx)


def run(ctx):
    lower_layers(ctx)
