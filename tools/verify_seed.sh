#!/bin/sh
# tools/verify_seed.sh <worktree> <k> : confirms a seeded change in its scratch worktree
wt="$1"; k="$2"; d="$wt/seed_out/$k"
cd "$wt" || exit 2
git checkout -q -- . || exit 2
demo_clean=$(PYTHONPATH="$wt" /venv/bin/python "$d/demo.py" >/dev/null 2>&1; echo $?)
git apply "$d/patch.diff" || { echo "{\"apply\": false}" > "$d/verify.json"; exit 1; }
demo_patched=$(PYTHONPATH="$wt" /venv/bin/python "$d/demo.py" >/dev/null 2>&1; echo $?)
/venv/bin/python -m pytest -q -p no:cacheprovider --timeout=900 -n 4 > "$d/tests.log" 2>&1
tests=$?
summary=$(tail -1 "$d/tests.log")
git checkout -q -- .
echo "{\"apply\": true, \"demo_clean_rc\": $demo_clean, \"demo_patched_rc\": $demo_patched, \"tests_rc\": $tests, \"tests_summary\": \"$summary\"}" > "$d/verify.json"
cat "$d/verify.json"
