"""C14 remove_tensor / derivative, decided by evaluating them on a model of the tensor algebra."""
from __future__ import annotations

from fractions import Fraction

from ..model import AnalysisError
from . import talg, tmodel
from .talg import Poly, ix, ModelError

EXPLANATION = (
    "simplify.remove_tensor and derivative.derivative are evaluated by the abstract evaluator (sa.symex) on concrete small "
    "expressions over a model of the library's tensor algebra (sa/rules/talg.py, tmodel.py: canonical (anti)symmetric "
    "tensors with bra-ket symmetry, amplitudes, non-symmetric tensors, Kronecker deltas, mutable Expr containers with "
    "assumptions, index permutations, minimize_tensor_indices / get_lowest_avail_indices / get_symbols / simplify / diff as "
    "documented primitives). Nothing depends on local names, statement layout or nested helper names; the entry points "
    "are the public functions and their parameters. For every scenario the returned {block key: expression} is compared "
    "with the closed formula written down independently: remove: B = s h sum_{g in G(D')} chi(g) g(R') with R' the "
    "remainder times delta(old,new) for every replaced target / repeated tensor index after the minimisation "
    "permutations, D' the removed tensor on the minimised indices (class, name, index groups and bra-ket symmetry kept; "
    "checked on the constructor call), s its canonicalisation sign, h = 1/2 iff bra-ket symmetry +-1, 1/sqrt(|G|) iff ADC "
    "amplitude (which must have bra-ket symmetry 0); derivative: sum over occurrences k of e_k D_k^(e_k-1) s_k^(e_k) (1/|G|) "
    "sum_g chi(g) g(R_k) keyed by (space, spin) of the minimised tensor. R14a: prefactor table over tensor class x "
    "bra-ket symmetry x ADC amplitude incl. a minimisation that leaves the groups unsorted (sign moved to the term) and "
    "the rebuilt tensor. R14b: every block expression carries the symmetry of the removed tensor block (g(B) = chi(g) B "
    "checked directly) and, re-contracted with the tensor block, gives kappa times the original term up to renaming of "
    "contracted indices (kappa = |G| h: the documented normalisation; deltas resolved); derivative contracted with a "
    "variation of the tensor's symmetry equals the first-order change. R14c: target and repeated indices on the tensor "
    "(deltas, fresh lowest unused names of the same space and spin, provided target indices extended by the tensor "
    "indices; if an index of the removed tensor still occurs more than once in the remainder - another occurrence or a "
    "power of the tensor, a spectator on the same indices - the Einstein convention would take it for contracted: the "
    "target indices of the block expression are then given explicitly (targets of the term + tensor indices), "
    "contributions with explicit and implicit targets add up in one block; all obligations of such scenarios are "
    "reported under R14c with the key prefix 'implicit targets' (F28); the pool of names that are not available for a new "
    "index holds the indices of the remainder, of the tensor AND every target index of the term, i.e. also the indices of "
    "occurrences removed before that no longer occur in the remainder: scenarios with explicit target indices, 2-3 "
    "occurrences and a trace / a target index on a later occurrence, with spin, exponent, bra-ket symmetry; besides formula "
    "and round trip the index conservation law |targets(B)| = |targets(term)| + sum of the ranks of the removed blocks is "
    "decided for every scenario with explicit targets (key prefix 'fresh names', F57)). R14d: exponents (lowered one by one, recursion until none is left, exponents < 1 refused; derivative "
    "e x^(e-1) with the base re-inserted). R14e: several occurrences (sorted block-key tuples, product rule), several "
    "terms (accumulation per key), terms without the tensor under ('none',), spin block keys, input guards, "
    "assumptions preserved, the input expression unchanged, no mutable Expr shared between keys. "
    "Several occurrences are removed in the order of their (sorted) block names, so that in every contribution the k-th "
    "block of the key owns the k-th group of lowest free indices: the round trip is decided per key over ALL terms of the "
    "expression with the canonical tensor blocks of the key (key prefix 'block order'). The expression is expanded first "
    "(unexpanded polynomial factors are part of the value domain), the input stays as it was, a tensor inside a polynomial "
    "denominator is refused (key prefix 'unexpanded'). derivative: repeated and target indices on the differentiated "
    "tensor get fresh indices and deltas before the minimisation; first-order-change identity also for f_ii, V^ij_ij, "
    "V^ij_ik Z_jk, E_c = 1/2 f^b_c Z_b (key prefix 'lifted indices'). R14f: call history: "
    "derivative / remove_tensor evaluated on input B after input A on one path with shared module-level state "
    "(Symex.run_sequence; A, B differing in target indices, tensor name, spin, bra-ket symmetry, tensor class, exponent, "
    "provided target indices, ADC name) give for both calls exactly the results of the single calls. R08g: the index "
    "primitives the model takes for granted are themselves evaluated from the library source: minimize_tensor_indices on "
    "all index tuples of length <= 3 (targets stay, lowest unused non-target names in order of first appearance, the "
    "returned transpositions reproduce the result), get_lowest_avail_indices on a table of requests, Container.permute "
    "(composition of the transpositions in the given order). Thorough tier: the table tensor class x bra-ket symmetry x "
    "group sizes (0..3 upper/lower) x spaces, with and without reserved target names, for both functions.")
ASSUMPTIONS = [
    "the vocabulary (Expr/Term/Obj containers incl. in-place operators of Expr, tensor classes and their canonical "
    "form, KroneckerDelta, Term.symmetry = all index permutations within (space, spin) classes mapping the term onto "
    "+-itself, get_symbols, simplify = value preserving, sympy diff/subs/Pow/sqrt/Rational) behaves as modelled in "
    "sa/rules/talg.py and tmodel.py; minimize_tensor_indices, get_lowest_avail_indices and Container.permute are "
    "checked against the model from source (R08g)",
    "unsorted index groups after the minimisation do not occur with the library's minimize_tensor_indices once target "
    "indices have been replaced on the tensor; the sign clause is decided under the weaker contract 'some renaming by "
    "transpositions onto low non-target names' (scenario 'unsorted groups')",
    "bounded: the listed scenarios (tensors of rank <= 6, at most three occurrences, exponents <= 3)",
    "the re-contraction (round trip) is decided per block key over all terms of the expression that hold these blocks "
    "(B_key x D'_1 x ... x D'_n = kappa_1 ... kappa_n x sum of these terms), provided all terms have the same target "
    "indices; polynomial denominators only as far as the tensor is refused inside them (simplify on polynomials is not "
    "modelled)",
    "among occurrences in the same block the one removed first is taken from the model's object order (canonical order "
    "of factors)",
]

RM = "simplify:remove_tensor"
DV = "derivative:derivative"


# ---------------------------------------------------------------------------
# building scenario values

def _tokens(s):
    out, cur = [], ""
    for ch in s:
        if ch.isdigit():
            cur += ch
        else:
            if cur:
                out.append(cur)
            cur = ch
    if cur:
        out.append(cur)
    return out


def _idx(names, spins=None):
    ns = _tokens(names)
    spins = spins or "n" * len(ns)
    assert len(spins) == len(ns), (names, spins)
    return [ix(n, "" if s == "n" else s) for n, s in zip(ns, spins)]


def A(name, up, lo, bks=0, cls="AntiSymmetricTensor", sp=None):
    nu = len(_tokens(up))
    u = _idx(up, sp[:nu] if sp else None)
    l = _idx(lo, sp[nu:] if sp else None)
    s, f = talg.mk_tensor(cls, name, u, l, bks)
    assert s, (name, up, lo)
    return Poly.factor(f, 1, s)


def N(name, idx, sp=None):
    return Poly.factor(("N", name, tuple(_idx(idx, sp))))


def num(c):
    return Poly.num(c)


# ---------------------------------------------------------------------------
# the expected behaviour (written on values of the algebra only)

def _sas(s):
    return talg.space_and_spin(s)


def _targets(m, ptarget):
    tg = ptarget if ptarget is not None else talg.einstein_target(m)
    out = {}
    for s in tg:
        out.setdefault(_sas(s), set()).add(s[0])
    return out


def _block(f):
    idx = talg.factor_idx(f)
    space = "".join(talg.space_of(s[0])[0] for s in idx)
    spin = "".join(s[1] if s[1] else "n" for s in idx)
    return space, spin


def _block_name(f):
    space, spin = _block(f)
    return space if all(ch == "n" for ch in spin) else f"{space}_{spin}"


def _group(dp):
    """The symmetry group of a one-tensor value: [(transpositions, character)] including the identity."""
    return [((), 1)] + talg.symmetry(dp)


def _on_indices(D, I2):
    """The tensor D carrying the indices I2 (positionally, in the library's listing order): (sign, factor)."""
    if D[0] == "A":
        nu, nl = len(D[3]), len(D[4])
        if D[1] == "Amplitude":
            lower, upper = I2[:nl], I2[nl:]
        else:
            upper, lower = I2[:nu], I2[nu:]
        return talg.mk_tensor(D[1], D[2], upper, lower, D[5])
    return talg.mk_nonsym(D[1], I2)


class Removal:
    """What removing one tensor D from the one-term value R has to give."""

    def __init__(self, R, D, targets, ptarget, is_adc, mode):
        (m, c), = R.t.items()
        I = list(talg.factor_idx(D))
        used = {}
        for s, _ in talg.idx_counter(m):
            used.setdefault(_sas(s), set()).add(s[0])
        for s in I:
            used.setdefault(_sas(s), set()).add(s[0])
        # the names of the target indices of the term are taken as well, whether or not they still occur in the remainder
        # (the indices of an occurrence removed before are target indices of the term)
        for key, names in targets.items():
            used.setdefault(key, set()).update(names)
        self.deltas = []
        # target indices sitting on the tensor: fresh index + delta
        on_t = {}
        for s in I:
            if s[0] in targets.get(_sas(s), ()):
                lst = on_t.setdefault(_sas(s), [])
                if s not in lst:
                    lst.append(s)
        for key, lst in on_t.items():
            new = talg.lowest_avail(len(lst), used[key], key[0])
            used[key] |= set(new)
            sub = dict(zip(lst, [ix(n, key[1]) for n in new]))
            self.deltas += list(sub.items())
            I = [sub.get(s, s) for s in I]
        # repeated indices: every further occurrence gets a fresh index + delta
        rep = {}
        for s in dict.fromkeys(I):
            n = I.count(s)
            if n > 1:
                rep.setdefault(_sas(s), []).extend([s] * (n - 1))
        for key, lst in rep.items():
            new = talg.lowest_avail(len(lst), used.get(key, set()), key[0])
            for s, nn in zip(lst, new):
                ns = ix(nn, key[1])
                self.deltas.append((s, ns))
                I[[k for k, x in enumerate(I) if x == s][1]] = ns
        for s, ns in self.deltas:
            v, f = talg.mk_delta(s, ns)
            R = R * (Poly.num(v) if f is None else Poly.factor(f))
        I2, perms = talg.minimize(I, {k: tuple(sorted(v)) for k, v in targets.items()}, mode)
        R = R.permute(perms)
        self.indices = I2
        s, D2 = _on_indices(D, I2)
        self.sign, self.tensor = s, D2
        self.dp = Poly.factor(D2, 1, s) if s else Poly()
        bks = D[5] if D[0] == "A" else None
        self.group = _group(self.dp)
        h = Poly.num(s)
        if bks not in (None, 0):
            h = h * Fraction(1, 2)
        self.error = None
        if is_adc:
            if bks != 0:
                self.error = "ValueError"
            h = h * Poly.sqrt(len(self.group), -1)
        self.h = h
        Rp = R * h
        B = Poly()
        for seq, chi in self.group:
            B = B + Rp.permute(seq) * chi
        self.value = B
        # target indices of the block expression: the term's targets and the tensor indices.  They are given explicitly if
        # they were given for the input, or if the Einstein convention cannot see them: a tensor index that still occurs
        # more than once in the remainder (another occurrence / power of the tensor, a spectator on the same indices)
        # would be taken for a contracted index
        (m2, _), = R.t.items()
        cnt = dict(talg.idx_counter(m2))
        self.needs_explicit = ptarget is None and any(cnt.get(s_, 0) >= 1 for s_ in I2)
        if ptarget is not None:
            self.ptarget = tuple(sorted(set(ptarget) | set(I2), key=talg.ix_key))
        elif self.needs_explicit:
            self.ptarget = tuple(sorted(set(talg.einstein_target(m2)) | set(I2), key=talg.ix_key))
        else:
            self.ptarget = None
        # kappa: B contracted with D' over all index values = kappa * (R D)
        self.kappa = h * Poly.num(len(self.group)) * Poly.num(s)


class Expected(Exception):
    """The reference behaviour is an exception of this class name."""


def _accumulate(out, key, contrib, pt):
    """Contributions to one block: explicit target indices win over the Einstein convention (they describe the same
    indices); two different explicit sets cannot be added."""
    if key not in out:
        out[key] = (contrib, pt)
        return
    have = out[key][1]
    if have != pt and have is not None and pt is not None:
        raise Expected("TypeError")
    out[key] = (out[key][0] + contrib, have if have is not None else pt)


def ref_process(term, ptarget, t_name, adc, mode, trace=None):
    if term.is_zero():
        return {("none",): (term, ptarget)}
    (m, c), = term.t.items()
    for f, e in m:
        if f[0] == "P" and any(talg.factor_name(t) == t_name for t in Poly.factor(f).tensors_inside()):
            raise Expected("NotImplementedError")      # the tensor inside a polynomial that cannot be expanded
    occ = [(f, e) for f, e in m if talg.factor_name(f) == t_name]
    if not occ:
        return {("none",): (term, ptarget)}
    # the blocks of the key are sorted: the occurrences are removed in that order, so that the i-th block of the key
    # owns the i-th group of indices of the block expression in every contribution
    occ.sort(key=lambda fe: _block_name(fe[0]))
    rest = Poly({tuple(x for x in m if talg.factor_name(x[0]) != t_name): c})
    targets = _targets(m, ptarget)
    for f, e in occ[1:]:
        rest = rest * Poly.factor(f, e)
    D, e = occ[0]
    if e > 1:
        rest = rest * Poly.factor(D, e - 1)
    elif e < 1:
        raise Expected("NotImplementedError")
    if len(rest.t) != 1:
        raise Expected("AssertionError")
    rm = Removal(rest, D, targets, ptarget, t_name in adc, mode)
    if rm.error:
        raise Expected(rm.error)
    if trace is not None:
        trace.append((term, rest, D, rm))
    block = _block_name(D)
    if len(occ) == 1 and e == 1:
        return {(block,): (rm.value, rm.ptarget)}
    out = {}
    for t in (rm.value.terms() or [Poly()]):        # the zero expression has one term
        for blocks, (contrib, pt) in ref_process(t, rm.ptarget, t_name, adc, mode, trace).items():
            _accumulate(out, tuple(sorted([block] + list(blocks))), contrib, pt)
    return out


def ref_remove_tensor(expr, ptarget, t_name, adc, mode, trace=None):
    expr = expr.expand()            # a tensor inside a polynomial factor is found as well
    out = {}
    for t in (expr.terms() or [Poly()]):
        for key, (contrib, pt) in ref_process(t, ptarget, t_name, adc, mode, trace).items():
            _accumulate(out, key, contrib, pt)
    return out


def _lift(f, m, targets):
    """Target indices and all but the first occurrence of a repeated index on the tensor f get fresh indices (lowest
    unused names of the same space and spin, position by position): (sign, tensor on the new indices, [(old, new)])."""
    I = list(talg.factor_idx(f))
    used = {}
    for s_, _ in talg.idx_counter(m):
        used.setdefault(_sas(s_), set()).add(s_[0])
    for key, names in targets.items():
        used.setdefault(key, set()).update(names)
    deltas, seen = [], set()
    for pos, s_ in enumerate(I):
        key = _sas(s_)
        if s_[0] not in targets.get(key, ()) and s_ not in seen:
            seen.add(s_)
            continue
        name = talg.lowest_avail(1, used[key], key[0])[0]
        used[key].add(name)
        ns = ix(name, s_[1])
        deltas.append((s_, ns))
        I[pos] = ns
    if not deltas:
        return 1, f, deltas
    sgn, f1 = _on_indices(f, I)
    return sgn, f1, deltas


def ref_derivative(expr, ptarget, t_name, trace=None):
    out = {}
    expr = expr.expand()
    for term in expr.terms():
        (m, c), = term.t.items()
        occ = [(f, e) for f, e in m if talg.factor_name(f) == t_name]
        rest = Poly({tuple(x for x in m if talg.factor_name(x[0]) != t_name): c})
        targets = {k: tuple(sorted(v)) for k, v in _targets(m, ptarget).items()}
        for k, (f, e) in enumerate(occ):
            R = rest
            for j, (g, eg) in enumerate(occ):
                if j != k:
                    R = R * Poly.factor(g, eg)
            # the derivative is taken with respect to an arbitrary element of the block: target and repeated indices on
            # the tensor are replaced by fresh indices and tied to the old ones by deltas (f_ii -> delta_ij f_ij)
            s1, f1, deltas = _lift(f, m, targets)
            if not s1:
                raise Expected("ModelLimit")
            for old_s, new_s in deltas:
                v, df = talg.mk_delta(old_s, new_s)
                R = R * (Poly.num(v) if df is None else Poly.factor(df))
            I2, perms = talg.minimize(talg.factor_idx(f1), targets)
            R = R.permute(perms)
            if R.is_zero():
                raise Expected("RuntimeError")
            d = Poly.factor(f1).permute(perms)
            (dm, s), = d.t.items()
            s = s * s1
            f2 = dm[0][0]
            # dE/dD = e D^(e-1) R transforms like D^e: the characters are those of the power
            grp = _group(Poly.factor(f2, e))
            R = R * Fraction(1, len(grp)) * (s ** e)
            sym = Poly()
            for seq, chi in grp:
                sym = sym + R.permute(seq) * chi
            contrib = sym * Poly.factor(f2, e - 1) * e
            key = _block(f2)
            out[key] = out.get(key, Poly()) + contrib
            if trace is not None:
                trace.append((term, k, f, e, f2, s))
    return {k: (v, ptarget) for k, v in out.items()}


# ---------------------------------------------------------------------------
# scenarios

class Sc:
    def __init__(self, sid, rule, what, expr, t, target=None, adc=("X", "Y"), mode="lowest", args=None, roundtrip=True,
                 tag=None):
        self.id, self.rule, self.what, self.expr, self.t = sid, rule, what, expr, t
        # tag: scenarios of one defect class - all their violations are reported under one rule with the tag as key prefix
        self.tag = tag
        self.target = None if target is None else tuple(sorted(_idx(*target) if isinstance(target, tuple) else _idx(target),
                                                                key=talg.ix_key))
        self.adc, self.mode, self.args, self.roundtrip = adc, mode, args, roundtrip


def remove_scenarios():
    AS, SY, AM = "AntiSymmetricTensor", "SymmetricTensor", "Amplitude"
    S = []
    a = S.append
    # R14a: prefactor table and the rebuilt tensor
    a(Sc("antisym", "R14a", "antisymmetric tensor without bra-ket symmetry", num(3) * A("d", "kl", "cd") * N("x", "klcd"), "d"))
    a(Sc("bks+ diagonal", "R14a", "bra-ket symmetric tensor, diagonal block", A("V", "kl", "mn", 1) * N("x", "klmn"), "V"))
    a(Sc("bks+ offdiag", "R14a", "bra-ket symmetric tensor, off-diagonal block", num(2) * A("f", "j", "b", 1) * N("x", "jb"), "f"))
    a(Sc("bks-", "R14a", "bra-ket antisymmetric tensor", A("g", "j", "k", -1) * N("x", "jk"), "g"))
    a(Sc("symtensor", "R14a", "SymmetricTensor without bra-ket symmetry", A("s", "kl", "cd", 0, SY) * N("x", "klcd"), "s"))
    a(Sc("symtensor bks+", "R14a", "SymmetricTensor with bra-ket symmetry", A("s", "kl", "mn", 1, SY) * N("x", "klmn"), "s"))
    a(Sc("nonsym", "R14a", "NonSymmetricTensor", num(-2) * N("z", "kcl") * N("x", "klc"), "z"))
    a(Sc("adc pphh", "R14a", "ADC amplitude Y^cd_kl", A("Y", "cd", "kl", 0, AM) * N("x", "klcd"), "Y"))
    a(Sc("adc 2h1p", "R14a", "ADC amplitude Y^c_kl (more lower than upper indices)", A("Y", "c", "kl", 0, AM) * N("x", "klc"), "Y"))
    a(Sc("adc 2p1h", "R14a", "ADC amplitude X^cd_k (more upper than lower indices)", A("X", "cd", "k", 0, AM) * N("x", "kcd"), "X"))
    a(Sc("adc 1h", "R14a", "ADC amplitude Y_k without upper indices", A("Y", "", "k", 0, AM) * N("x", "k"), "Y"))
    a(Sc("adc 1p", "R14a", "ADC amplitude Y^c without lower indices", A("Y", "c", "", 0, AM) * N("x", "c"), "Y"))
    a(Sc("adc ph", "R14a", "ADC amplitude X^c_k", A("X", "c", "k", 0, AM) * N("x", "kc"), "X"))
    a(Sc("amplitude t", "R14a", "Amplitude that is no ADC amplitude", A("t2", "cd", "kl", 0, AM) * N("x", "klcd"), "t2"))
    a(Sc("adc bks", "R14a", "ADC amplitude with bra-ket symmetry is refused", A("Y", "k", "l", 1) * N("x", "kl"), "Y"))
    a(Sc("adc name only", "R14a", "1/sqrt only for the ADC amplitude names", A("Y", "cd", "kl", 0, AM) * N("x", "klcd"), "Y", adc=()))
    a(Sc("unsorted groups", "R14a", "minimisation leaving the index groups unsorted: sign moved to the term",
         A("d", "kl", "cd") * N("x", "klcd"), "d", mode="reversed"))
    a(Sc("unsorted groups bks-", "R14a", "minimisation forcing a bra-ket swap of an antisymmetric tensor",
         A("g", "j", "k", -1) * N("x", "jk"), "g", mode="reversed"))
    a(Sc("uneven groups", "R14a", "antisymmetric tensor with two upper and one lower index", A("d", "kl", "c") * N("x", "klc"), "d"))
    # R14b: larger groups
    a(Sc("triples", "R14b", "rank-6 tensor, |G| = 36", A("d", "klm", "cde") * N("x", "klmcde"), "d"))
    a(Sc("mixed groups", "R14b", "occupied and virtual index in one group", A("d", "kc", "ld") * N("x", "kcld"), "d"))
    # R14c: target and repeated indices on the tensor
    a(Sc("targets on tensor", "R14c", "f_bc Y^ac_ij with targets i, j, a, b", A("f", "b", "c") * A("Y", "ac", "ij", 0, AM), "Y"))
    a(Sc("target names excluded", "R14c", "target names stay reserved", A("d", "k", "c") * N("x", "kcia"), "d"))
    a(Sc("swap collision", "R14c", "a minimal name is in use elsewhere in the term", A("d", "k", "c") * N("x", "kc") * N("y", "ij") * N("u", "ij"), "d"))
    a(Sc("repeated nonsym", "R14c", "z_kkkl: an index three times", N("z", "kkkl") * N("w", "l"), "z"))
    a(Sc("trace", "R14c", "d^k_k with a bare number as remainder", num(2) * A("d", "k", "k"), "d"))
    a(Sc("repeated pair", "R14c", "V^kl_kl", A("V", "kl", "kl") * num(5), "V"))
    a(Sc("target twice", "R14c", "a target index twice on the tensor", N("z", "iic") * N("w", "c"), "z", target="i"))
    a(Sc("spin targets", "R14c", "spin-labelled target index on the tensor", N("u", "c", "a") * A("d", "c", "i", 0, sp="aa"), "d"))
    a(Sc("spin repeated", "R14c", "spin-labelled repeated index", N("z", "kk", "bb") * num(3), "z"))
    a(Sc("spin mixed", "R14c", "alpha and beta target indices", A("d", "ij", "ab", 0, sp="abab") * N("w", "jb", "bb"), "d"))
    a(Sc("provided targets", "R14c", "target indices given explicitly", A("d", "k", "c") * N("x", "kcia"), "d", target="ia"))
    a(Sc("provided targets on tensor", "R14c", "explicit target indices on the tensor", A("d", "i", "c") * N("x", "ca"), "d", target="ia"))
    # R14d: exponents
    a(Sc("square", "R14d", "5 (d^k_c)^2", num(5) * A("d", "k", "c") ** 2, "d"))
    a(Sc("cube", "R14d", "(f^k_c)^3 with bra-ket symmetry", A("f", "k", "c", 1) ** 3, "f"))
    a(Sc("square and single", "R14d", "(d^k_c)^2 d^l_e w_le", A("d", "k", "c") ** 2 * A("d", "l", "e") * N("w", "le"), "d"))
    a(Sc("antisym square", "R14d", "-1/4 (V^kl_cd)^2", num(Fraction(-1, 4)) * A("V", "kl", "cd") ** 2, "V"))
    a(Sc("antisym square spectator", "R14d", "(V^ij_ab)^2 w_ijab", A("V", "ij", "ab") ** 2 * N("w", "ijab"), "V"))
    a(Sc("antisym square denominators", "R14d", "-1/4 (V^ij_ab)^2 D^ij_ab with a symmetric D", num(Fraction(-1, 4)) * A("V", "ij", "ab") ** 2
         * A("D", "ij", "ab", 0, SY), "V"))
    a(Sc("antisym fourth", "R14d", "(t^kl_cd)^4 u_m p_m", A("t", "kl", "cd") ** 4 * N("u", "m") * N("p", "m"), "t"))
    a(Sc("two spectators", "R14c", "V^ij_ab D^ij_ab w_ijab: one occurrence, two spectators on the tensor indices",
         A("V", "ij", "ab") * A("D", "ij", "ab", 0, SY) * N("w", "ijab"), "V"))
    a(Sc("mixed terms", "R14c", "V D w + V x: explicit and implicit target indices in one block",
         A("V", "ij", "ab") * A("D", "ij", "ab", 0, SY) * N("w", "ijab") + A("V", "ij", "ab") * N("x", "ijab"), "V"))
    a(Sc("clashing explicit targets", "R14c", "V D w y_k + V D w y_l: two different explicit target sets in one block are refused",
         A("V", "ij", "ab") * A("D", "ij", "ab", 0, SY) * N("w", "ijab") * (N("y", "k") + N("y", "l")), "V"))
    a(Sc("two occurrences spectator", "R14c", "V^ij_ab V^ij_cd w_ijabcd", A("V", "ij", "ab") * A("V", "ij", "cd") * N("w", "ijabcd"), "V"))
    a(Sc("square spectator provided", "R14c", "(V^kl_cd)^2 w_klcdia with explicit targets i, a",
         A("V", "kl", "cd") ** 2 * N("w", "klcdia"), "V", target="ia"))
    a(Sc("inverse", "R14d", "exponent -1 refused", A("d", "k", "c") ** -1 * N("w", "kc"), "d", roundtrip=False))
    a(Sc("other power", "R14d", "powers of other tensors stay", A("d", "k", "c") * N("w", "kc") ** 2, "d"))
    # R14e: occurrences, terms, keys, guards
    a(Sc("two symmetric", "R14e", "f_ij f_jk z_ki with bra-ket symmetric f", A("f", "i", "j", 1) * A("f", "j", "k", 1) * N("z", "ki"), "f"))
    a(Sc("two antisym", "R14e", "V^ij_ab V^kl_ab w_ijkl", A("V", "ij", "ab") * A("V", "kl", "ab") * N("w", "ijkl"), "V"))
    a(Sc("two blocks", "R14e", "d_kc d_lm x_kclm: blocks of different spaces", A("d", "k", "c") * A("d", "l", "m") * N("x", "kclm"), "d", tag="block order"))
    a(Sc("three", "R14e", "three occurrences", N("z", "k") * N("z", "l") * N("z", "m") * N("x", "klm"), "z"))
    a(Sc("terms", "R14e", "several terms: same block twice, another block, a term without the tensor",
         A("d", "k", "c") * N("x", "kc") + num(2) * A("d", "l", "e") * N("y", "le") + A("d", "k", "l") * N("u", "kl")
         + num(7) * N("q", "mn") * N("p", "mn"), "d"))
    # occurrences in different blocks: the i-th block of the (sorted) key owns the i-th index group in every contribution
    a(Sc("block order terms", "R14e", "f_ij f_ka Z_ijka + f_ia f_jk U_iajk: the blocks occur in different orders",
         A("f", "i", "j") * A("f", "k", "a") * N("Z", "ijka") + A("f", "i", "a") * A("f", "j", "k") * N("U", "iajk"), "f", tag="block order"))
    a(Sc("block order recursion", "R14e", "f^j_a (f^j_k)^2 Z_ka with a bra-ket symmetric f",
         A("f", "j", "a", 1) * A("f", "j", "k", 1) ** 2 * N("Z", "ka"), "f", tag="block order"))
    a(Sc("block order three", "R14e", "d_kc d_lm d_ef x_kclmef + d_ef d_kl d_mc y_efklmc: three blocks",
         A("d", "k", "c") * A("d", "l", "m") * A("d", "e", "f") * N("x", "kclmef")
         + A("d", "e", "f") * A("d", "k", "l") * A("d", "m", "c") * N("y", "efklmc"), "d", tag="block order"))
    a(Sc("block order spin", "R14e", "spin blocks oo_ab and oo_ba in both orders",
         A("d", "i", "j", 0, sp="ab") * A("d", "k", "l", 0, sp="ba") * N("x", "ijkl", "abba")
         + A("d", "k", "l", 0, sp="ba") * A("d", "i", "j", 0, sp="ab") * N("y", "klij", "baab") * num(2), "d", tag="block order"))
    # F57: explicit target indices, several occurrences, one of them with a repeated / target index: the new index must not
    # take the name of an index of an occurrence removed before (a target index that no longer occurs in the remainder)
    FN = "fresh names"
    a(Sc("fresh trace", "R14c", "A_c d^i_a d^b_b with explicit target c", N("A", "c") * A("d", "i", "a") * A("d", "b", "b"), "d",
         target="c", tag=FN))
    a(Sc("fresh nonsym", "R14c", "T_j T_kk with an explicitly empty target list", N("T", "j") * N("T", "kk"), "T", target="", tag=FN))
    a(Sc("fresh target on tensor", "R14c", "x_c d^i_a d^c_b with explicit target c: a target index on the second occurrence",
         N("x", "c") * A("d", "i", "a") * A("d", "c", "b"), "d", target="c", tag=FN))
    a(Sc("fresh three", "R14c", "d^i_a d^j_k d^b_b: three occurrences, explicitly no target", A("d", "i", "a") * A("d", "j", "k")
         * A("d", "b", "b"), "d", target="", tag=FN))
    a(Sc("fresh spin", "R14c", "spin-labelled A_c d^i_a d^b_b with explicit target c", N("A", "c", "a") * A("d", "i", "a", 0, sp="aa")
         * A("d", "b", "b", 0, sp="aa"), "d", target=("c", "a"), tag=FN))
    a(Sc("fresh square", "R14c", "T_j (T_kk)^2 w_c with explicit target c on a spectator", N("T", "j") * N("T", "kk") ** 2 * N("w", "c"),
         "T", target="c", tag=FN))
    a(Sc("fresh bks", "R14c", "f^i_a f^b_b w_c with a bra-ket symmetric f and explicit target c", A("f", "i", "a", 1) * A("f", "b", "b", 1)
         * N("w", "c"), "f", target="c", tag=FN))
    # unexpanded polynomial factors
    a(Sc("polynomial factor", "R14e", "(f_ij + 2 f_ji) Z_ij: the tensor inside a polynomial factor",
         Poly.unexpanded(A("f", "i", "j") + num(2) * A("f", "j", "i")) * N("Z", "ij"), "f", tag="unexpanded"))
    a(Sc("polynomial remainder", "R14e", "f_ia (Z_ia + U_ia): a polynomial factor in the remainder",
         A("f", "i", "a") * Poly.unexpanded(N("Z", "ia") + N("U", "ia")), "f", tag="unexpanded"))
    a(Sc("polynomial product", "R14e", "(f_ia + g_ia)(Z_ia + f_ia)", Poly.unexpanded(A("f", "i", "a") + A("g", "i", "a"))
         * Poly.unexpanded(N("Z", "ia") + A("f", "i", "a")), "f", tag="unexpanded"))
    a(Sc("polynomial power", "R14e", "3 (f_ia + Z_ia)^2", num(3) * Poly.unexpanded(A("f", "i", "a") + N("Z", "ia"), 2), "f", tag="unexpanded"))
    a(Sc("polynomial sum", "R14e", "f_ia Z_ia + (f_ij + Z_ij) U_ij: only one term holds a polynomial",
         A("f", "i", "a") * N("Z", "ia") + Poly.unexpanded(A("f", "i", "j") + N("Z", "ij")) * N("U", "ij"), "f", tag="unexpanded"))
    a(Sc("polynomial denominator", "R14e", "Z_ij / (f_ij + 2 f_ji): the tensor in a polynomial denominator is refused",
         N("Z", "ij") * Poly.unexpanded(A("f", "i", "j") + num(2) * A("f", "j", "i"), -1), "f", roundtrip=False, tag="unexpanded"))
    a(Sc("none only", "R14e", "no term contains the tensor", N("q", "mn") * N("p", "mn") + num(2) * N("q", "ia"), "d"))
    a(Sc("spin key", "R14e", "spin block in the key", A("d", "k", "c", 0, sp="ab") * N("x", "kc", "ab"), "d"))
    a(Sc("zero", "R14e", "the zero expression", Poly(), "d"))
    a(Sc("name prefix", "R14e", "tensors are told apart by their exact name", A("d", "k", "c") * A("d2", "k", "c"), "d"))
    return S


def derivative_scenarios():
    AM = "Amplitude"
    S = []
    a = S.append
    a(Sc("antisym", "R14b", "3 d^kl_cd x_klcd", num(3) * A("d", "kl", "cd") * N("x", "klcd"), "d"))
    a(Sc("bks+", "R14b", "bra-ket symmetric V^kl_mn", A("V", "kl", "mn", 1) * N("x", "klmn"), "V"))
    a(Sc("bks-", "R14b", "bra-ket antisymmetric g^j_k", A("g", "j", "k", -1) * N("x", "jk"), "g"))
    a(Sc("nonsym", "R14b", "non-symmetric tensor", N("z", "kcl") * N("x", "klc"), "z"))
    a(Sc("amplitude", "R14b", "amplitude Y^c_kl", A("Y", "c", "kl", 0, AM) * N("x", "klc"), "Y"))
    a(Sc("triples", "R14b", "rank-6 tensor", A("d", "klm", "cde") * N("x", "klmcde"), "d"))
    a(Sc("square", "R14d", "3 (d^k_c)^2", num(3) * A("d", "k", "c") ** 2, "d"))
    a(Sc("cube", "R14d", "(f^kl_cd)^3", A("f", "kl", "cd") ** 3 * num(2), "f"))
    a(Sc("square and single", "R14d", "(z_k)^2 z_l w_l q", N("z", "k") ** 2 * N("z", "l") * N("w", "l"), "z"))
    # even powers of a tensor that is antisymmetric under some permutation: dE/dT = n T^(n-1) R transforms like T^n, the
    # re-inserted T^(n-1) must not be permuted on its own
    q = Fraction(-1, 4)
    a(Sc("antisym square", "R14d", "-1/4 (V^kl_cd)^2", num(q) * A("V", "kl", "cd") ** 2, "V"))
    a(Sc("antisym square spectator", "R14d", "-1/4 (V^ij_ab)^2 w_ijab (spectator on the tensor indices)",
         num(q) * A("V", "ij", "ab") ** 2 * N("w", "ijab"), "V"))
    a(Sc("antisym square separate", "R14d", "(V^kl_cd)^2 u_mn p_mn (spectator with its own indices)",
         A("V", "kl", "cd") ** 2 * N("u", "mn") * N("p", "mn"), "V"))
    a(Sc("antisym square target", "R14d", "(V^kl_cd)^2 u_ia (spectator with target indices)", A("V", "kl", "cd") ** 2 * N("u", "ia"), "V"))
    a(Sc("antisym fourth", "R14d", "3 (t^kl_cd)^4", num(3) * A("t", "kl", "cd") ** 4, "t"))
    a(Sc("antisym fourth spectator", "R14d", "(t^ij_ab)^4 w_abji", A("t", "ij", "ab") ** 4 * N("w", "abji"), "t"))
    a(Sc("amplitude square", "R14d", "(t^cd_kl)^2 as Amplitude times a spectator", A("t2", "cd", "kl", 0, AM) ** 2 * N("u", "m") * N("p", "m"), "t2"))
    a(Sc("eri square", "R14d", "bra-ket symmetric (V^kl_cd)^2", num(q) * A("V", "kl", "cd", 1) ** 2, "V"))
    a(Sc("antisym square and single", "R14d", "(V^kl_cd)^2 V^mn_ef w_mnef", A("V", "kl", "cd") ** 2 * A("V", "mn", "ef") * N("w", "mnef"), "V"))
    a(Sc("occ pair square", "R14d", "(d^kl_c)^2 with one antisymmetric pair", A("d", "kl", "c") ** 2 * num(2), "d"))
    a(Sc("two chained", "R14e", "t^k_l t^l_m x_mk: product rule with shared non-minimal indices", A("t", "k", "l") * A("t", "l", "m") * N("x", "mk"), "t"))
    a(Sc("two antisym", "R14e", "V^kl_ab V^ij_ab w_klij", A("V", "kl", "ab") * A("V", "ij", "ab") * N("w", "klij"), "V"))
    a(Sc("three", "R14e", "three occurrences", N("z", "k") * N("z", "l") * N("z", "m") * N("x", "klm"), "z"))
    a(Sc("terms", "R14e", "several terms, same block twice, a term without the tensor",
         A("d", "k", "c") * N("x", "kc") + num(2) * A("d", "l", "e") * N("y", "le") + A("d", "k", "l") * N("u", "kl")
         + num(7) * N("q", "mn") * N("p", "mn"), "d"))
    a(Sc("none", "R14e", "no occurrence: empty result", N("q", "mn") * N("p", "mn"), "d"))
    a(Sc("target sign", "R14e", "a target index on the tensor", A("d", "jk", "ab") * N("x", "kab"), "d", tag="lifted indices"))
    # repeated and target indices on the differentiated tensor: the derivative is taken w.r.t. an arbitrary element of the
    # block, the indices are tied to the old ones by deltas
    a(Sc("trace", "R14c", "sum_i f_ii", A("f", "i", "i"), "f", tag="lifted indices"))
    a(Sc("hf energy f", "R14c", "f_ii - 1/2 V^ij_ij w.r.t. f", A("f", "i", "i") - num(Fraction(1, 2)) * A("V", "ij", "ij"), "f", tag="lifted indices"))
    a(Sc("hf energy V", "R14c", "f_ii - 1/2 V^ij_ij w.r.t. V", A("f", "i", "i") - num(Fraction(1, 2)) * A("V", "ij", "ij"), "V", tag="lifted indices"))
    a(Sc("partial trace", "R14c", "V^ij_ik Z_jk", A("V", "ij", "ik") * N("Z", "jk"), "V", tag="lifted indices"))
    a(Sc("target bra-ket", "R14c", "E_c = 1/2 f^b_c Z_b with a bra-ket symmetric f", num(Fraction(1, 2)) * A("f", "b", "c", 1) * N("Z", "b"), "f", tag="lifted indices"))
    a(Sc("target both", "R14c", "f_ia w with both tensor indices as target indices", A("f", "i", "a") * N("w", "k") * N("u", "k"), "f", tag="lifted indices"))
    a(Sc("repeated nonsym", "R14c", "z_kkkl w_l", N("z", "kkkl") * N("w", "l"), "z", tag="lifted indices"))
    a(Sc("trace square", "R14c", "(f_ii)^2 w_i", A("f", "i", "i") ** 2 * N("w", "i"), "f", tag="lifted indices"))
    a(Sc("trace spin", "R14c", "spin-labelled f_ii", A("f", "i", "i", 0, sp="aa") * num(2), "f", tag="lifted indices"))
    a(Sc("target provided", "R14c", "explicit target indices on the tensor", A("d", "i", "c") * N("x", "ca"), "d", target="ia", tag="lifted indices"))
    a(Sc("trace amplitude", "R14c", "amplitude t^a_i next to the target i", A("t1", "a", "i", 0, AM) * N("x", "a"), "t1", tag="lifted indices"))
    a(Sc("polynomial factor", "R14e", "(f_ij + 2 f_ji) Z_ij", Poly.unexpanded(A("f", "i", "j") + num(2) * A("f", "j", "i")) * N("Z", "ij"), "f"))
    a(Sc("target names", "R14e", "target names reserved", A("d", "k", "c") * N("x", "kcia"), "d"))
    a(Sc("spin key", "R14e", "spin block in the key", A("d", "k", "c", 0, sp="ab") * N("x", "kc", "ab"), "d"))
    a(Sc("provided targets", "R14e", "assumptions carried over", A("d", "k", "c") * N("x", "kcia"), "d", target="ia"))
    a(Sc("swap collision", "R14e", "a minimal name is in use elsewhere", A("d", "k", "c") * N("x", "kc") * N("y", "ij") * N("u", "ij"), "d"))
    return S


# ---------------------------------------------------------------------------
# evaluation

def _world(sc):
    w = tmodel.World(adc_names=sc.adc, minimize_mode=sc.mode)
    return w, tmodel.Binding(w)


def _assume(w, sc):
    return w.assumptions(target=None if sc.target is None else list(sc.target), sym_tensors=("zz_marker",))


def _evaluate(ctx, fnref, sc, make_args):
    """(kind, value | exception name, world); kind 'diverges' if the evaluation does not terminate within the bounds."""
    w, b = _world(sc)
    sx = b.make(ctx.model, f"{fnref.split(':')[1]} [{sc.id}]", max_depth=24)
    try:
        outs = sx.run(fnref, lambda: make_args(w))
    except AnalysisError as e:
        if "depth exceeded" in str(e) or "recursion bound" in str(e) or "step bound" in str(e) or "loop bound" in str(e):
            return "diverges", str(e), w
        raise
    if len(outs) != 1:
        raise AnalysisError(f"C14 [{sc.id}]: {len(outs)} outcomes on a concrete scenario: {outs[:3]}")
    o = outs[0]
    if o.kind == "raise":
        return "raise", o.exc, w
    return "return", o.value, w


def _canonical_blocks(key, protos, targets, is_adc):
    """[(tensor block, kappa)] for the blocks of a key: the k-th block carries the k-th group of the lowest names of its
    (space, spin) classes that are no target names; kappa = |G| h (h = 1/2 with bra-ket symmetry, 1/sqrt|G| for an ADC
    amplitude): contracting the block expression with the block over all index values gives kappa times the term."""
    used = {}
    for s_ in targets:
        used.setdefault(_sas(s_), set()).add(s_[0])
    out = []
    for name in key:
        proto = protos[name]
        I = []
        for s_ in talg.factor_idx(proto):
            u = used.setdefault(_sas(s_), set())
            nm = talg.lowest_avail(1, u, _sas(s_)[0])[0]
            u.add(nm)
            I.append(ix(nm, s_[1]))
        sgn, f = _on_indices(proto, I)
        if sgn != 1:
            return None
        grp = _group(Poly.factor(f))
        kappa = Poly.num(len(grp))
        if f[0] == "A" and f[5] != 0:
            kappa = kappa * Fraction(1, 2)
        if is_adc:
            kappa = kappa * Poly.sqrt(len(grp), -1)
        out.append((f, kappa))
    return out


def _n_occurrences(term: Poly, t_name):
    (m, c), = term.t.items()
    return sum(e for f, e in m if talg.factor_name(f) == t_name)


def _proportional(got: Poly, want: Poly):
    """lambda with got = lambda * want (a one-term scalar polynomial) or None."""
    if got.is_zero() or want.is_zero() or len(got.t) != len(want.t):
        return None
    (m0, c0) = want.monos()[0]
    for m1, c1 in got.t.items():
        # candidate: got term m1 corresponds to want term m0
        d = dict(m1)
        for f, e in m0:
            d[f] = d.get(f, 0) - e
        try:
            k, mm = talg._norm_mono(d)
        except ModelError:
            continue
        if any(f[0] != "S" for f, _ in mm):
            continue
        lam = Poly({mm: k * c1 / c0})
        if want * lam == got:
            return lam
    return None


def _show(p, n=260):
    s = repr(p)
    return s if len(s) <= n else s[:n] + " ..."


def _forced(ctx, force):
    """ctx whose violations are all reported under the rule ``force`` (satisfied obligations keep their rule)."""
    if not force:
        return ctx

    class _Forced:
        def __getattr__(self, a):
            return getattr(ctx, a)

        def bad(self, rule, node, reason, fn=None, key=None):
            return ctx.bad(force, node, reason, fn, key)

        def check(self, rule, node, cond, fact, reason, fn=None, key=None):
            return ctx.check(rule if cond else force, node, cond, fact, reason, fn, key)
    return _Forced()


def _compare(ctx, fn, label, sc, kind, val, want, is_deriv, force=None, tag=""):
    """Compares an evaluated result with the expected {key: (Poly, target)} / Expected exception.  ``force``: every
    violation of this scenario is reported under that rule with ``tag`` in its key (one root cause, one finding)."""
    ctx = _forced(ctx, force)
    rule = sc.rule
    key = f"{label} {tag}{sc.id}"
    prop_rule = "R14b" if is_deriv else "R14a"
    if isinstance(want, Expected):
        ok = kind == "raise" and val == str(want)
        ctx.check(rule, fn, ok, f"{label} [{sc.what}]: {want} raised",
                  f"{label} on {sc.what} ({_show(sc.expr, 120)}): expected {want}, got {kind} {val if kind != 'return' else ''}", key=key)
        return False
    if kind != "return":
        ctx.bad(rule, fn, f"{label} on {sc.what} ({_show(sc.expr, 120)}) "
                + (f"raises {val}" if kind == "raise" else f"does not terminate: {val}")
                + f"; expected the blocks {sorted(want)}", key=key)
        return False
    if not isinstance(val, dict):
        ctx.bad(rule, fn, f"{label} on {sc.what} returns {type(val).__name__}, not a dict", key=key)
        return False
    got = {}
    for k, v in val.items():
        if tmodel.kind(v) != "expr":
            if isinstance(v, int) and v == 0:
                got[k] = (Poly(), None, None)
                continue
            ctx.bad("R14e", fn, f"{label} on {sc.what}: the value under {k} is {v!r}, not an Expr", key=key + " type")
            return False
        got[k] = (v.attrs["val"], v.attrs["assume"], v)
    if set(got) != set(want):
        ctx.bad("R14e" if rule != "R14d" else rule, fn,
                f"{label} on {sc.what} ({_show(sc.expr, 120)}): block keys {sorted(got)} instead of {sorted(want)}", key=key + " keys")
        return False
    ok_all = True
    for k in sorted(want):
        wv, wt = want[k]
        gv, ga, rec = got[k]
        if gv != wv:
            ok_all = False
            lam = _proportional(gv, wv)
            if lam is not None:
                ctx.bad(prop_rule, fn, f"{label} on {sc.what} ({_show(sc.expr, 120)}): block {k} is {_show(lam, 60)} times the "
                        f"expected expression {_show(wv, 200)}", key=key + f" {k} factor")
            else:
                ctx.bad(rule, fn, f"{label} on {sc.what} ({_show(sc.expr, 120)}): block {k} = {_show(gv)}; expected {_show(wv)}",
                        key=key + f" {k} value")
    if ok_all:
        ctx.ok(rule, fn, f"{label} [{sc.what}]: {len(want)} block(s) equal the formula", key=key)
    # assumptions of the returned expressions
    for k in sorted(want):
        gv, ga, rec = got[k]
        if ga is None:
            continue
        wt = want[k][1]
        gt = None if ga["target_idx"] is None else tuple(r.attrs["_ix"] for r in ga["target_idx"])
        okt = gt == wt and ga.get("sym_tensors") == ("zz_marker",)
        ctx.check("R14c" if not is_deriv else "R14e", fn, okt, f"{label} [{sc.what}] {k}: assumptions / target indices of the block expression",
                  f"{label} on {sc.what}: block {k} has target indices {gt} and sym_tensors {ga.get('sym_tensors')}; expected target "
                  f"indices {wt} and the assumptions of the input", key=key + f" {k} assumptions")
    # aliasing: two keys must not share one mutable Expr
    recs = [id(got[k][2]) for k in got if got[k][2] is not None]
    ctx.check("R14e", fn, len(recs) == len(set(recs)), f"{label} [{sc.what}]: one Expr per key",
              f"{label} on {sc.what}: two block keys share one mutable Expr object", key=key + " alias")
    return ok_all


def _input_unchanged(ctx, fn, label, sc, rec, before):
    ctx.check("R14e", fn, rec.attrs["val"] == before, f"{label} [{sc.what}]: the input expression is left as it was",
              f"{label} on {sc.what}: the input expression was changed in place from {_show(before, 120)} to "
              f"{_show(rec.attrs['val'], 120)}", key=f"{label} {sc.id} input")


IMPLICIT = "implicit targets: "
TAG_RULE = {"block order": "R14e", "lifted indices": "R14c", "unexpanded": "R14e", "fresh names": "R14c"}


def check_remove(ctx, scenarios=None, guards=True, label=""):
    fn = ctx.model.fn(RM)
    n = 0
    ctx0 = ctx
    for sc in (remove_scenarios() if scenarios is None else scenarios):
        ctx = ctx0
        holder = {}

        def make(w, sc=sc, holder=holder):
            holder["expr"] = w.expr(sc.expr, _assume(w, sc))
            return dict(expr=holder["expr"], t_name=sc.t)
        kind, val, w = _evaluate(ctx, RM, sc, make)
        trace = []
        try:
            want = ref_remove_tensor(sc.expr, sc.target, sc.t, sc.adc, sc.mode, trace)
        except Expected as e:
            want = e
        n += 1
        # scenarios in which an index of the removed tensor occurs more than once in the remainder: the Einstein convention
        # does not see it as a target index of the block expression.  Whatever goes wrong there is one root cause:
        # reported under R14c with a common key prefix
        implicit = any(t[3].needs_explicit for t in trace)
        force, tag = ("R14c", IMPLICIT) if implicit else (None, "")
        if sc.tag:
            force, tag = TAG_RULE[sc.tag], sc.tag + ": "
        ctx = _forced(ctx0, force)
        same = _compare(ctx0, fn, "remove_tensor", sc, kind, val, want, False, force, tag)
        if kind == "return":
            _input_unchanged(ctx, fn, "remove_tensor", sc, holder["expr"], sc.expr)
        if isinstance(want, Expected) or kind != "return" or not isinstance(val, dict):
            continue
        # R14c (index conservation, F57): with explicit target indices every index position of every removed occurrence owns
        # one target index of the block expression that is none of the term's target indices and none of another position:
        # |targets(B)| = |targets(term)| + sum of the ranks of the blocks of the key
        if sc.target is not None:
            for k, v in sorted(val.items()):
                if k == ("none",) or tmodel.kind(v) != "expr" or v.attrs["assume"]["target_idx"] is None:
                    continue
                gt = [r.attrs["_ix"] for r in v.attrs["assume"]["target_idx"]]
                rank = sum(len(b.split("_")[0]) for b in k)
                okc = len(set(gt)) == len(set(sc.target)) + rank and set(sc.target) <= set(gt)
                ctx.check("R14c", fn, okc, f"remove_tensor [{sc.what}] {k}: {len(set(sc.target))} target indices of the term + {rank} "
                          f"index positions of the removed blocks = {len(set(gt))} distinct target indices of the block expression",
                          f"remove_tensor on {sc.what} ({_show(sc.expr, 120)}): the block expression {k} has the target indices "
                          f"{''.join(x[0] for x in gt)}; the term has {len(set(sc.target))} target indices ({''.join(x[0] for x in sc.target)}) "
                          f"and the removed blocks have {rank} index positions, each of which needs a target index of its own (a new "
                          f"index took the name of a target index, e.g. of an occurrence removed before)",
                          key=f"remove_tensor {tag}{sc.id} {k} index count")
        # the tensor whose symmetry is applied: the removed one on the minimised indices
        built = [e for e in w.effects if e[0] == "tensor" and e[2] == sc.t]
        got_f = []
        for e in built:
            try:
                s, f = talg.mk_tensor(e[1], e[2], e[3], e[4], e[5]) if e[1] != "NonSymmetricTensor" else talg.mk_nonsym(e[2], e[3])
            except ModelError:
                s, f = 0, None
            got_f.append(f)
        want_f = [rm.tensor for _, _, _, rm in trace]
        # (a tensor of that name that is built has to be one of the removed ones; building it through the constructor is
        # not required - the symmetrisation itself is decided on the values)
        ok = all(f in want_f for f in got_f)
        ctx.check("R14a", fn, ok, f"remove_tensor [{sc.what}]: symmetry taken from the removed tensor on the minimised indices "
                  f"(class, name, index groups, bra-ket symmetry kept)",
                  f"remove_tensor on {sc.what} ({_show(sc.expr, 120)}): the tensor rebuilt on the minimised indices is "
                  f"{[talg.show_factor(f) if f else '0' for f in got_f]} (constructor calls {built}); the removed tensor on these "
                  f"indices is {[talg.show_factor(f) for f in want_f]}", key=f"remove_tensor {tag}{sc.id} rebuilt")
        if not sc.roundtrip or not trace or sc.mode != "lowest" or any(tmodel.kind(v) != "expr" for v in val.values()):
            continue
        blocks = [k for k in val if k != ("none",)]
        if len(trace) == 1 and len(blocks) == 1 and len(sc.expr.t) == 1:
            B = val[blocks[0]].attrs["val"]
            # R14b (i): the block expression carries the symmetry of the tensor block
            rm = trace[0][3]
            bad = [(seq, chi) for seq, chi in rm.group if B.permute(seq) != B * chi]
            ctx.check("R14b", fn, not bad,
                      f"remove_tensor [{sc.what}]: g(B) = chi(g) B for the {len(rm.group)} operations of {talg.show_factor(rm.tensor)}",
                      f"remove_tensor on {sc.what} ({_show(sc.expr, 120)}): the block expression {_show(B, 200)} is not "
                      f"{'anti' if bad and bad[0][1] < 0 else ''}symmetric under {bad[0][0] if bad else ''} although the removed tensor "
                      f"block {talg.show_factor(rm.tensor)} is", key=f"remove_tensor {tag}{sc.id} symmetry")
        # R14b (ii): for every key, the block expression contracted with the tensor blocks of the key - the k-th block of
        # the (sorted) key on the k-th group of lowest non-target indices - gives kappa times the sum of the terms of the
        # (expanded) expression that hold these blocks
        E = sc.expr.expand()
        groups, protos, tgs, usable = {}, {}, set(), True
        for term in E.terms():
            (m, c), = term.t.items()
            occ = [(f, e) for f, e in m if talg.factor_name(f) == sc.t]
            if not occ:
                continue
            key = tuple(sorted(_block_name(f) for f, e in occ for _ in range(e)))
            groups[key] = groups.get(key, Poly()) + term
            tgs.add(frozenset(sc.target if sc.target is not None else talg.einstein_target(m)))
            for f, e in occ:
                shape = (f[0], f[1], f[2], len(f[3]), len(f[4]), f[5]) if f[0] == "A" else (f[0], f[1], len(f[2]))
                if protos.setdefault(_block_name(f), (shape, f))[0] != shape:
                    usable = False
        if not usable or len(tgs) != 1 or set(groups) != set(blocks):
            continue
        tg = set(next(iter(tgs)))
        for key in sorted(groups):
            canon = _canonical_blocks(key, {k: v[1] for k, v in protos.items()}, tg, sc.t in sc.adc)
            if canon is None:
                continue
            lhs, kappa = val[key].attrs["val"], Poly.num(1)
            for t, kp in canon:
                lhs = lhs * Poly.factor(t)
                kappa = kappa * kp
            shown = " x ".join(talg.show_factor(t) for t, _ in canon)
            try:
                eq, ca, cb = talg.contraction_equal(lhs, groups[key] * kappa, tg)
            except ModelError as e:
                if e.name != "ModelLimit":
                    raise
                ctx.note(f"remove_tensor [{sc.id}] {key}: round trip beyond the renaming bound, closed formula only")
                continue
            ctx.check("R14b" if same else sc.rule, fn, eq,
                      f"remove_tensor [{sc.what}] {key}: B x {shown} = {_show(kappa, 40)} x the terms of the expression with these blocks",
                      f"remove_tensor on {sc.what} ({_show(sc.expr, 120)}): the block expression {key} contracted with the tensor "
                      f"block(s) {shown} (the k-th block of the key on the k-th group of lowest free indices) gives {_show(ca, 200)}; "
                      f"{_show(kappa, 40)} times the terms of the expression with these blocks is {_show(cb, 200)} (contracted "
                      f"indices renamed canonically, deltas resolved)", key=f"remove_tensor {tag}{sc.id} {key} round trip")
    ctx = ctx0
    ctx.floor("R14a", f"remove_tensor {label} scenarios evaluated".replace("  ", " "), n, 40)
    # input guards
    if guards and ctx.want("R14e"):
        g = Sc("guards", "R14e", "input guards", A("d", "k", "c") * N("x", "kc"), "d")
        for what, make in (("an expression that is no Expr", lambda w: dict(expr=w.sv(g.expr), t_name="d")),
                           ("a plain number as expression", lambda w: dict(expr=3, t_name="d")),
                           ("a tensor name that is no string", lambda w: dict(expr=w.expr(g.expr, w.assumptions()), t_name=5)),
                           ("a list of names", lambda w: dict(expr=w.expr(g.expr, w.assumptions()), t_name=["d"]))):
            kind, val, w = _evaluate(ctx, RM, g, make)
            ctx.check("R14e", fn, kind == "raise" and val == "Inputerror", f"remove_tensor: {what} is refused (Inputerror)",
                      f"remove_tensor accepts {what}: {kind} {val if kind == 'raise' else ''}", key=f"remove_tensor guard {what}")


def check_derivative(ctx, scenarios=None, guards=True, label=""):
    fn = ctx.model.fn(DV)
    n = 0
    ctx0 = ctx
    for sc in (derivative_scenarios() if scenarios is None else scenarios):
        ctx = ctx0
        holder = {}

        def make(w, sc=sc, holder=holder):
            holder["expr"] = w.expr(sc.expr, _assume(w, sc))
            return dict(expr=holder["expr"], t_string=sc.t)
        kind, val, w = _evaluate(ctx, DV, sc, make)
        trace = []
        try:
            want = ref_derivative(sc.expr, sc.target, sc.t, trace)
        except Expected as e:
            want = e
        n += 1
        force, tag = (TAG_RULE[sc.tag], sc.tag + ": ") if sc.tag else (None, "")
        ctx = _forced(ctx0, force)
        same = _compare(ctx0, fn, "derivative", sc, kind, val, want, True, force, tag)
        if isinstance(want, Expected) or kind != "return" or not isinstance(val, dict) or not sc.roundtrip:
            continue
        if any(tmodel.kind(v) != "expr" for v in val.values()):
            continue
        # contraction with a variation of the tensor's symmetry = first-order change
        blocks = {}
        consistent = True
        for term, k, f, e, f2, s in trace:
            key = _block(f2)
            if blocks.setdefault(key, f2) != f2:
                consistent = False
        if not consistent or set(blocks) != set(val):
            continue
        var = lambda f: (("A", f[1], "var_" + f[2]) + f[3:]) if f[0] == "A" else ("N", "var_" + f[1], f[2])
        lhs = Poly()
        for key, f2 in blocks.items():
            lhs = lhs + val[key].attrs["val"] * Poly.factor(var(f2))
        rhs = Poly()
        tg = set()
        for term in sc.expr.expand().terms():
            (m, c), = term.t.items()
            tg |= set(sc.target if sc.target is not None else talg.einstein_target(m))
            for f, e in m:
                if talg.factor_name(f) != sc.t:
                    continue
                d = dict(m)
                d[f] = e - 1
                d[var(f)] = d.get(var(f), 0) + 1
                kk, mm = talg._norm_mono(d)
                rhs = rhs + Poly({mm: c * kk * e})
        eq, ca, cb = talg.contraction_equal(lhs, rhs, tg)
        ctx.check("R14b" if same else sc.rule, fn, eq, f"derivative [{sc.what}]: sum over blocks of dE/dD x var(D) = first-order change of E",
                  f"derivative on {sc.what} ({_show(sc.expr, 120)}): contracting the block derivatives with a variation of the tensor "
                  f"gives {_show(ca, 200)}; the first-order change of the expression is {_show(cb, 200)}", key=f"derivative {tag}{sc.id} variation")
    ctx = ctx0
    ctx.floor("R14b", f"derivative {label} scenarios evaluated".replace("  ", " "), n, 18)
    if guards and ctx.want("R14e"):
        g = Sc("guards", "R14e", "input guards", A("d", "k", "c") * N("x", "kc"), "d")
        kind, val, w = _evaluate(ctx, DV, g, lambda w: dict(expr=w.expr(g.expr, w.assumptions()), t_string=5))
        ctx.check("R14e", fn, kind == "raise" and val == "TypeError", "derivative: a tensor name that is no string is refused (TypeError)",
                  f"derivative accepts a tensor name that is no string: {kind} {val if kind == 'raise' else ''}", key="derivative guard name")
        # a bare sympy-level expression is wrapped
        kind, val, w = _evaluate(ctx, DV, g, lambda w: dict(expr=w.sv(g.expr), t_string="d"))
        want = {k: v[0] for k, v in ref_derivative(g.expr, None, "d").items()}
        ok = kind == "return" and isinstance(val, dict) and set(val) == set(want) and \
            all(tmodel.kind(v) == "expr" and v.attrs["val"] == want[k] for k, v in val.items())
        ctx.check("R14e", fn, ok, "derivative: an unwrapped expression is put into a container", "derivative of an unwrapped expression "
                  f"gives {kind} {val}", key="derivative unwrapped")


def r08g(ctx):
    """The index primitives the model takes for granted, evaluated from the library source: minimize_tensor_indices on all
    index tuples of length <= 3 over {i, j, k, a, b} and get_lowest_avail_indices on a table of requests."""
    import itertools
    rule = "R08g"
    fn = ctx.model.fn("indices:minimize_tensor_indices")
    names = ["i", "j", "k", "a", "b"]
    targets_list = [{}, {("occ", ""): ["j"]}, {("occ", ""): ["i"], ("virt", ""): ["a"]}, {("occ", ""): ["k", "j"]}]
    w = tmodel.World()
    b = tmodel.Binding(w)
    hooks = {"Permutation": lambda sx, a, kw: tuple(a), "PermutationProduct": lambda sx, a, kw: tuple(sx.iterate(a[0], None))}
    sx = b.make(ctx.model, "minimize_tensor_indices", extra_hooks=hooks, inline=lambda q: q not in (
        "indices:get_lowest_avail_indices", "indices:get_symbols"))
    n = 0
    for length in (1, 2, 3):
        for tpl in itertools.product(names, repeat=length):
            for tg in targets_list:
                n += 1
                label = f"{''.join(tpl)} targets={sorted(x for v in tg.values() for x in v)}"
                outs = sx.run(fn, lambda: dict(tensor_indices=w.indices([ix(x) for x in tpl]),
                                               target_idx_names={k: list(v) for k, v in tg.items()}))
                if len(outs) != 1 or outs[0].kind != "return":
                    ctx.bad(rule, fn, f"minimize_tensor_indices on {label}: {outs}", key=f"min {label}")
                    continue
                try:
                    res, perms = outs[0].value
                    out = [r.attrs["_ix"] for r in res]
                    seq = [(p.attrs["_ix"], q.attrs["_ix"]) for p, q in perms]
                except (TypeError, ValueError, AttributeError, KeyError):
                    ctx.bad(rule, fn, f"minimize_tensor_indices on {label} returns {outs[0].value!r}", key=f"min {label}")
                    continue
                cur = [ix(x) for x in tpl]
                for p, q in seq:
                    cur = [q if c == p else p if c == q else c for c in cur]
                # expected: targets stay, the others get the lowest non-target names in order of first appearance
                tnames = {x for v in tg.values() for x in v}
                free = {sp: [c for c in talg.SPACES[sp] if c not in tnames] for sp in talg.SPACES}
                wm = {}
                for x in tpl:
                    if x not in wm:
                        wm[x] = x if x in tnames else free[talg.space_of(x)].pop(0)
                want = [ix(wm[x]) for x in tpl]
                model = talg.minimize([ix(x) for x in tpl], {k: tuple(v) for k, v in tg.items()})[0]
                ok = out == want and cur == out and list(model) == want
                ctx.check(rule, fn, ok, f"{label} -> {''.join(wm[x] for x in tpl)}",
                          f"minimize_tensor_indices({label}) gives {''.join(x[0] for x in out)} (its permutations give "
                          f"{''.join(x[0] for x in cur)}); the lowest unused non-target names in order of first appearance are "
                          f"{''.join(x[0] for x in want)}", key=f"min {label}")
    ctx.floor(rule, "index tuples minimised", n, 400)
    gl = ctx.model.fn("indices:get_lowest_avail_indices")
    sx = b.make(ctx.model, "get_lowest_avail_indices", no_hooks=("get_lowest_avail_indices",))
    m = 0
    for space, letters in talg.SPACES.items():
        for cnt in (0, 1, 2, 3, 9):
            for used in ([], [letters[0]], [letters[1], letters[0]], list(letters), list(letters[:3]) + [letters[0] + "1"],
                         [letters[2] + "7"]):
                m += 1
                outs = sx.run(gl, lambda: dict(n=cnt, used=list(used), space=space))
                want = talg.lowest_avail(cnt, used, space)
                got = outs[0].value if len(outs) == 1 and outs[0].kind == "return" else outs
                ctx.check(rule, gl, got == want, f"get_lowest_avail_indices({cnt}, {used}, {space}) = {want}",
                          f"get_lowest_avail_indices({cnt}, {used}, {space}) gives {got}; the {cnt} lowest unused names are {want}",
                          key=f"lowest {space} {cnt} {''.join(used)}")
    ctx.floor(rule, "requests for lowest available names", m, 60)


# ---------------------------------------------------------------------------
# R14f: call history

def history_inputs(fnref):
    """Inputs that differ in what a result may (wrongly) be remembered by: target indices, tensor name, spin, bra-ket
    symmetry, tensor class, exponent, provided target indices."""
    AM = "Amplitude"
    q = Fraction(1, 4)
    H = [
        Sc("targets i a", "R14f", "z_ia V^jk_bc w_bcjk (target indices i, a)", num(q) * N("z", "ia") * A("V", "jk", "bc") * N("w", "bcjk"), "V"),
        Sc("scalar", "R14f", "V^ij_ab w_abij (no target indices)", num(q) * A("V", "ij", "ab") * N("w", "abij"), "V"),
        Sc("targets j", "R14f", "V^ik_ab w_abikj (target index j)", A("V", "ik", "ab") * N("w", "abikj"), "V"),
        Sc("spin", "R14f", "spin-labelled V", A("V", "ij", "ab", 0, sp="abab") * N("w", "abij", "abab"), "V"),
        Sc("other name", "R14f", "the tensor d next to V", A("V", "ij", "ab") * A("d", "kl", "cd") * N("w", "abijcdkl"), "d"),
        Sc("bra-ket", "R14f", "V with bra-ket symmetry", A("V", "ij", "kl", 1) * N("w", "ijkl"), "V"),
        Sc("amplitude", "R14f", "V as Amplitude", A("V", "ab", "ij", 0, AM) * N("w", "ijab"), "V"),
        Sc("provided", "R14f", "explicit target indices i, a", A("V", "jk", "bc") * N("w", "bcjkia"), "V", target="ia"),
        Sc("square", "R14f", "V^2", num(3) * A("V", "ij", "ab") ** 2, "V"),
        Sc("two terms", "R14f", "two terms with different target names", A("V", "jk", "bc") * N("w", "bcjk") + A("V", "ij", "ac") * N("u", "acij"), "V"),
    ]
    if fnref == RM:
        H.append(Sc("adc", "R14f", "ADC amplitude Y", A("Y", "ab", "ij", 0, AM) * N("w", "ijab"), "Y"))
        H.append(Sc("adc name V", "R14f", "the same amplitude under the ADC name", A("V", "ab", "ij", 0, AM) * N("w", "ijab"), "V", adc=("V",)))
    return H


def _result(kind, val):
    """Comparable image of one call's outcome."""
    if kind != "return":
        return (kind, val)
    if not isinstance(val, dict):
        return ("return", repr(val))
    out = {}
    for k, v in val.items():
        if tmodel.kind(v) == "expr":
            a = v.attrs["assume"]
            tg = None if a["target_idx"] is None else tuple(r.attrs["_ix"] for r in a["target_idx"])
            out[k] = (v.attrs["val"], tg, a.get("sym_tensors"), a.get("real"))
        else:
            out[k] = repr(v)
    return ("return", out)


def _show_result(r, n=300):
    if r[0] != "return" or not isinstance(r[1], dict):
        return f"{r[0]} {r[1]}"
    return _show("{" + ", ".join(f"{k}: {v[0] if isinstance(v, tuple) else v}" for k, v in sorted(r[1].items(), key=repr)) + "}", n)


def check_history(ctx):
    rule = "R14f"
    for fnref, pname in ((DV, "t_string"), (RM, "t_name")):
        fn = ctx.model.fn(fnref)
        label = fnref.split(":")[1]
        H = history_inputs(fnref)
        if ctx.tier == "quick":
            pairs = [(a, b) for a in H[:6] for b in H[:6]] + [(H[0], b) for b in H[6:]] + [(a, H[1]) for a in H[6:]]
        else:
            pairs = [(a, b) for a in H for b in H]

        def args(w, sc):
            return {"expr": w.expr(sc.expr, _assume(w, sc)), pname: sc.t}
        alone = {}
        for sc in H:
            kind, val, w = _evaluate(ctx, fnref, sc, lambda w, sc=sc: args(w, sc))
            alone[sc.id] = _result(kind, val)
        n = 0
        for a, b in pairs:
            # the ADC names are a property of the process (tensor_names), not of the call
            if tuple(a.adc) != tuple(b.adc):
                continue
            w = tmodel.World(adc_names=b.adc, minimize_mode=b.mode)
            sx = tmodel.Binding(w).make(ctx.model, f"{label} [{a.id} ; {b.id}]", max_depth=24)
            try:
                outs = sx.run_sequence([fnref, fnref], lambda: [args(w, a), args(w, b)])
            except AnalysisError as e:
                if any(x in str(e) for x in ("depth exceeded", "recursion bound", "step bound", "loop bound")):
                    ctx.bad(rule, fn, f"{label} on {b.what} after {a.what} does not terminate: {e}", key=f"{label} history {a.id} ; {b.id}")
                    continue
                raise
            if len(outs) != 1 or outs[0].kind != "return":
                raise AnalysisError(f"C14 history [{a.id} ; {b.id}]: {outs[:3]}")
            n += 1
            first, second = [_result(k, v) for k, v in outs[0].value]
            ok = second == alone[b.id] and first == alone[a.id]
            ctx.check(rule, fn, ok, f"{label}: [{b.what}] after [{a.what}] = [{b.what}] alone",
                      f"{label} on {b.what} ({_show(b.expr, 100)}, w.r.t. {b.t}) gives {_show_result(second)} when it is evaluated after "
                      f"{label} on {a.what} ({_show(a.expr, 100)}, w.r.t. {a.t}) in the same process, but {_show_result(alone[b.id])} on its "
                      f"own: the result depends on the call history (module-level state)", key=f"{label} history {a.id} ; {b.id}")
        ctx.floor(rule, f"call histories of {label}", n, 40)


def permute_model(ctx):
    """Container.permute evaluated from source: the substitution handed to ``subs`` is the composition of the
    transpositions in the given order (what the model's ``permute`` implements)."""
    import itertools
    rule = "R08g"
    fn = ctx.model.fn("expr_container:Container.permute")
    w = tmodel.World()
    b = tmodel.Binding(w)
    captured = []

    def subs(sx, a, kw):
        captured.append(a[1])
        return a[0]
    hooks = {"order_substitutions": lambda sx, a, kw: list(a[0].items()), "subs": subs}
    sx = b.make(ctx.model, "Container.permute", extra_hooks=hooks)
    names = [ix(x) for x in "ijk"] + [ix("a"), ix("b")]
    pairs = [(p, q) for p, q in itertools.combinations(names, 2) if talg.space_of(p[0]) == talg.space_of(q[0])]
    seqs = [()] + [(p,) for p in pairs] + list(itertools.product(pairs, repeat=2)) + \
        [(pairs[0], pairs[1], pairs[2]), (pairs[0], pairs[1], pairs[0]), (pairs[2], pairs[0], pairs[3], pairs[1])]
    n = 0
    for seq in seqs:
        del captured[:]
        probe = w.expr(Poly.num(1), w.assumptions())
        outs = sx.run(fn, lambda: dict(self=probe, perms=tuple((w.index(p), w.index(q)) for p, q in seq)))
        label = " ".join(f"P_{p[0]}{q[0]}" for p, q in seq) or "no permutation"
        if len(outs) != 1 or outs[0].kind != "return" or len(captured) != 1:
            ctx.bad(rule, fn, f"Container.permute({label}): {outs}", key=f"permute {label}")
            continue
        n += 1
        try:
            got = {k.attrs["_ix"]: v.attrs["_ix"] for k, v in captured[0]}
        except (AttributeError, KeyError, TypeError, ValueError):
            ctx.bad(rule, fn, f"Container.permute({label}) substitutes {captured[0]!r}", key=f"permute {label}")
            continue
        want = {}
        for s0 in names:
            c = s0
            for p, q in seq:
                c = q if c == p else p if c == q else c
            want[s0] = c
        ok = all(got.get(s0, s0) == want[s0] for s0 in names) and set(got) <= set(names)
        ctx.check(rule, fn, ok, f"permute({label}) substitutes the composition of the transpositions",
                  f"Container.permute({label}) substitutes {dict((k[0], v[0]) for k, v in got.items())}; applying the "
                  f"transpositions one after another gives {dict((k[0], v[0]) for k, v in want.items() if k != v)}",
                  key=f"permute {label}")
    ctx.floor(rule, "permutation sequences composed", n, 20)


def thorough_scenarios():
    """Systematic table: tensor class x bra-ket symmetry x group sizes x names / targets."""
    out = {"remove": [], "derivative": []}
    occ, virt = "klmn", "cdef"
    seen = set()
    for cls in ("AntiSymmetricTensor", "SymmetricTensor", "Amplitude"):
        for bks in (0, 1, -1):
            for nu, nl in ((1, 1), (2, 2), (2, 1), (1, 2), (0, 2), (2, 0), (3, 3)):
                for spaces in ("vo", "oo", "vv", "ov"):
                    if bks and (nu != nl or (nu, nl) == (3, 3) and spaces != "vo"):
                        continue
                    if (nu, nl) == (3, 3) and cls != "AntiSymmetricTensor":
                        continue
                    pool = {"o": list(occ), "v": list(virt)}
                    if spaces[0] == spaces[1] and nu + nl > 4:
                        continue
                    up = "".join(pool[spaces[0]].pop(0) for _ in range(nu))
                    lo = "".join(pool[spaces[1]].pop(0) for _ in range(nl))
                    try:
                        t = A("T", up, lo, bks, cls)
                    except (ModelError, AssertionError):
                        continue
                    # the tensor as it is stored (canonical form) fixes the order of the remainder's indices
                    (m, c), = t.t.items()
                    idx = "".join(s[0] for s in talg.factor_idx(m[0][0]))
                    rest = N("x", idx[::-1])
                    sid = f"{cls} bks={bks} {up}/{lo}"
                    if sid in seen:
                        continue
                    seen.add(sid)
                    for tname, adc in (("T", ()), ("Y", ("Y",))):
                        if tname == "Y" and (cls != "Amplitude"):
                            continue
                        tt = A(tname, up, lo, bks, cls)
                        out["remove"].append(Sc(f"{sid} {tname}", "R14a", f"{tname}^{up}_{lo} ({cls}, bra-ket symmetry {bks})",
                                                num(2) * tt * rest, tname, adc=adc))
                    out["derivative"].append(Sc(sid, "R14b", f"T^{up}_{lo} ({cls}, bra-ket symmetry {bks})", num(2) * t * rest, "T"))
                    # a target index of the remainder reserves a name
                    out["remove"].append(Sc(f"{sid} target", "R14c", f"T^{up}_{lo} ({cls}, bra-ket symmetry {bks}) next to targets i, a",
                                            t * rest * N("y", "ia"), "T"))
                    out["derivative"].append(Sc(f"{sid} target", "R14e", f"T^{up}_{lo} ({cls}, bra-ket symmetry {bks}) next to targets i, a",
                                                t * rest * N("y", "ia"), "T"))
    return out


def run_thorough(ctx):
    if any(ctx.want(r) for r in ("R14a", "R14b", "R14c", "R14d", "R14e")):
        sc = thorough_scenarios()
        check_remove(ctx, sc["remove"], guards=False, label="table")
        check_derivative(ctx, sc["derivative"], guards=False, label="table")


def run(ctx):
    if any(ctx.want(r) for r in ("R14a", "R14b", "R14c", "R14d", "R14e")):
        check_remove(ctx)
        check_derivative(ctx)
    if ctx.want("R14f"):
        check_history(ctx)
    if ctx.want("R08g"):
        r08g(ctx)
        permute_model(ctx)
