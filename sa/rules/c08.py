"""C08 index renaming: every clause is decided by evaluating the library code, not by its spelling."""
from __future__ import annotations

import ast
import itertools
import re

from ..model import AnalysisError, U, FuncNode, rel, fn_of, short
from ..symex import Symex, Obj, ClassRef
from ..terms import T, sym, args_of
from .. import shapeflow as sf

EXPLANATION = (
    "R08a: the provenance of the argument of every .subs( call of the package is evaluated over a small shape lattice "
    "(sa/shapeflow: flow-sensitive abstract interpretation, functions evaluated through with the shapes of the actual "
    "arguments, containers carry the join of what is stored in them): the argument has to be the unmodified result of "
    "order_substitutions (wherever it was built and however it travelled: return values of compare_terms, the nested "
    "dicts of find_compatible_terms / find_compatible_eri_parts, tuple components of _compare_eri_parts, "
    "substitute_contracted(only_build_sub=True), locals, loops, unpacking), a single (old, new) pair, a dict with "
    "simultaneous=True, or a parameter of the enclosing function that is forwarded (then every call of that function "
    "is a site). R08b: the calls that resolve (through the imports) to the Index class occur only in "
    "Indices._new_symbol plus four frozen functions. R08c: the registry fields are read or written only inside class "
    "Indices, which is a Singleton; Singleton.__call__ is evaluated: one construction per class, the identical "
    "instance afterwards. R08d: bounded model check of the registry - Indices.__init__, get_indices, "
    "get_generic_indices, _gen_generic_idx, _new_symbol, is_cached_index, get_symbols and the Index properties are "
    "evaluated by sa/symex on concrete request histories (all sequences of up to two requests from 15 request kinds, "
    "selected triples; thorough: all triples) against an independently written reference registry: identical record for "
    "a repeated (name, spin), also inside one request, distinct records otherwise, requested name/space/spin, generic "
    "names i3.. that were never handed out or requested before, result order, every returned record known to "
    "is_cached_index (a history ends where an explicit request names an index that was handed out as generic index; "
    "that situation is decided by its own clause: such a request must be refused or deliver a distinct symbol, because "
    "the generic name is the name of a contracted index of live, possibly cached expressions - key 'explicit request "
    "aliases generic index', known finding F52 on the current tree). R08e: Term.substitute_contracted / substitute_with_generic are evaluated on abstract terms "
    "(index counter with multiplicities, provided or counted target indices, spins) with the real registry code "
    "underneath: the map handed to order_substitutions has exactly the contracted indices as keys, the images are "
    "the registry records of the lowest names of the same space that no target index of the same (space, spin) "
    "carries (resp. fresh generic records), spin preserved, injective, never a target; the list that reaches "
    "sympy's subs applied pair by pair equals that map; a substitution that annihilates a non-zero term raises; "
    "return_sympy / only_build_sub deliver the documented values; Term.contracted / Term.target partition the "
    "indices. R08f: order_substitutions on all 625 maps over four indices (sequential == simultaneous), "
    "get_lowest_avail_indices / split_idx_string / index_space against reference tables, Container.permute on all "
    "sequences of up to three transpositions over four indices (composed list == transpositions one after another). "
    "PermutationProduct.__new__ / split_in_separable_parts / Permutation.__new__ evaluated on operator sequences built "
    "from every ordered chain of up to three (thorough: four) distinct links between index classes (class = space + "
    "spin: o, v, g, oa, vb, ...) with a transposition inside every class in front of / behind / around the links: the "
    "stored product consists of the given operators and is the same permutation of every index tuple as the given "
    "sequence (only operators without a common index may change places). "
    "R08g: minimize_tensor_indices on all 620 index tuples of length <= 3 over {i,j,k,a,b} x 4 target sets plus "
    "spin cases: targets stay, the other indices get the lowest unused names per (space, spin) in order of first "
    "appearance, and the returned permutations reproduce the result.")
ASSUMPTIONS = [
    "R08a shapes over-approximate: attributes are followed only on objects whose constructor call is evaluated (an "
    "ordered list parked in an attribute of `self` between two methods is 'not established'); methods on receivers of "
    "unknown class are resolved by method name and signature",
    "R08d/R08e/R08f/R08g are evaluated on bounded request histories, index maps over four indices and small name sets "
    "(bounded, not exhaustive)",
    "sympy's subs applies a list of pairs sequentially; sympy itself (Dummy identity, subs) is modelled, not analysed",
    "the four functions that may construct an Index outside the registry are a frozen list (ownership is decided by "
    "function name)",
]

ORD = "ORD"
INDEX_CTOR_FROZEN = {
    "indices:Indices._new_symbol": "the one registry constructor",
    "func:_contraction": "fresh occ/virt dummy of the general-index contraction (never registered on purpose)",
    "indices:order_substitutions": "temporary index for cyclic substitutions, removed by the final substitution",
    "derivative:derivative": "placeholder symbol x of the symbolic differentiation, substituted back",
}
BASE = {"occ": "ijklmno", "virt": "abcdefgh", "general": "pqrstuvw"}
FIRST_GENERIC = 3
REG = "indices:Indices"
IDX = "indices:Index"


# ---------------------------------------------------------------------- R08a


def _classify(fr, pos, kw, star, wrappers):
    """(ok, kind) for the arguments of one substitution call evaluated in frame ``fr``."""
    if isinstance(star, sf.Param) and star.kind == "var" and star.fn is fr.fn and not pos \
            and isinstance(kw.get("**"), sf.Param) and kw["**"].fn is fr.fn:
        return True, "forwarding wrapper (*args, **kwargs of the enclosing function)"
    simul = kw.get("simultaneous")
    if isinstance(simul, sf.Const) and simul.value is True:
        return True, "simultaneous dict"
    if star is None and "**" not in kw and len(pos) == 2:
        return True, "single (old, new) pair"
    sv = star.find() if isinstance(star, sf._Cell) else star
    if isinstance(sv, sf.Tup) and len(sv.items) == 2 and not pos and "**" not in kw:
        return True, "single (old, new) pair passed as *pair"
    if star is None and len(pos) == 1:
        return _classify_value(fr, pos[0], wrappers)
    return False, f"call shape with {len(pos)} positional arguments{' and *args' if star is not None else ''}"


def _classify_value(fr, v, wrappers):
    if isinstance(v, sf._Cell):
        v = v.find()
    if isinstance(v, sf.Mark) and v.tag == ORD:
        if v.dirty:
            return False, "an ordered substitution list that was modified after order_substitutions built it"
        return True, "ordered list"
    if isinstance(v, sf.Param) and v.kind == "pos" and v.fn is fr.fn:
        wrappers.setdefault(v.fn, set()).add(v.name)
        return True, f"parameter `{v.name}` forwarded (the callers are sites)"
    return False, f"a value of shape {v!r}"


def r08a(ctx, modules=None):
    rule = "R08a"
    model = ctx.model
    entries = []
    for ref, fn in model.all_functions():
        if modules and ref.split(":")[0] not in modules:
            continue
        if getattr(fn, "_fn", None) is None:      # nested functions are evaluated with their enclosing function
            entries.append((ref, fn))
    wrappers = {}
    for _ in range(4):
        sites = {}
        known = {k: set(v) for k, v in wrappers.items()}

        def on_call(flow, fr, node, attr, recv, pos, kw, star):
            if attr == "subs":
                sites.setdefault(node, []).append(_classify(fr, pos, kw, star, wrappers))
            # calls of functions that forward a parameter into a substitution
            cands = []
            if attr is None:
                if isinstance(recv, sf.Fn):
                    cands = [recv]
            elif isinstance(recv, (sf.Inst, sf.Cls)):
                m = flow.find_method(recv.module, recv.clsq, attr)
                if m is not None:
                    cands = [sf.Fn(m, [], m._module, bound=recv if isinstance(recv, sf.Inst) else None)]
            elif attr != "subs":
                cands = [sf.Fn(m, [], m._module, bound=sf.Inst(m._module, m._cls)) for m in flow.methods_named(attr)
                         if m in known and sf._accepts(m, len(pos), kw, star)]
            for f in cands:
                for p in sorted(known.get(f.node, ())):
                    b = flow.bind(f.node, pos, kw, star, f.bound)
                    ok, kind = _classify_value(fr, b.get(p, sf.TOP), wrappers)
                    sites.setdefault(node, []).append((ok, f"{getattr(f.node, 'name', '?')}({p}=...): {kind}"))
        flow = sf.Flow(model, {"order_substitutions": ORD}, on_call=on_call)
        for ref, fn in entries:
            flow.entry(fn)
        if {k: set(v) for k, v in wrappers.items()} == known:
            break
    else:
        raise AnalysisError("R08a: the set of forwarding functions does not stabilise")
    # every syntactic .subs( call of the analysed functions must have been reached by the evaluation
    n = 0
    kinds = {}
    for ref, fn in entries:
        ordinal = 0
        for c in ast.walk(fn):
            if not (isinstance(c, ast.Call) and isinstance(c.func, ast.Attribute) and c.func.attr == "subs"):
                continue
            ordinal += 1
            n += 1
            if c not in sites:
                raise AnalysisError(f"R08a: the .subs( call at {rel(c)} is not reached by the shape evaluation")
            res = sites.pop(c)
            bad = [k for ok, k in res if not ok]
            good = sorted({k for ok, k in res if ok})
            for k in good:
                kinds[k.split(" (")[0].split(" `")[0]] = kinds.get(k.split(" (")[0].split(" `")[0], 0) + 1
            ctx.check(rule, c, not bad, f"{fn_of(c).split(':')[1]}: {', '.join(good)}",
                      f"`{short(c, 80)}`: the substitution argument is {bad[0] if bad else ''}, not an ordered substitution list "
                      "(result of order_substitutions), a single pair or a simultaneous dict; sequential application of a raw "
                      "index map captures indices (i->j, j->k)", fn=fn_of(c), key=f"subs site {ordinal} of {fn_of(c)}")
    # calls of forwarding functions (sites without the attribute name subs)
    for c, res in sites.items():
        bad = [k for ok, k in res if not ok]
        ctx.check(rule, c, not bad, f"{fn_of(c).split(':')[1]}: call of a forwarding function: {sorted({k for ok, k in res if ok})}",
                  f"`{short(c, 80)}`: {bad[0] if bad else ''} is handed to a function that forwards it into .subs(", fn=fn_of(c),
                  key=f"forwarded {short(c, 60)}")
    if not modules:
        ctx.floor(rule, ".subs( call sites package-wide", n, 15)
    ctx.note(f"R08a site kinds: {kinds}")


# ---------------------------------------------------------------------- the evaluated world


class World:
    """The registry and the index records, built and driven by the library's own code (sa/symex, concrete values)."""

    def __init__(self, ctx, what="C08", hooks=None):
        self.ctx, self.model = ctx, ctx.model
        self.created = []
        self._ss = {}
        hk = {"Index": self._mk_index, "Indices": lambda sx, a, kw: self.reg,
              "Permutation": self._named("symmetry:Permutation", lambda p, q: ("P", p, q)),
              "PermutationProduct": self._named("symmetry:PermutationProduct", lambda args: list(args))}
        hk.update(hooks or {})
        self.sx = Symex(self.model, inline=lambda q: True, hooks=hk, what=what, obj_identity=True,
                        attr_hook=self._class_attr, max_steps=400000)
        self.reg = Obj(REG, "registry")
        self.call(f"{REG}.__init__", self=self.reg)

    def _named(self, clsref, f):
        """hook that receives the arguments bound to the parameter names of the class constructor"""
        def hook(sx, a, kw):
            m = sx.find_method(clsref, "__new__") or sx.find_method(clsref, "__init__")
            if m is None:
                raise AnalysisError(f"C08: constructor of {clsref} not found")
            return f(**sx.bind(m[0], a, kw, True, True))
        return hook

    def _class_attr(self, sx, obj, attr, node):
        if isinstance(obj, Obj) and obj.cls:
            mod, _, q = obj.cls.partition(":")
            m = self.model.modules.get(mod)
            if m is not None and q in m.classes:
                v = sx.getattr(ClassRef(m, q), attr, node)
                if not (isinstance(v, T) and v.op == "attr"):
                    return v
        return NotImplemented

    def _mk_index(self, sx, a, kw):
        kw = dict(kw)
        name = a[0] if a else kw.pop("name", None)
        rec = Obj(IDX, f"{name}#{len(self.created)}")
        rec.attrs.update(name=name, assumptions0=kw, dummy_index=len(self.created))
        self.created.append(rec)
        return rec

    def outcome(self, ref, /, **args):
        fn = self.model.fn(ref) if isinstance(ref, str) else ref
        outs = self.sx.run(fn, lambda: dict(args))
        if len(outs) != 1:
            raise AnalysisError(f"C08: concrete evaluation of {getattr(fn, 'name', ref)} forked into {len(outs)} paths: {outs[:3]}")
        return outs[0]

    def call(self, ref, /, **args):
        o = self.outcome(ref, **args)
        if o.kind != "return":
            raise _Failed(f"{ref} raised {o.exc}")
        return o.value

    def space_spin(self, rec):
        """(space, spin) as the library's Index properties decode the record."""
        if id(rec) not in self._ss:
            v = self.call(f"{IDX}.space_and_spin", self=rec)
            self._ss[id(rec)] = tuple(v) if isinstance(v, (tuple, list)) else v
        return self._ss[id(rec)]

    def describe(self, rec):
        if not isinstance(rec, Obj):
            return repr(rec)
        try:
            sp, s = self.space_spin(rec)
        except Exception:
            sp, s = "?", "?"
        return f"{rec.attrs.get('name')}{'_' + s if s else ''}[{sp}]"

    def symbols(self, names, spins=None):
        """Index records through the library's get_symbols; None when the registry does not deliver what was asked
        for (that is R08d's finding, the caller skips)."""
        try:
            recs = self.call("indices:get_symbols", indices=names, spins=spins)
        except _Failed:
            return None
        want = _split(names) if isinstance(names, str) else list(names)
        sp = list(spins) if spins is not None else [""] * len(want)
        if not isinstance(recs, list) or len(recs) != len(want):
            return None
        for r, nm, s in zip(recs, want, sp):
            if not isinstance(r, Obj) or r.attrs.get("name") != nm or self.space_spin(r) != (_space(nm), s):
                return None
        return recs

    def cached(self, rec):
        return self.call(f"{REG}.is_cached_index", self=self.reg, index=rec)


class _Failed(Exception):
    pass


def _split(s):
    return re.findall(r"[a-zA-Z]\d*", s)


def _space(name):
    for sp, letters in BASE.items():
        if name[0] in letters:
            return sp
    raise KeyError(name)


def _lowest(n, used, space):
    """Reference: the n lowest names of the space (i..o, i1..o1, ...) that are not in ``used``."""
    out, k = [], 0
    while len(out) < n:
        for c in BASE[space]:
            nm = c + (str(k) if k else "")
            if nm not in used and len(out) < n:
                out.append(nm)
        k += 1
    return out


def _apply_seq(pairs, items):
    cur = list(items)
    for o, n in pairs:
        cur = [n if c is o else c for c in cur]
    return cur


def _pairs(v):
    """list of (old, new) pairs or None"""
    if not isinstance(v, (list, tuple)):
        return None
    out = []
    for p in v:
        if not isinstance(p, (list, tuple)) or len(p) != 2:
            return None
        out.append((p[0], p[1]))
    return out


# ---------------------------------------------------------------------- R08b


def _is_index_cls(v):
    return isinstance(v, sf.Cls) and v.clsq == "Index" and v.module.name == "indices"


def _index_names(flow, m):
    """Local names of module ``m`` (imports anywhere in the module, own classes) that are the Index class, and the
    names that are modules through which it is reachable."""
    direct, mods = set(), set()
    for name in set(m.imports) | set(m.classes):
        v = flow.module_name(m, name)
        if _is_index_cls(v):
            direct.add(name)
        elif isinstance(v, sf.Mod) and _is_index_cls(flow.module_name(v.module, "Index")):
            mods.add(name)
    return direct, mods


def r08b(ctx):
    rule = "R08b"
    flow = sf.Flow(ctx.model, {})
    n = 0
    for mname, m in ctx.model.modules.items():
        ctx.model.used_modules.add(mname)
        direct, mods = _index_names(flow, m)
        for c in ast.walk(m.tree):
            if not isinstance(c, ast.Call):
                continue
            f = c.func
            if not (isinstance(f, ast.Name) and f.id in direct or isinstance(f, ast.Attribute) and f.attr == "Index"
                    and isinstance(f.value, ast.Name) and f.value.id in mods):
                continue
            n += 1
            q = getattr(c, "_fn", None)
            ref = f"{mname}:{q}" if q else f"{mname}:<module>"
            top = ref
            while top not in INDEX_CTOR_FROZEN and "." in top.split(":")[1] and \
                    top.split(":")[1].rsplit(".", 1)[0] in m.functions:
                top = f"{mname}:{top.split(':')[1].rsplit('.', 1)[0]}"      # nested helper of a frozen function
            ok = top in INDEX_CTOR_FROZEN
            ctx.check(rule, c, ok, f"{top}: {INDEX_CTOR_FROZEN.get(top)}",
                      f"`{U(c)}` constructs an Index outside the registry (Indices._new_symbol); two requests for the same "
                      "name would give different index objects", fn=ref, key=f"Index ctor in {top}")
    ctx.floor(rule, "Index(...) constructor calls", n, 1)


# ---------------------------------------------------------------------- R08c


def r08c(ctx):
    rule = "R08c"
    fields = ("_symbols", "_generic_indices", "_counter")
    n_inside = 0
    for mname, m in ctx.model.modules.items():
        ctx.model.used_modules.add(mname)
        for node in ast.walk(m.tree):
            name = None
            if isinstance(node, ast.Attribute) and node.attr in fields:
                name = node.attr
            elif isinstance(node, ast.Constant) and node.value in fields and isinstance(getattr(node, "_parent", None), ast.Call):
                name = node.value       # getattr(x, "_symbols") / setattr / vars()[...]
            if name is None:
                continue
            inside = getattr(node, "_cls", None) == "Indices" and mname == "indices"
            if inside:
                n_inside += 1
            else:
                ctx.bad(rule, node, f"registry field `{name}` accessed outside class Indices", key=f"{mname} {name}")
    ctx.floor(rule, "registry accesses inside Indices (positive fixture)", n_inside, 10)
    ctx.ok(rule, None, f"{n_inside} registry accesses, all inside class Indices", fn="indices:Indices", key="registry ownership")
    # the class is a singleton: its metaclass resolves to misc:Singleton ...
    cls = ctx.model.cls(REG)
    flow = sf.Flow(ctx.model, {})
    meta = [flow.ev(k.value, sf._Frame(None, [{}], cls._module, False)) for k in cls.keywords if k.arg == "metaclass"]
    ctx.check(rule, cls, len(meta) == 1 and isinstance(meta[0], sf.Cls) and meta[0].clsq == "Singleton" and meta[0].module.name == "misc",
              "Indices is a singleton", "Indices is no longer created through the Singleton metaclass", key="singleton")
    # ... and Singleton.__call__ evaluated: one construction per class, the identical instance afterwards
    sg = ctx.model.fn("misc:Singleton.__call__")
    made = []

    def construct(sx, a, kw):
        o = Obj(None, f"instance{len(made)}")
        made.append(o)
        return o
    sup = Obj(None, "super")
    sup.attrs["__call__"] = construct
    sx = Symex(ctx.model, inline=lambda q: True, hooks={"super": lambda sx, a, kw: sup}, obj_identity=True, what="Singleton.__call__")
    registry = {}
    c1, c2 = Obj(None, "class1"), Obj(None, "class2")
    for c in (c1, c2):
        c.attrs["_instances"] = registry
    got = []
    for c in (c1, c1, c2, c1, c2):
        outs = sx.run(sg, lambda: dict(cls=c, args=(), kwargs={}))
        got.append(outs[0].value if len(outs) == 1 and outs[0].kind == "return" else None)
    ok = all(isinstance(g, Obj) for g in got) and got[0] is got[1] is got[3] and got[2] is got[4] and got[0] is not got[2] \
        and len(made) == 2
    ctx.check(rule, sg, ok, "Singleton.__call__: one construction per class, the identical instance afterwards",
              f"Singleton.__call__ evaluated on the request sequence A A B A B returns {got} with {len(made)} constructions",
              key="singleton call")


# ---------------------------------------------------------------------- R08d


class RefRegistry:
    """The documented behaviour of the registry, written down independently of the library."""

    def __init__(self):
        self.obj, self.pool, self.counter, self.n = {}, {}, {}, 0
        self.generic_keys = set()       # (space, spin, name) handed out as generic (= contracted) index

    def names_generic(self, names, spins):
        """Does an explicit request name an index that was handed out as generic index before?"""
        names = _split(names) if isinstance(names, str) else list(names)
        spins = [""] * len(names) if spins is None else list(spins)
        try:
            return any((_space(nm), s, nm) in self.generic_keys for nm, s in zip(names, spins))
        except KeyError:
            return False

    def get(self, name, spin):
        sp = _space(name)
        k = (sp, spin, name)
        if k not in self.obj:
            self.obj[k] = self.n
            self.n += 1
            pool = self.pool.get((sp, spin), [])
            if name in pool:
                pool.remove(name)
        return self.obj[k]

    def get_indices(self, names, spins):
        names = _split(names) if isinstance(names, str) else list(names)
        spins = [""] * len(names) if spins is None else list(spins)
        if len(names) != len(spins):
            raise ValueError("length")
        out = {}
        for nm, s in zip(names, spins):
            out.setdefault((_space(nm), s), []).append((self.get(nm, s), nm))
        return out

    def generic(self, request):
        out = {}
        for key, n in request.items():
            if n == 0:
                continue
            parts = key.split("_")
            if len(parts) > 2:
                raise ValueError(key)
            sp, spin = parts[0], (parts[1] if len(parts) == 2 else "")
            pool = self.pool.setdefault((sp, spin), [])
            while n > len(pool):
                c = self.counter.get((sp, spin), FIRST_GENERIC)
                pool.extend(b + str(c) for b in BASE[sp] if (sp, spin, b + str(c)) not in self.obj)
                self.counter[(sp, spin)] = c + 1
            self.generic_keys.update((sp, spin, nm) for nm in pool[:n])
            out.update(self.get_indices(pool[:n], [spin] * n))
        return out

    def symbols(self, names, spins):
        names = _split(names) if isinstance(names, str) else list(names)
        spins = [""] * len(names) if spins is None else list(spins)
        return [(self.get(nm, s), nm, _space(nm), s) for nm, s in zip(names, spins)]


REQUESTS = [
    ("get", "ij", None), ("get", "iji", None), ("get", ["i3", "a"], None), ("get", "ia", "ab"), ("get", ["j3"], None),
    ("get", "i", "a"), ("get", ["p4", "p4"], ["b", "b"]),
    ("gen", {"occ": 2}, None), ("gen", {"occ": 1, "virt_a": 1}, None), ("gen", {"occ": 8}, None),
    ("gen", {"general_b": 1, "occ": 0}, None),
    ("sym", "ji", None), ("sym", "aia", "aba"),
    ("get", "ij", "a"), ("gen", {"occ_a_b": 1}, None),
]
TRIPLES = [(7, 4, 7), (2, 7, 7), (9, 4, 9), (7, 2, 9), (1, 11, 1), (8, 3, 8), (4, 9, 7), (6, 10, 6), (5, 0, 12), (12, 5, 3),
           (7, 7, 4), (2, 4, 9), (10, 6, 10), (11, 1, 0), (3, 12, 8)]


def _label(op):
    kind, a, b = op
    if kind == "gen":
        return "generic(" + ", ".join(f"{k}={v}" for k, v in a.items()) + ")"
    return f"{'get_indices' if kind == 'get' else 'get_symbols'}({a!r}{', ' + repr(b) if b is not None else ''})"


def _history(ctx, seq):
    """Evaluates one request history with the library code and with the reference; returns None or a message."""
    w = World(ctx, what="registry history")
    ref = RefRegistry()
    seen, ref_seen = {}, {}

    def num(table, x):
        return table.setdefault(x if not isinstance(x, Obj) else id(x), len(table))
    observed = []
    for step, op in enumerate(seq):
        kind, a, b = op
        if kind != "gen" and ref.names_generic(a, b):
            break       # an explicit request of a generic name: decided by the aliasing clause, the history ends here
        if kind == "get":
            o = w.outcome(f"{REG}.get_indices", self=w.reg, indices=a if isinstance(a, str) else list(a), spins=b if b is None or isinstance(b, str) else list(b))
        elif kind == "gen":
            o = w.outcome(f"{REG}.get_generic_indices", self=w.reg, kwargs=dict(a))
        else:
            o = w.outcome("indices:get_symbols", indices=a if isinstance(a, str) else list(a), spins=b)
        try:
            want = ref.get_indices(a, b) if kind == "get" else ref.generic(a) if kind == "gen" else ref.symbols(a, b)
        except ValueError:
            want = "raise"
        if o.kind != "return":
            got = "raise"
        elif kind == "sym":
            if not isinstance(o.value, list) or not all(isinstance(r, Obj) for r in o.value):
                return f"step {step + 1} {_label(op)} returns {o.value!r}"
            got = [(num(seen, r), r.attrs.get("name")) + tuple(w.space_spin(r)) for r in o.value]
            observed.extend(o.value)
        else:
            if not isinstance(o.value, dict) or not all(isinstance(v, list) and all(isinstance(r, Obj) for r in v) for v in o.value.values()):
                return f"step {step + 1} {_label(op)} returns {o.value!r}"
            got = []
            for key, recs in o.value.items():
                for r in recs:
                    if tuple(w.space_spin(r)) != tuple(key):
                        return (f"step {step + 1} {_label(op)}: the record {w.describe(r)} is listed under {key}")
                got.append((tuple(key), [(num(seen, r), r.attrs.get("name")) for r in recs]))
                observed.extend(recs)
        if want != "raise":
            if kind == "sym":
                want = [(num(ref_seen, i), nm, sp, s) for i, nm, sp, s in want]
            else:
                want = [(k, [(num(ref_seen, i), nm) for i, nm in v]) for k, v in want.items()]
        if got != want:
            return (f"step {step + 1} {_label(op)} gives {got}, the documented registry gives {want} "
                    "(numbers: identity of the record by first appearance in the history)")
    for r in observed:
        if w.cached(r) is not True:
            return f"the returned record {w.describe(r)} is not known to the registry afterwards (is_cached_index)"
    return None


def _generic_aliasing(ctx):
    """A name handed out by get_generic_indices is the name of a contracted index of some live (possibly cached)
    expression.  A later explicit request of that name (a user's target index string) must not deliver that very
    symbol: target and contracted index would be merged.  Either the request is refused or a distinct symbol is made."""
    rule = "R08d"
    fn = ctx.model.fn(f"{REG}.get_indices")
    found = []
    n = 0
    for request, spin in (({"occ": 1}, ""), ({"virt_a": 2}, "a"), ({"general": 9}, ""), ({"occ_b": 1, "virt": 1}, "")):
        for via in ("get_indices", "get_symbols"):
            w = World(ctx, what="generic aliasing")
            o = w.outcome(f"{REG}.get_generic_indices", self=w.reg, kwargs=dict(request))
            if o.kind != "return" or not isinstance(o.value, dict):
                continue        # the histories report a registry that does not hand out generic indices
            for key, recs in o.value.items():
                for g in recs:
                    if not isinstance(g, Obj):
                        continue
                    nm, sp = g.attrs.get("name"), w.space_spin(g)[1]
                    n += 1
                    if via == "get_indices":
                        o2 = w.outcome(fn, self=w.reg, indices=[nm], spins=[sp])
                        got = [r for v in o2.value.values() for r in v] if o2.kind == "return" and isinstance(o2.value, dict) else []
                    else:
                        o2 = w.outcome("indices:get_symbols", indices=[nm], spins=sp or None)
                        got = list(o2.value) if o2.kind == "return" and isinstance(o2.value, list) else []
                    if any(r is g for r in got):
                        found.append(f"get_generic_indices({', '.join(f'{k}={v}' for k, v in request.items())}) hands out "
                                     f"{w.describe(g)}; {via}({nm!r}{', ' + repr(sp) if sp else ''}) afterwards returns the same symbol")
    if not n:
        raise AnalysisError("R08d: no generic index was handed out in the aliasing scenarios")
    ctx.check(rule, fn, not found, f"{n} explicit requests of names that were handed out as generic indices: refused or distinct symbols",
              f"{len(found)} of {n} explicit requests of a name that was handed out as generic (contracted) index return that very symbol, "
              f"e.g. {found[0] if found else ''}: a user's target index (j3, i3, a3, ...) is merged with a contracted index of cached "
              "expressions", fn=f"{REG}.get_indices", key="explicit request aliases generic index")


def r08d(ctx):
    rule = "R08d"
    fn = ctx.model.fn(f"{REG}.get_indices")
    seqs = [(i,) for i in range(len(REQUESTS))] + list(itertools.product(range(len(REQUESTS)), repeat=2))
    if ctx.tier == "thorough":
        seqs += list(itertools.product(range(len(REQUESTS)), repeat=3))
    else:
        seqs += TRIPLES
    n = 0
    for s in seqs:
        seq = [REQUESTS[i] for i in s]
        label = " ; ".join(_label(op) for op in seq)
        msg = _history(ctx, seq)
        n += 1
        ctx.check(rule, fn, msg is None, f"history [{label}] behaves like the documented registry",
                  f"request history [{label}]: {msg}", fn=REG, key=f"history {label}")
    ctx.floor(rule, "request histories evaluated", n, 150)
    _generic_aliasing(ctx)
    # the constructor and the decoding properties: round trip over all (space, spin)
    w = World(ctx, what="_new_symbol")
    ns = ctx.model.fn(f"{REG}._new_symbol")
    for sp in BASE:
        for spin in ("", "a", "b"):
            o = w.outcome(ns, self=w.reg, name="x", space=sp, spin=spin)
            ok = o.kind == "return" and isinstance(o.value, Obj) and o.value.attrs.get("name") == "x" \
                and tuple(w.space_spin(o.value)) == (sp, spin)
            ctx.check(rule, ns, ok, f"_new_symbol(x, {sp}, {spin!r}) is decoded as ({sp}, {spin!r}) by Index.space / Index.spin",
                      f"_new_symbol('x', {sp!r}, {spin!r}) gives {o} which Index.space/Index.spin decode as "
                      f"{w.space_spin(o.value) if o.kind == 'return' and isinstance(o.value, Obj) else '-'}", key=f"new symbol {sp} {spin}")
    for sp, spin, why in (("core", "", "unknown space"), ("occ", "c", "unknown spin")):
        o = w.outcome(ns, self=w.reg, name="x", space=sp, spin=spin)
        ctx.check(rule, ns, o.kind == "raise", f"_new_symbol refuses an {why}", f"_new_symbol accepts the {why} {sp!r}/{spin!r}",
                  key=f"new symbol {why}")
    # get_symbols: Index inputs are returned as they are, nothing for nothing
    gs = ctx.model.fn("indices:get_symbols")
    recs = w.symbols("ja", None)
    if recs is None:
        ctx.bad(rule, gs, "get_symbols('ja') does not return the records of j and a in that order", key="get_symbols order")
    else:
        ctx.ok(rule, gs, "get_symbols('ja') -> [j, a]", key="get_symbols order")
        j, a = recs
        for arg, want, what in ((j, [j], "a single Index"), ([a, j], [a, j], "a list of Index"), ("", [], "an empty string"), ([], [], "an empty list")):
            o = w.outcome(gs, indices=arg, spins=None)
            ok = o.kind == "return" and isinstance(o.value, list) and len(o.value) == len(want) and all(x is y for x, y in zip(o.value, want))
            ctx.check(rule, gs, ok, f"get_symbols of {what}: returned unchanged", f"get_symbols of {what} gives {o}", key=f"get_symbols {what}")


# ---------------------------------------------------------------------- R08e


class _Sympy:
    """Model of the wrapped sympy expression: records what reaches ``subs`` and answers with a chosen result."""

    def __init__(self, name, result):
        self.obj = Obj(None, name)
        self.result = result
        self.got = []
        self.obj.attrs["subs"] = self._subs

    def _subs(self, sx, a, kw):
        self.got.append((list(a), dict(kw)))
        return self.result


def _term(counter, provided, sympy):
    t = Obj("expr_container:Term", "term")
    t.attrs.update(_idx_counter=tuple(counter), provided_target_idx=provided, sympy=sympy, assumptions={})
    return t


def _expected_parts(counter, provided):
    """(contracted, target) of a term by the documented convention."""
    if provided is not None:
        return [s for s, _ in counter if not any(s is p for p in provided)], list(provided)
    return [s for s, n in counter if n], [s for s, n in counter if not n]


# (names, spins, multiplicity - 1 per index, provided target (positions) or None)
TERMS = [
    ("klcia", None, [1, 1, 1, 0, 0], None),
    ("ji", None, [1, 1], None),
    ("jji", "baa", [1, 1, 0], None),
    ("mnkij", None, [1, 1, 1, 0, 0], None),
    ("ijab", None, [0, 0, 0, 0], [0, 2]),
    ("qpi", None, [1, 1, 1], None),
    ("iiab", "abab", [1, 1, 0, 1], None),
    ("ia", None, [0, 0], None),
    ("ijklmnoi1a", None, [1, 1, 1, 1, 1, 1, 1, 1, 0], None),
    ("kjcb", None, [1, 1, 1, 1], [1]),
]


def r08e(ctx):
    rule = "R08e"
    ZERO = Obj(None, "S.Zero")
    S = Obj(None, "S")
    S.attrs["Zero"] = ZERO
    spy = {}

    def spy_order(sx, a, kw):
        b = sx.bind(ctx.model.fn("indices:order_substitutions"), a, kw, False, True)
        spy["dict"] = dict(b["subsdict"]) if isinstance(b.get("subsdict"), dict) else b.get("subsdict")
        return NotImplemented       # ... and the library's own order_substitutions is evaluated
    w = World(ctx, what="substitute", hooks={"S": S, "order_substitutions": spy_order})
    n_eval = 0
    setup_ok = True
    for meth in ("substitute_contracted", "substitute_with_generic"):
        fn = ctx.model.fn(f"expr_container:Term.{meth}")
        for names, spins, mult, prov in TERMS:
            recs = w.symbols(names, spins)
            label = f"{meth} on {names}{'/' + spins if spins else ''} counts {mult} target {prov}"
            if recs is None:
                ctx.bad(rule, fn, f"{label}: the registry does not deliver the requested index records (see R08d)", key=f"{label} setup")
                setup_ok = False
                continue
            counter = list(zip(recs, mult))
            provided = tuple(recs[k] for k in prov) if prov is not None else None
            contracted, target = _expected_parts(counter, provided)
            everything = [s for s, _ in counter]
            # expected images
            want = {}
            if meth == "substitute_contracted":
                groups = {}
                for s in contracted:
                    groups.setdefault(tuple(w.space_spin(s)), []).append(s)
                for (sp, spin), grp in groups.items():
                    used = {t.attrs["name"] for t in target if tuple(w.space_spin(t)) == (sp, spin)}
                    for s, nm in zip(grp, _lowest(len(grp), used, sp)):
                        want[id(s)] = (nm, sp, spin)
            for flags, sympy_zero, subs_zero in (({}, False, False), ({}, False, True), ({}, True, True),
                                                 ({"return_sympy": True}, False, False), ({"return_sympy": False}, False, False),
                                                 ({"only_build_sub": True}, False, False)):
                if meth == "substitute_with_generic" and "only_build_sub" in flags:
                    continue
                result = ZERO if subs_zero else Obj(None, "substituted")
                sm = _Sympy("term.sympy", result)
                me = _term(counter, provided, ZERO if sympy_zero else sm.obj)
                if sympy_zero:
                    ZERO.attrs["subs"] = sm._subs
                before = len(w.created)
                spy.clear()
                o = w.outcome(fn, self=me, **flags)
                ZERO.attrs.pop("subs", None)
                n_eval += 1
                case = f"{label} {flags or ''}{' term is zero' if sympy_zero else ''}{' result is zero' if subs_zero else ''}"
                # (1) the zero guard / the returned value
                if subs_zero and not sympy_zero:
                    ctx.check(rule, fn, o.kind == "raise", f"{case}: a substitution that annihilates the term is refused",
                              f"{case}: the substitution turns a non-zero term into zero and the result is returned ({o})", key=f"{case} zero guard")
                    continue
                if o.kind != "return":
                    ctx.bad(rule, fn, f"{case}: raises {o.exc}", key=f"{case} outcome")
                    continue
                if flags.get("only_build_sub"):
                    ordered = _pairs(o.value)
                    ok_val = ordered is not None and not sm.got
                    what = "returns the ordered list without substituting"
                else:
                    ordered = _pairs(sm.got[0][0][0]) if len(sm.got) == 1 and len(sm.got[0][0]) == 1 and not sm.got[0][1] else None
                    want_sympy = flags.get("return_sympy", meth == "substitute_with_generic")
                    if want_sympy:
                        ok_val = o.value is result
                    else:
                        ok_val = isinstance(o.value, T) and o.value.op == "call" and o.value.args[0] == "Expr" \
                            and args_of(o.value).get("e") == result.term
                    what = "returns the substituted " + ("sympy object" if want_sympy else "expression wrapped as Expr")
                ctx.check(rule, fn, ok_val and ordered is not None, f"{case}: {what}",
                          f"{case}: expected that it {what} after one subs(list of pairs); got {o} with subs calls {sm.got}", key=f"{case} value")
                if ordered is None:
                    continue
                # (2) the map that is handed to order_substitutions
                d = spy.get("dict")
                if not isinstance(d, dict):
                    ctx.bad(rule, fn, f"{case}: order_substitutions is not called with the index map (got {d!r})", key=f"{case} map")
                    continue
                keys_ok = len(d) == len(contracted) and all(any(k is c for k in d) for c in contracted)
                ctx.check(rule, fn, keys_ok, f"{case}: exactly the contracted indices are renamed",
                          f"{case}: the renamed indices are {[w.describe(k) for k in d]}, the contracted indices are "
                          f"{[w.describe(c) for c in contracted]} (targets {[w.describe(t) for t in target]})", key=f"{case} keys")
                bad = []
                images = list(d.values())
                for k, v in d.items():
                    if not isinstance(v, Obj) or v.cls != IDX:
                        bad.append(f"{w.describe(k)} -> {v!r}")
                        continue
                    ss = tuple(w.space_spin(v))
                    if ss != tuple(w.space_spin(k)):
                        bad.append(f"{w.describe(k)} -> {w.describe(v)} changes space or spin")
                    if any(v is t for t in target):
                        bad.append(f"{w.describe(k)} -> {w.describe(v)} is a target index")
                    if sum(1 for x in images if x is v) > 1:
                        bad.append(f"{w.describe(v)} is the image of two indices")
                    if w.cached(v) is not True:
                        bad.append(f"{w.describe(v)} is not a registry record")
                    if meth == "substitute_contracted":
                        if id(k) in want and (v.attrs.get("name"),) + ss != want[id(k)]:
                            bad.append(f"{w.describe(k)} -> {w.describe(v)}, the lowest unused name of its space and spin gives "
                                       f"{want[id(k)][0]}{'_' + want[id(k)][2] if want[id(k)][2] else ''}")
                    elif not any(v is c for c in w.created[before:]):
                        bad.append(f"{w.describe(k)} -> {w.describe(v)} which existed before the call (not a fresh generic index)")
                    elif any(v is s for s in everything):
                        bad.append(f"{w.describe(k)} -> {w.describe(v)} which occurs in the term")
                ctx.check(rule, fn, not bad, f"{case}: images have the same space and spin, are no targets, injective, "
                          + ("lowest unused names" if meth == "substitute_contracted" else "unused generic indices"),
                          f"{case}: {'; '.join(bad[:3])}", key=f"{case} images")
                # (3) what reaches subs, applied pair by pair, is that map
                universe = everything + [v for v in images if isinstance(v, Obj) and not any(v is s for s in everything)]
                got = _apply_seq(ordered, universe)
                exp = [next((v for k, v in d.items() if k is s), s) for s in universe]
                ctx.check(rule, fn, all(g is e for g, e in zip(got, exp)), f"{case}: the list applied pair by pair equals the simultaneous map",
                          f"{case}: applying {[(w.describe(a), w.describe(b)) for a, b in ordered]} one after another maps "
                          f"{[w.describe(s) for s in universe]} to {[w.describe(g) for g in got]}, the simultaneous map gives "
                          f"{[w.describe(e) for e in exp]}", key=f"{case} sequential")
    if setup_ok:
        ctx.floor(rule, "evaluations of the substitute methods", n_eval, 60)
    # Term.contracted / Term.target: complementary parts of the index counter
    ct = ctx.model.fn("expr_container:Term.contracted")
    tg = ctx.model.fn("expr_container:Term.target")
    for names, spins, mult, prov in TERMS:
        recs = w.symbols(names, spins)
        if recs is None:
            continue
        counter = list(zip(recs, mult))
        provided = tuple(recs[k] for k in prov) if prov is not None else None
        wc, wt = _expected_parts(counter, provided)
        for f, want, what in ((ct, wc, "contracted"), (tg, wt, "target")):
            o = w.outcome(f, self=_term(counter, provided, None))
            ok = o.kind == "return" and isinstance(o.value, tuple) and len(o.value) == len(want) and all(x is y for x, y in zip(o.value, want))
            ctx.check(rule, f, ok, f"Term.{what} of {names} counts {mult} provided {prov}: {[w.describe(x) for x in want]}",
                      f"Term.{what} of the index counter {[(w.describe(s), n) for s, n in counter]} with provided target "
                      f"{None if provided is None else [w.describe(p) for p in provided]} gives {o}, expected {[w.describe(x) for x in want]}",
                      key=f"{what} {names} {mult} {prov}")


# ---------------------------------------------------------------------- R08f


def r08f(ctx):
    rule = "R08f"
    w = World(ctx, what="order_substitutions")
    fn = ctx.model.fn("indices:order_substitutions")
    idx = w.symbols("ijkl")
    if idx is None:
        ctx.bad(rule, fn, "the registry does not deliver the records of i, j, k, l (see R08d)", key="setup")
        return
    names = "ijkl"
    for images in itertools.product(list(range(4)) + [None], repeat=4):
        sub = {idx[o]: idx[n] for o, n in enumerate(images) if n is not None}
        show = "{" + ", ".join(f"{names[o]}->{names[n]}" for o, n in enumerate(images) if n is not None) + "}"
        o = w.outcome(fn, subsdict=dict(sub))
        ordered = _pairs(o.value) if o.kind == "return" else None
        if ordered is None:
            ctx.bad(rule, fn, f"order_substitutions on {show}: {o}", key=f"map {show}")
            continue
        cur = _apply_seq(ordered, idx)
        want = [sub.get(s, s) for s in idx]
        ctx.check(rule, fn, all(c is x for c, x in zip(cur, want)), f"{show}: sequential == simultaneous",
                  f"index map {show}: applying the ordered list {[(w.describe(a), w.describe(b)) for a, b in ordered]} one after "
                  f"another gives {[w.describe(c) for c in cur]}, the simultaneous substitution gives {[w.describe(x) for x in want]}",
                  key=f"map {show}")
    # get_lowest_avail_indices against the reference
    gl = ctx.model.fn("indices:get_lowest_avail_indices")
    cases = [("occ", [], 2), ("occ", ["i", "k"], 3), ("occ", list("ijklmno"), 2), ("virt", ["a", "b1"], 9), ("general", ["p", "q", "p1"], 8),
             ("occ", ["j1", "i"], 8), ("virt", [], 0), ("general", ["w"], 17), ("occ", ["i1", "i2", "o"], 15), ("virt", ["c"], 1)]
    for space, used, n in cases:
        for u in (list(used), set(used)):
            o = w.outcome(gl, n=n, used=u, space=space)
            want = _lowest(n, set(used), space)
            ctx.check(rule, gl, o.kind == "return" and o.value == want, f"lowest {n} free {space} names given {sorted(used)}: {want}",
                      f"get_lowest_avail_indices({n}, {sorted(used)}, {space}) gives {o}, expected {want}",
                      key=f"lowest {space} {sorted(used)} {n} {type(u).__name__}")
    sp = ctx.model.fn("indices:split_idx_string")
    for s in ("ij12a3b", "i", "a10b", "", "i1", "pq2r33", "abc"):
        o = w.outcome(sp, str_tosplit=s)
        ctx.check(rule, sp, o.kind == "return" and o.value == _split(s), f"split '{s}' -> {_split(s)}", f"split_idx_string('{s}') gives {o}",
                  key=f"split {s}")
    isp = ctx.model.fn("indices:index_space")
    for s in ("i", "o3", "a", "h12", "p", "w1", "m", "e2", "t"):
        o = w.outcome(isp, idx=s)
        ctx.check(rule, isp, o.kind == "return" and o.value == _space(s), f"{s} -> {_space(s)}", f"index_space('{s}') gives {o}", key=f"space {s}")
    o = w.outcome(isp, idx="x")
    ctx.check(rule, isp, o.kind == "raise", "unknown letters refused", "unknown index letters accepted", key="space x")
    # Container.permute: the list that reaches subs equals the transpositions applied one after another
    pm = ctx.model.fn("expr_container:Container.permute")
    transp = list(itertools.combinations(range(4), 2))
    seqs = [()] + [s for k in (1, 2, 3) for s in itertools.product(transp, repeat=k)]
    for perms in seqs:
        sm = _Sympy("container.sympy", Obj(None, "permuted"))
        me = Obj("expr_container:Container", "container")
        me.attrs.update(sympy=sm.obj, assumptions={})
        o = w.outcome(pm, self=me, perms=tuple((idx[a], idx[b]) for a, b in perms))
        state = list(idx)
        for a, b in perms:
            state = [idx[b] if s is idx[a] else idx[a] if s is idx[b] else s for s in state]
        show = " ".join(f"P_{names[a]}{names[b]}" for a, b in perms) or "no permutation"
        ordered = _pairs(sm.got[0][0][0]) if len(sm.got) == 1 and len(sm.got[0][0]) == 1 and not sm.got[0][1] else None
        if o.kind != "return" or ordered is None:
            ctx.bad(rule, pm, f"permute({show}): {o}; calls of subs: {sm.got}", key=f"permute {show}")
            continue
        res = _apply_seq(ordered, idx)
        ctx.check(rule, pm, all(r is s for r, s in zip(res, state)), f"{show}: composed list equals successive transpositions",
                  f"permute({show}): the list handed to subs {[(w.describe(a), w.describe(b)) for a, b in ordered]} applied pair by "
                  f"pair gives {[w.describe(r) for r in res]}, the transpositions one after another give {[w.describe(s) for s in state]}",
                  key=f"permute {show}")


# ---------------------------------------------------------------------- R08f: products of permutation operators


PCLASSES = {"o": ("il", None), "v": ("ab", None), "g": ("pq", None), "oa": ("ij", "aa"), "vb": ("ab", "bb"), "ob": ("ik", "bb"),
            "va": ("cd", "aa")}


def r08f_product(ctx):
    """PermutationProduct (the reordering constructor) evaluated: the stored order of the transpositions has to be
    the same permutation of every index tuple as the given sequence, i.e. only operators without a common index may
    change places.  Exhaustive over ordered sequences of distinct links between index classes (class = space + spin),
    each followed / preceded by one transposition inside every class that takes part."""
    rule = "R08f"
    new = ctx.model.fn("symmetry:PermutationProduct.__new__")
    pnew = ctx.model.fn("symmetry:Permutation.__new__")
    sup = Obj(None, "super")
    sup.attrs["__new__"] = lambda sx, a, kw: tuple(a[1])
    w = World(ctx, what="PermutationProduct", hooks={"super": lambda sx, a, kw: sup})
    sym_mod = ctx.model.module("symmetry")
    product_cls, perm_cls = ClassRef(sym_mod, "PermutationProduct"), ClassRef(sym_mod, "Permutation")
    idx = {}
    for c, (names, spins) in PCLASSES.items():
        recs = w.symbols(names, spins)
        if recs is None:
            ctx.bad(rule, new, "the registry does not deliver the requested index records (see R08d)", key="product setup")
            return
        idx[c] = recs
    universe = [r for recs in idx.values() for r in recs]
    cache = {}

    def transposition(x, y):
        if (id(x), id(y)) not in cache:
            v = w.call(pnew, cls=perm_cls, p=x, q=y)
            if not (isinstance(v, tuple) and len(v) == 2 and ((v[0] is x and v[1] is y) or (v[0] is y and v[1] is x))):
                raise _Failed(f"Permutation({w.describe(x)}, {w.describe(y)}) is {v!r}")
            cache[(id(x), id(y))] = v
        return cache[(id(x), id(y))]

    def apply(perms, items):
        cur = list(items)
        for p, q in perms:
            cur = [q if c is p else p if c is q else c for c in cur]
        return cur

    def show(perms):
        return " ".join(f"P[{w.describe(p)} {w.describe(q)}]" for p, q in perms) or "1"

    def evaluate(seq, label):
        o = w.outcome(new, cls=product_cls, args=tuple(seq))
        if o.kind != "return" or not isinstance(o.value, tuple) or not all(isinstance(x, tuple) and len(x) == 2 for x in o.value):
            ctx.bad(rule, new, f"PermutationProduct({show(seq)}): {o}", fn="symmetry:PermutationProduct", key=f"product {label}")
            return
        out = list(o.value)
        same_ops = len(out) == len(seq) and all(sum(1 for y in out if y is x) == sum(1 for y in seq if y is x) for x in seq)
        got, want = apply(out, universe), apply(seq, universe)
        ok = same_ops and all(g is x for g, x in zip(got, want))
        swapped = next(((show([a]), show([b])) for k, a in enumerate(seq) for b in seq[k + 1:]
                        if any(x is y for x in a for y in b) and any(u is b for u in out[:next((m for m, u in enumerate(out) if u is a), 0)])), None)
        ctx.check(rule, new, ok, f"{label}: the stored product is the given sequence up to operators without a common index",
                  f"PermutationProduct({show(seq)}) stores {show(out)}: "
                  + (f"{swapped[1]} was moved in front of {swapped[0]} although they share an index; " if swapped else "")
                  + f"applied one after another the given sequence maps {[w.describe(x) for x in universe]} to "
                  f"{[w.describe(x) for x in want]}, the stored product to {[w.describe(x) for x in got]}",
                  fn="symmetry:PermutationProduct", key=f"product {label}")

    five, four, spin4 = ["o", "v", "g", "oa", "vb"], ["o", "g", "oa", "v"], ["oa", "ob", "va", "vb"]
    # (classes, chain lengths, variants)
    if ctx.tier != "thorough":
        plans = [(five, (0, 1, 2), 2), (four, (3,), 3)]
    else:
        plans = [(five, (0, 1, 2, 3), 3), (four, (4,), 2), (spin4, (3,), 3), (list(PCLASSES), (2,), 2)]
    n = 0
    try:
        for names, lengths, variants in plans:
            links = list(itertools.combinations(names, 2))
            for k in lengths:
                for chain_ in itertools.permutations(links, k):
                    used = sorted({c for l in chain_ for c in l}, key=names.index) or names[:2]
                    link_ops = [transposition(idx[a][0], idx[b][0]) for a, b in chain_]
                    inner = [transposition(idx[c][0], idx[c][1]) for c in used]
                    label = ",".join(f"{a}-{b}" for a, b in chain_) or f"no link {names[0]} {names[1]}"
                    for seq, how in ((link_ops + inner, "links first"), (inner + link_ops, "links last"),
                                     (inner[::-1] + link_ops[::-1] + inner, "mixed"))[:variants]:
                        n += 1
                        evaluate(seq, f"{label} ({how})")
    except _Failed as e:
        ctx.bad(rule, pnew, str(e), fn="symmetry:Permutation", key="transposition")
        return
    ctx.floor(rule, "operator sequences handed to PermutationProduct", n, 500)


# ---------------------------------------------------------------------- R08g


def r08g(ctx):
    """minimize_tensor_indices on all index tuples of length <= 3 over {i,j,k,a,b} (+ spin cases)"""
    rule = "R08g"
    fn = ctx.model.fn("indices:minimize_tensor_indices")
    w = World(ctx, what="minimize_tensor_indices")
    plain = w.symbols("ijkab")
    spinful = w.symbols("ijiab", "aabab")
    if plain is None or spinful is None:
        ctx.bad(rule, fn, "the registry does not deliver the requested index records (see R08d)", key="setup")
        return
    pool = {(r.attrs["name"], ""): r for r in plain}
    pool.update({(r.attrs["name"], w.space_spin(r)[1]): r for r in spinful})

    def evaluate(tpl, tg, label):
        """tpl: tuple of (name, spin); tg: {(space, spin): [names]}"""
        inp = tuple(pool[x] for x in tpl)
        o = w.outcome(fn, tensor_indices=inp, target_idx_names={k: list(v) for k, v in tg.items()})
        if o.kind != "return" or not isinstance(o.value, tuple) or len(o.value) != 2:
            ctx.bad(rule, fn, f"minimize_tensor_indices on {label}: {o}", key=f"min {label}")
            return
        res, perms = o.value
        out = [(r.attrs.get("name"), w.space_spin(r)[1]) if isinstance(r, Obj) else r for r in res]
        # (1) the permutations reproduce the result
        cur = list(inp)
        for _, p, q in perms:
            cur = [q if c is p else p if c is q else c for c in cur]
        # (2) expected: targets stay, the others get the lowest free names of their (space, spin) in order of first appearance
        want_map = {}
        taken = {}
        for x in tpl:
            if x in want_map:
                continue
            key = (_space(x[0]), x[1])
            tnames = set(tg.get(key, ()))
            if x[0] in tnames:
                want_map[x] = x
                continue
            k = taken.get(key, 0)
            want_map[x] = (_lowest(k + 1, tnames, key[0])[k], x[1])
            taken[key] = k + 1
        want = [want_map[x] for x in tpl]
        fmt = lambda xs: " ".join(n + ("_" + s if s else "") for n, s in xs)
        same = len(cur) == len(res) and all(c is r for c, r in zip(cur, res))
        ctx.check(rule, fn, out == want and same, f"{label} -> {fmt(want)}",
                  f"minimize_tensor_indices({label}) gives {fmt(out) if all(isinstance(x, tuple) for x in out) else out} "
                  f"(the returned permutations give {[w.describe(c) for c in cur]}); the lowest unused non-target names in order of "
                  f"first appearance are {fmt(want)}", key=f"min {label}")
    names = ["i", "j", "k", "a", "b"]
    targets_list = [{}, {("occ", ""): ["j"]}, {("occ", ""): ["i"], ("virt", ""): ["a"]}, {("occ", ""): ["k", "j"]}]
    n = 0
    for length in (1, 2, 3):
        for tpl in itertools.product(names, repeat=length):
            for tg in targets_list:
                n += 1
                evaluate(tuple((x, "") for x in tpl), tg, f"{''.join(tpl)} targets={sorted(x for v in tg.values() for x in v)}")
    sp = [("i", "a"), ("j", "a"), ("i", "b"), ("a", "a"), ("b", "b")]
    for tpl in itertools.product(sp, repeat=2):
        for tg in ({}, {("occ", "a"): ["i"]}, {("occ", "b"): ["i"], ("virt", "a"): ["a"]}):
            n += 1
            evaluate(tpl, tg, f"{' '.join(a + '_' + s for a, s in tpl)} targets={sorted((k[1], x) for k, v in tg.items() for x in v)}")
    ctx.floor(rule, "index tuples minimised", n, 400)


def run(ctx):
    if ctx.want("R08a"):
        r08a(ctx, modules=None if ctx.tier == "thorough" else {"expr_container", "indices", "simplify", "func"})
    for r, f in (("R08b", r08b), ("R08c", r08c), ("R08d", r08d), ("R08e", r08e), ("R08f", r08f), ("R08f", r08f_product),
                 ("R08g", r08g)):
        if ctx.want(r):
            f(ctx)
