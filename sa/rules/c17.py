"""C17 generated contraction code (structural clauses)."""
from __future__ import annotations

import ast

from ..model import AnalysisError, U, Defs, calls_in, call_name, walk_fn, kwarg, enclosing, enclosing_stmt
from ..pathcond import conditions
from . import common
from . import c16

EXPLANATION = (
    "R17a: in format_contraction operand names and index strings are appended in the same branch, "
    "the einsum string joins the index strings in operand order and ends in the target string, "
    "inner contractions are looked up by name and a miss raises. R17b: every backend dispatch ends "
    "in NotImplementedError (format_contraction, format_scaling_comment, format_prefactor, "
    "_format_*_prefactor). R17c: tensor names are translated by equality with the configured name "
    "(plus block suffix), never by startswith. R17d: sign pairing in format_prefactor and "
    "format_perm_symmetry; rational/sqrt formats. R17e: generate_code hands the same targets, spin, "
    "bra-ket symmetry and tensor class to exploit_perm_sym, strips separators afterwards, forwards "
    "targets/limits to the scheme builders, emits inner contractions before the single outer one. "
    "Also R16a/R16g (scheme shape and closure), which the emitted program depends on.")
ASSUMPTIONS = ["that the emitted program evaluates to the expression is not decided"]

GC = "generate_code.generate_code:"


def r17a(ctx):
    rule = "R17a"
    fn = ctx.model.fn(GC + "format_contraction")
    app = {U(c.func.value): c for c in calls_in(fn) if call_name(c) == "append"}
    need = {"tensors", "idx_str", "factors"}
    if not need <= set(app):
        raise AnalysisError("format_contraction: operand lists changed")
    t, i, f = app["tensors"], app["idx_str"], app["factors"]
    same = enclosing_stmt(t)._parent is enclosing_stmt(i)._parent
    ct, ci, cf = conditions(t), conditions(i), conditions(f)
    ctx.check(rule, t, same and ("indices", True) in ct and ("indices", True) in ci,
              "operand name and its index string appended together", "operand names and index strings can get out of step",
              key="aligned append")
    ctx.check(rule, f, ("indices", False) in cf, "objects without indices are factors", "factor branch changed", key="factors")
    ctx.check(rule, i, U(i.args[0]) == "''.join((idx.name for idx in indices))", "index string = names of the object's indices in order",
              f"index string built as `{U(i.args[0])}`", key="idx string")
    tg = [a for a in common.assigns_to(fn, "target")]
    ctx.check(rule, fn, len(tg) == 1 and U(tg[0].value) == "''.join((idx.name for idx in contraction.target))",
              "target string = names of the contraction's target indices in order", "target string changed", key="target string")
    lp = [n for n in walk_fn(fn) if isinstance(n, ast.For)]
    ctx.check(rule, fn, bool(lp) and U(lp[0].iter) == "zip(contraction.names, contraction.indices)", "names and indices zipped",
              "operand iteration changed", key="zip")
    # cache lookup
    ra = [n for n in walk_fn(fn) if isinstance(n, ast.Raise) and any(pol and t2.endswith("is None") for t2, pol in conditions(n))]
    lk = [a for a in walk_fn(fn) if isinstance(a, ast.Assign) and U(a.value) == "contraction_cache.get(name, None)"]
    ok = bool(ra) and len(lk) == 1 and ("Contraction.is_contraction(name)", True) in conditions(lk[0])
    ctx.check(rule, fn, ok, "inner contraction looked up by name, miss raises", "inner-contraction lookup changed", key="cache")
    es = ctx.model.fn(GC + "format_einsum_contraction")
    cs = [a for a in common.assigns_to(es, "contr_str")]
    ok = len(cs) == 1 and U(cs[0].value) in ("f'\"{','.join(indices)}->{target}\"'", "f\"\\\"{','.join(indices)}->{target}\\\"\"")
    ctx.check(rule, es, ok or (len(cs) == 1 and "','.join(indices)" in U(cs[0].value) and "->{target}" in U(cs[0].value)
                               and U(cs[0].value).index("join(indices)") < U(cs[0].value).index("->{target}")),
              "einsum string: operand index strings, '->', target", f"einsum string is `{U(cs[0].value) if cs else None}`", key="einsum string")
    ap = [c for c in calls_in(es) if call_name(c) == "append" and "einsum(" in U(c)]
    ok = len(ap) == 1 and "', '.join(tensors)" in U(ap[0]) and U(ap[0]).index("contr_str") < U(ap[0]).index("join(tensors)")
    ctx.check(rule, es, ok, "einsum(string, operands in the same order)", "einsum call assembly changed", key="einsum call")
    sp = [n for n in walk_fn(es) if isinstance(n, ast.If) and "len(tensors) == 1" in U(n.test)]
    ok = len(sp) == 1 and U(sp[0].test) == "len(tensors) == 1 and indices[0] == target"
    ctx.check(rule, es, ok, "bare tensor only if its index order is the target order", "single-tensor shortcut changed", key="einsum shortcut")
    r = common.returns_of(es)
    ctx.check(rule, es, len(r) == 1 and U(r[0].value) == "' * '.join(components)", "factors and contraction multiplied", "return changed",
              key="einsum return")
    lt = ctx.model.fn(GC + "format_libtensor_contraction")
    branches = {}
    for c in calls_in(lt):
        if call_name(c) in ("append", "extend") and U(c.func.value) == "components":
            conds = conditions(c)
            key = tuple(sorted((t2, pol) for t2, pol in conds if t2 in ("contracted", "target", "contracted and target",
                                                                         "not contracted and target", "contracted and (not target)")))
            branches[U(c.args[0])[:20]] = conds
    ok = any("contract(" in k for k in branches) and any("dot_product" in k for k in branches)
    ctx.check(rule, lt, ok, "contract / outer product / dot_product branches present", "libtensor branches changed", key="libtensor branches")
    for k, conds in branches.items():
        if "contract(" in k:
            ctx.check(rule, lt, ("contracted", True) in conds and ("target", True) in conds, "contract: summed and target indices",
                      "contract branch condition changed", key="lt contract")
        if "dot_product" in k:
            ctx.check(rule, lt, ("contracted", True) in conds and ("target", False) in conds, "dot_product: no target index",
                      "dot_product branch condition changed", key="lt dot")
    fc = [c for c in calls_in(fn) if call_name(c) == "format_libtensor_contraction"]
    ok = len(fc) == 1 and U(kwarg(fc[0], "contracted")) == "contraction.contracted" and U(kwarg(fc[0], "target")) == "target"
    ctx.check(rule, fn, ok, "libtensor gets the contraction's summed indices", "libtensor call changed", key="lt call")
    nm = [a for a in walk_fn(fn) if isinstance(a, ast.Assign) and U(a.targets[0]) == "name" and "'|'.join" in U(a.value)]
    ctx.check(rule, fn, len(nm) == 1 and U(nm[0].value).strip("f'\"") == "{name}({'|'.join((idx.name for idx in indices))})",
              "libtensor operand: name(i|j|...)", "libtensor operand format changed", key="lt operand")


def r17b(ctx):
    rule = "R17b"
    for name in ("format_contraction", "format_scaling_comment", "format_prefactor"):
        fn = ctx.model.fn(GC + name)
        chains = [n for n in walk_fn(fn) if isinstance(n, ast.If) and U(n.test) == "backend == 'einsum'"
                  and not (isinstance(n._parent, ast.If) and n in n._parent.orelse)]
        n_ok = 0
        for ch in chains:
            node = ch
            while len(node.orelse) == 1 and isinstance(node.orelse[0], ast.If):
                node = node.orelse[0]
            tail = node.orelse
            ends = bool(tail) and isinstance(tail[-1], ast.Raise) and "NotImplementedError" in U(tail[-1])
            tests = []
            n2 = ch
            while True:
                tests.append(U(n2.test))
                if len(n2.orelse) == 1 and isinstance(n2.orelse[0], ast.If):
                    n2 = n2.orelse[0]
                else:
                    break
            if "backend == 'libtensor'" in tests and ends:
                n_ok += 1
                ctx.ok(rule, ch, f"{name}: einsum / libtensor / NotImplementedError")
            elif "backend == 'libtensor'" in tests:
                ctx.bad(rule, ch, f"{name}: backend dispatch does not end in NotImplementedError", key=f"{name} exhaustive")
        # format_contraction's first chain is elif inside the cache test: look for the final dispatch too
        any_raise = [n for n in walk_fn(fn) if isinstance(n, ast.Raise) and "NotImplementedError" in U(n)
                     and ("backend == 'einsum'", False) in conditions(n) and ("backend == 'libtensor'", False) in conditions(n)]
        ctx.check(rule, fn, bool(any_raise), f"{name}: unknown backend refused", f"{name}: unknown backends are not refused",
                  key=f"{name} refuse")
    for name in ("_format_python_prefactor", "_format_cpp_prefactor"):
        fn = ctx.model.fn(GC + name)
        last = fn.body[-1]
        ctx.check(rule, fn, isinstance(last, ast.Raise) and "NotImplementedError" in U(last), f"{name}: unknown prefactor kinds refused",
                  f"{name}: falls through without NotImplementedError", key=f"{name} refuse")


def r17c(ctx):
    rule = "R17c"
    n = 0
    for name in ("translate_adcc_names", "translate_libadc_names"):
        fn = ctx.model.fn(GC + name)
        for c in calls_in(fn):
            if call_name(c) in ("startswith", "endswith") and c.args and "tensor_names." in U(c.args[0]):
                n += 1
                ctx.bad(rule, c, f"{name}: tensor `{U(c.args[0])}` is recognised by prefix; every tensor whose name merely starts "
                        "with the configured name is emitted as that Hamiltonian block", key=f"{name} {U(c.args[0])}")
        tests = [t for n2 in walk_fn(fn) if isinstance(n2, ast.If) for t in [U(n2.test)] if "tensor_names." in t]
        for t in tests:
            if "startswith" in t or "endswith" in t:
                continue
            ok = " == " in t
            ctx.check(rule, fn, ok, f"{name}: `{t}` compares for equality", f"{name}: `{t}` is not an equality test", key=f"{name} {t}")
    # positive fixture
    fix = ast.parse("def f(name):\n    if name.startswith(tensor_names.eri):\n        return 1\n")
    if not any(call_name(c) == "startswith" and "tensor_names." in U(c.args[0]) for c in ast.walk(fix) if isinstance(c, ast.Call)):
        raise AnalysisError("R17c fixture")
    for name, want in (("translate_adcc_names", {"tensor_names.eri": "f'hf.{space}'", "tensor_names.fock": "f'hf.f{space}'"}),
                       ("translate_libadc_names", {"tensor_names.eri": "f'i_{space}'"})):
        fn = ctx.model.fn(GC + name)
        got = {}
        for r in common.returns_of(fn):
            for t, pol in conditions(r):
                for k in want:
                    if pol and k in t:
                        got[k] = U(r.value)
        ctx.check(rule, fn, got == want, f"{name}: Hamiltonian blocks named by their space", f"{name}: translation table is {got}",
                  key=f"{name} table")
        sp = [a for a in walk_fn(fn) if isinstance(a, ast.Assign) and U(a.targets[0]) == "space"]
        ctx.check(rule, fn, bool(sp) and all(U(a.value) == "''.join((s.space[0] for s in indices))" for a in sp),
                  f"{name}: block = spaces of the operand's indices in order", f"{name}: block string changed", key=f"{name} space")
        last = common.returns_of(fn)[-1]
        ctx.check(rule, fn, U(last.value) == "name", f"{name}: other names unchanged", f"{name}: default return changed", key=f"{name} default")


def r17d(ctx):
    rule = "R17d"
    fn = ctx.model.fn(GC + "format_prefactor")
    sg = {}
    for a in walk_fn(fn):
        if isinstance(a, ast.Assign) and U(a.targets[0]) == "sign":
            cs = conditions(a)
            sg["neg" if ("number_pref < 0", True) in cs else "pos" if ("number_pref < 0", False) in cs else "?"] = U(a.value)
    ctx.check(rule, fn, sg == {"neg": "'-'", "pos": "'+'"}, "sign '-' iff the prefactor is negative", f"sign table {sg}", key="sign")
    ng = [a for a in walk_fn(fn) if isinstance(a, ast.AugAssign) and U(a.target) == "number_pref"]
    ok = len(ng) == 1 and U(ng[0].value) == "-1" and isinstance(ng[0].op, ast.Mult) and ("number_pref < 0", True) in conditions(ng[0])
    ctx.check(rule, fn, ok, "magnitude printed after the sign", "negation of the negative prefactor changed", key="negate")
    npf = [a for a in common.assigns_to(fn, "number_pref") if isinstance(a, ast.Assign)]
    ctx.check(rule, fn, bool(npf) and U(npf[0].value) == "term.prefactor", "numeric prefactor of the term", "prefactor source changed",
              key="pref source")
    sy = [a for a in common.assigns_to(fn, "symbol_pref")]
    ok = False
    elt = None
    if len(sy) == 1 and isinstance(sy[0].value, ast.Call) and call_name(sy[0].value) == "join" and sy[0].value.args \
            and isinstance(sy[0].value.args[0], (ast.ListComp, ast.GeneratorExp)):
        comp = sy[0].value.args[0]
        gens = comp.generators
        elt = U(comp.elt)
        ok = len(gens) == 2 and U(gens[0].iter) == "term.objects" and [U(i) for i in gens[0].ifs] == ["isinstance(obj.base, Symbol)"] \
            and U(gens[1].iter) == "range(obj.exponent)" and U(sy[0].value.func.value) == "' * '"
    ctx.check(rule, fn, ok, "symbols printed exponent-many times", "symbolic prefactor changed", key="symbols")
    # Obj.name is defined for tensors only (None otherwise): under the Symbol guard it is None and join() fails
    nm = ctx.model.fn("expr_container:Obj.name")
    tensor_only = [U(n.test) for n in walk_fn(nm) if isinstance(n, ast.If)] == ["isinstance(self.base, SymbolicTensor)"] \
        and len(common.returns_of(nm)) == 1
    ctx.check(rule, fn, not (elt == "obj.name" and tensor_only), "symbol printed by the symbol's own name",
              "symbolic prefactors are printed with `obj.name`, which Obj.name defines for tensors only (None for a Symbol): "
              "' * '.join([None]) raises TypeError for every expression with a symbolic prefactor", key="symbol name source")
    rets = {("sym" if ("symbol_pref", True) in conditions(r) else "nosym"): U(r.value) for r in common.returns_of(fn)}
    ctx.check(rule, fn, rets == {"sym": "f'{sign} {number_pref} * {symbol_pref}'", "nosym": "f'{sign} {number_pref}'"},
              "sign, number, symbols", f"returns {rets}", key="returns")
    ps = ctx.model.fn(GC + "format_perm_symmetry")
    c = [a for a in walk_fn(ps) if isinstance(a, ast.Assign) and U(a.targets[0]) == "contrib"]
    ok = len(c) == 1 and U(c[0].value) == "['+ '] if factor == 1 else ['- ']"
    ctx.check(rule, ps, ok, "'+ ' iff factor +1, '- ' iff -1", f"permutation sign is `{U(c[0].value) if c else None}`", key="perm sign")
    asr = [n for n in walk_fn(ps) if isinstance(n, ast.Assert)]
    ctx.check(rule, ps, any(U(a.test) == "factor in [1, -1]" for a in asr), "only factors +-1", "factor assertion removed", key="perm assert")
    lp = [n for n in walk_fn(ps) if isinstance(n, ast.For) and U(n.iter) == "perm_symmetry"]
    ctx.check(rule, ps, len(lp) == 1 and U(lp[0].target) == "(permutations, factor)", "every (permutations, factor) pair printed",
              "iteration over the symmetry changed", key="perm loop")
    ini = [a for a in common.assigns_to(ps, "perm_sym")]
    ctx.check(rule, ps, len(ini) == 1 and U(ini[0].value) == "['1']", "identity first", "identity operator missing", key="perm identity")
    py = ctx.model.fn(GC + "_format_python_prefactor")
    cpp = ctx.model.fn(GC + "_format_cpp_prefactor")

    def table(fn):
        out = {}
        for r in common.returns_of(fn):
            conds = sorted(t for t, pol in conditions(r) if pol)
            out[conds[-1] if conds else "?"] = U(r.value)
        return out
    tp, tc = table(py), table(cpp)
    ctx.check(rule, py, tp.get("isinstance(prefactor, Rational)") == "f'{prefactor.p} / {prefactor.q}'",
              "python: rational printed p / q", f"python rational format {tp.get('isinstance(prefactor, Rational)')}", key="py rational")
    ctx.check(rule, cpp, tc.get("isinstance(prefactor, Rational)") == "f'{float(prefactor.p)} / {float(prefactor.q)}'",
              "c++: rational printed p / q as floats", f"c++ rational format {tc.get('isinstance(prefactor, Rational)')}", key="cpp rational")
    ctx.check(rule, py, any("sqrt({prefactor.args[0]})" in v for v in tp.values()), "python: sqrt(n)", "python sqrt format changed", key="py sqrt")
    ctx.check(rule, cpp, any("constants::sq{prefactor.args[0]}" in v for v in tc.values()), "c++: constants::sqN", "c++ sqrt format changed",
              key="cpp sqrt")
    for f, t in ((py, tp), (cpp, tc)):
        sq = [k for k in t if "prefactor.args[1] == 0.5" in k]
        ctx.check(rule, f, bool(sq) or any("args[1] == 0.5" in U(n.test) for n in walk_fn(f) if isinstance(n, ast.If)),
                  f"{f.name}: square roots recognised by exponent 1/2", f"{f.name}: sqrt test changed", key=f"{f.name} sqrt test")
        mul = [v for k, v in t.items() if "isinstance(prefactor, Mul)" in k]
        ctx.check(rule, f, bool(mul) and f"' * '.join(({f.name}(pref) for pref in prefactor.args))" == mul[0],
                  f"{f.name}: products printed factor by factor", f"{f.name}: Mul format changed", key=f"{f.name} mul")


def r17e(ctx):
    rule = "R17e"
    fn = ctx.model.fn(GC + "generate_code")
    ep = [c for c in calls_in(fn) if call_name(c) == "exploit_perm_sym"]
    ok = len(ep) == 1 and {k.arg: U(k.value) for k in ep[0].keywords} == {
        "expr": "expr", "target_indices": "target_indices", "target_spin": "target_spin", "bra_ket_sym": "bra_ket_sym",
        "antisymmetric_result_tensor": "antisymmetric_result_tensor"} and not ep[0].args
    ctx.check(rule, fn, ok, "symmetry analysis with the same targets, spin, bra-ket symmetry, tensor class",
              "arguments handed to exploit_perm_sym changed", key="exploit args")
    strips = [a for a in walk_fn(fn) if isinstance(a, ast.Assign) and "replace(',', '')" in U(a.value)]
    ok = len(strips) == 2 and all(s.lineno > ep[0].lineno for s in strips) if ep else False
    ctx.check(rule, fn, ok, "separators stripped after the symmetry analysis", "separator stripping moved or removed", key="strip order")
    for name, want in (("optimize_contractions", {"term": "term", "target_indices": "target_indices", "target_spin": "target_spin",
                                                  "max_itmd_dim": "max_itmd_dim",
                                                  "max_n_simultaneous_contracted": "max_n_simultaneous_contracted"}),
                       ("unoptimized_contraction", {"term": "term", "target_indices": "target_indices", "target_spin": "target_spin"})):
        cs = [c for c in calls_in(fn) if call_name(c) == name]
        ok = len(cs) == 1 and {k.arg: U(k.value) for k in cs[0].keywords} == want
        ctx.check(rule, fn, ok, f"{name}: targets, spin and limits forwarded", f"{name}: arguments changed", key=f"{name} args")
        if cs:
            pol = name == "optimize_contractions"
            ctx.check(rule, cs[0], ("optimize_contraction_scheme", pol) in conditions(cs[0]), f"{name} selected by the flag",
                      f"{name} not selected by optimize_contraction_scheme", key=f"{name} flag")
    cond = [n for n in walk_fn(fn) if isinstance(n, ast.If) and "contraction_name in" in U(n.test)]
    ok = len(cond) == 1 and U(cond[0].test) == "any((contr.contraction_name in other_contr.names for other_contr in contractions[i + 1:]))" \
        and "inner.append(contr)" in U(cond[0].body[0]) and "outer.append(contr)" in U(cond[0].orelse[0])
    ctx.check(rule, fn, ok, "inner = result used by a later contraction", "inner/outer classification changed", key="inner outer")
    asr = [n for n in walk_fn(fn) if isinstance(n, ast.Assert) and U(n.test) == "len(outer) == 1"]
    ctx.check(rule, fn, len(asr) == 1, "exactly one outer contraction", "single-outer assertion removed", key="one outer")
    ch = [a for a in walk_fn(fn) if isinstance(a, ast.Assign) and U(a.targets[0]) == "contraction_cache[contr.contraction_name]"]
    ctx.check(rule, fn, len(ch) == 1 and U(ch[0].value) == "contr_str", "inner strings cached under the contraction's name",
              "cache store changed", key="cache store")
    ap = [c for c in calls_in(fn) if call_name(c) == "append" and U(c.func.value) == "contraction_code"]
    texts = sorted(U(c.args[0]) for c in ap)
    ctx.check(rule, fn, texts == ["f'{prefactor} * {contr_str}  {scaling_comment}'", "prefactor"],
              "line = prefactor * contraction", f"emitted lines are {texts}", key="line")
    pf = [c for c in calls_in(fn) if call_name(c) == "format_prefactor"]
    ctx.check(rule, fn, len(pf) == 1 and [U(a) for a in pf[0].args] == ["term", "backend"], "prefactor of the term for the backend",
              "format_prefactor arguments changed", key="prefactor call")
    lp = [n for n in walk_fn(fn) if isinstance(n, ast.For) and U(n.iter) == "expr_with_perm_sym.items()"]
    ctx.check(rule, fn, len(lp) == 1 and U(lp[0].target) == "(perm_symmetry, sub_expr)", "every symmetry class emitted",
              "iteration over symmetry classes changed", key="classes")
    tl = [n for n in walk_fn(fn) if isinstance(n, ast.For) and U(n.iter) == "sub_expr.terms"]
    ctx.check(rule, fn, len(tl) == 1, "every term of a class emitted", "term iteration changed", key="terms")
    if tl:
        conts = [n for n in walk_fn(tl[0]) if isinstance(n, ast.Continue)]
        ok = len(conts) == 1 and ("term.idx", False) in conditions(conts[0])
        ctx.check(rule, tl[0], ok, "only pure numbers bypass the contraction", "terms skipped under another condition", key="term skip")


def run(ctx):
    for r, f in (("R17a", r17a), ("R17b", r17b), ("R17c", r17c), ("R17d", r17d), ("R17e", r17e)):
        if ctx.want(r):
            f(ctx)
    if ctx.want("R16a"):
        c16.r16a(ctx)
    if ctx.want("R16b"):
        c16.r16b(ctx)
    if ctx.want("R16g"):
        c16.r16g(ctx)
