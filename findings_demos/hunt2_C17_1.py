"""
C17 / defect 1: the einsum backend emits subscripts that are not single
letters for indices with a number in their name (i3, a12, ...), e.g. for the
raw (generic, numbered contracted indices) result of GroundState.energy or for
user indices like 'i1'. numpy.einsum (and every other einsum implementation)
treats every character as a subscript and only accepts letters, i.e., the
emitted program can not be evaluated / does not evaluate to the expression.

Run from the worktree root:  /venv/bin/python hunt_out/1/demo.py
exit code 1: defect present, exit code 0: fixed
"""
import itertools
import logging
import os
import random
import sys
from fractions import Fraction

sys.path.insert(0, os.getcwd())
logging.disable(logging.CRITICAL)

from adcgen import Expr, GroundState, Operators, generate_code  # noqa E402
from adcgen.indices import get_symbols  # noqa E402
from adcgen.sympy_objects import AntiSymmetricTensor, Amplitude  # noqa E402

NO, NV = 2, 3
DIM = {"o": NO, "v": NV}
rng = random.Random(1)


def rand_tensor(space):
    return {idx: rng.randint(-4, 4)
            for idx in itertools.product(*(range(DIM[s]) for s in space))}, \
        tuple(DIM[s] for s in space)


def einsum(spec, *ops):
    """Minimal einsum with the numpy semantics: one character = one
    subscript, subscripts have to be letters."""
    lhs, out = spec.split("->")
    ins = lhs.split(",")
    for c in lhs.replace(",", "") + out:
        if not c.isalpha():
            raise ValueError(f"invalid subscript '{c}' in einstein sum "
                             f"subscripts string '{spec}', subscripts must "
                             "be letters")
    if len(ins) != len(ops):
        raise ValueError("number of operands does not match the subscripts")
    dims = {}
    for sub, (_, shape) in zip(ins, ops):
        if len(sub) != len(shape):
            raise ValueError(f"operand has {len(shape)} dimensions, but "
                             f"subscripts '{sub}' has {len(sub)}")
        for c, n in zip(sub, shape):
            if dims.setdefault(c, n) != n:
                raise ValueError(f"dimension mismatch for subscript {c}")
    summed = [c for c in dims if c not in out]
    res = {}
    for o in itertools.product(*(range(dims[c]) for c in out)):
        env = dict(zip(out, o))
        tot = 0
        for s in itertools.product(*(range(dims[c]) for c in summed)):
            env.update(zip(summed, s))
            p = 1
            for sub, (data, _) in zip(ins, ops):
                p *= data[tuple(env[c] for c in sub)]
            tot += p
        res[o] = tot
    if not out:
        return res[()]
    return res, tuple(dims[c] for c in out)


class HF:
    pass


def run(code, namespace):
    """evaluates the single line of generated code"""
    lines = code.split("\n")
    assert lines[1] == "Apply 1 to:" and len(lines) == 3, code
    line = lines[2].split("  #")[0]
    sign, rest = line[0], line[2:]
    pref, call = rest.split(" * ", 1)
    pref = Fraction(pref) * (-1 if sign == "-" else 1)
    return pref, eval(call, namespace)


failed = False

# --- case 1: the raw second order MP energy (numbered generic indices)
h = Operators(variant="mp")
mp = GroundState(h, first_order_singles=False)
e2 = Expr(mp.energy(2), real=True)
code = generate_code(e2, "", backend="einsum")
print("expression:", e2)
print(code)
t2 = rand_tensor("oovv")
eri = rand_tensor("oovv")
hf = HF()
hf.oovv = eri
expected = Fraction(-1, 4) * sum(t2[0][k] * eri[0][k] for k in t2[0])
try:
    pref, val = run(code, {"einsum": einsum, "t2_1": t2, "hf": hf})
    got = pref * val
    print(f"expected {expected}, generated code gives {got}")
    if got != expected:
        failed = True
except Exception as exc:
    print(f"generated code can not be evaluated: {type(exc).__name__}: {exc}")
    failed = True

# --- case 2: user defined indices with numbers:  r_{i1 a1} = f_{i1 i2} Y_{i2 a1}
i1, i2, a1 = get_symbols("i1i2a1")
expr = Expr(AntiSymmetricTensor("f", (i1,), (i2,), 1)
            * Amplitude("Y", (a1,), (i2,)))
code = generate_code(expr, "i1a1", backend="einsum")
print("\nexpression:", expr)
print(code)
foo = rand_tensor("oo")
# f has bra-ket symmetry
for (p, q) in list(foo[0]):
    foo[0][(q, p)] = foo[0][(p, q)]
ur1 = rand_tensor("ov")
hf = HF()
hf.foo = foo
expected = {(i, a): sum(foo[0][(i, j)] * ur1[0][(j, a)] for j in range(NO))
            for i in range(NO) for a in range(NV)}
try:
    pref, val = run(code, {"einsum": einsum, "ur1": ur1, "hf": hf})
    got = {k: pref * v for k, v in val[0].items()}
    ok = got == expected and val[1] == (NO, NV)
    print("generated code reproduces the expression:", ok)
    if not ok:
        failed = True
except Exception as exc:
    print(f"generated code can not be evaluated: {type(exc).__name__}: {exc}")
    failed = True

sys.exit(1 if failed else 0)
