"""C07 simplify: decision tables and conservation laws by abstract evaluation.

Nothing here looks at source text.  ``simplify.find_compatible_terms`` and ``simplify.simplify`` are evaluated by
``sa.symex`` on small abstract inputs (terms whose index patterns, descriptions and target indices are chosen by the
rule; ``order_substitutions``, ``.subs`` and the sympy type/zero tests stay uninterpreted and fork the evaluation), and
every path is compared with expectations that are written down independently below: the set of admissible index maps
(brute force over bijections), the acceptance table of a candidate, the partition bookkeeping (every term exactly once)
and the sum that ``simplify`` has to return.  The fingerprint functions of expr_container (``Obj.description``,
``Obj.crude_pos``, ``Term.coupling``, ``Term.pattern``) are evaluated on tables of small tensors and compared with an
independent statement of *which* objects/indices have to share a fingerprint (partition equality, equivariance under
renaming of contracted indices), never with the strings themselves.
"""
from __future__ import annotations

import itertools

from ..model import AnalysisError
from ..symex import Symex, Obj
from ..terms import T, sym, show, expand_products, is_num, subterms, t_add, canon
from . import c08

EXPLANATION = (
    "All rules evaluate the library functions abstractly (sa.symex); no rule compares source text, local names or "
    "statement layout. R07a/R07b/R07c evaluate simplify.find_compatible_terms (everything defined in simplify.py is "
    "evaluated through, also nested and extracted helpers) on lists of abstract terms whose index patterns, object "
    "descriptions and target indices are chosen by the rule; order_substitutions, .subs, `X is S.Zero` and "
    "isinstance(.., Add) stay uninterpreted, so every combination of their answers is one path (the larger tables are "
    "evaluated for non-vanishing substitutions only). On every path: R07b - the index maps that are tried are exactly "
    "the admissible ones computed independently by brute force (bijections other->term inside one (space, spin) class "
    "with equal index patterns, contracted onto contracted, a target index only onto itself; all spaces combined), and "
    "two terms stay separate only if every admissible map was rejected; R07a - a map is accepted only as the result of "
    "order_substitutions, only after isinstance(term.sympy -/+ other_term.sympy.subs(<that map>), Add) was answered "
    "False, and only if a spurious zero (substituted term is S.Zero while the term is not) is refuted on the path; a "
    "rejection needs `is a sum` or a spurious zero; R07c - every term index occurs exactly once in the result (as key "
    "or as matched term), only terms of the same prefilter class (descriptions without prefactors, index subspaces "
    "shared by two objects, pattern sizes, target indices - stated independently) are compared or merged, terms of "
    "one class are all compared, fingerprints are requested with target names and exponents, valid input never raises, "
    "non-Term input is refused; simplify.simplify (expanded and unexpanded abstract expressions) returns sum_keys t_i + "
    "sum_matched t_j.subs(<ordered map accepted on this path for (i, j)>) with every term of the *expanded* expression "
    "exactly once and coefficient one, returns the expression itself only if the expanded expression has one term, and "
    "refuses non-Expr input with Inputerror. R07d: the substitution sites of simplify.py obey the ordered-substitution "
    "discipline (R08a, owned by C08). R07e: Obj.description and Obj.crude_pos evaluated on a table of tensors (types, "
    "names, spaces, exponents, target sets, bra-ket symmetry 0/+1/-1, both orientations; all four switch settings): "
    "two objects / index positions get the same fingerprint iff they agree in type, name, spaces, exponent, target "
    "names and - only without bra-ket symmetry - upper/lower orientation (for +-1 the orientation must not matter), "
    "neighbour spaces and neighbour target names (partition equality, the strings themselves are not compared); "
    "crude_pos lists every index once per occurrence; Term.coupling (objects with opaque fingerprints) equals the "
    "multiset of positions of the shared indices on the other objects, for repeated descriptions only; Term.pattern "
    "groups by (space, spin), lists every index once and gives two indices the same pattern iff their multisets of "
    "(position, coupling of the object) agree, whatever the order of the objects; with everything evaluated through, "
    "the pattern of a renamed term is the renamed pattern for renamings of contracted indices that flip the canonical "
    "bra/ket orientation and reorder the objects (thorough: sweep over all renamings of a family of terms). R07f (call "
    "history): find_compatible_terms and simplify are evaluated twice on one path (module-level mutable state of "
    "simplify.py is part of the evaluated state and carried from the first call to the second) on a matrix of input "
    "pairs (A, B) that wrap the same sympy terms in containers with different provided target indices, in another order "
    "or next to new terms; on every path the second call returns exactly what B returns alone under the same decisions. "
    "R07g (order of Expr.terms): simplify is evaluated for every order of the terms of abstract expressions, with a model "
    "of sympy (terms of one chosen class are equivalent: their difference is not a sum) answering the uninterpreted tests "
    "and with the text of Term.substitute_contracted chosen per term; for every order the sum has one unchanged term per "
    "class and all others substituted, the sum is the same for every order, and the unchanged term of a class is the one "
    "with the smallest canonical text (for tied texts only the number of terms is required). R07h (premise of the merge "
    "test): for terms and renamings incl. index names that tie in (number, letter) - j / j0, two different indices called "
    "i - the renamed term, also written with its bra-ket (anti)symmetric tensors in the other orientation, is brought "
    "into canonical form with indices.sort_idx_canonical and AntiSymmetricTensor._need_bra_ket_swap evaluated from the "
    "source and mapped back: it has to be the canonical form of the term again, otherwise the map that "
    "find_compatible_terms finds is discarded because term - other.subs(map) stays a sum; the R07e equivariance checks "
    "use the same evaluated canonical form. R07i (views follow the container): an Expr record is initialised by "
    "Expr.__init__ from the source around a wrapped sum of small tensor products; Expr.terms, Term.__init__/sympy/objects/"
    "target/contracted/pattern/coupling, Obj.__init__/description/crude_pos and the mutators set_target_idx, set_sym_tensors, "
    "set_antisym_tensors, make_real are evaluated from the source with the per-instance memoisation of misc.cached_member / "
    "cached_property modelled on the records (tables kept in _function_cache / _property_cache of the instance, so code that "
    "clears them is honoured). For every listed history (explicit targets -> Einstein convention, -> fewer / more explicit "
    "targets, declared bra-ket (anti)symmetry followed by a change of the targets, real orbitals, ...) everything simplify reads "
    "off the views handed out by Expr.terms AFTER the last mutator (wrapped term, target, contracted, provided targets, real / "
    "sym / antisym tensors, pattern, descriptions, positions) is (1) the same whether or not the terms and their fingerprints "
    "were read before each mutator, (2) target / contracted / provided targets equal the independently computed ones (sorted "
    "provided tuple, or the indices occurring once), also seen from the objects, and (3) the descriptions obey the R07e "
    "partition for the CURRENT target indices and tensor symmetries.")
ASSUMPTIONS = [
    "completeness of the pattern fingerprints for arbitrary terms (that alpha-equivalent terms are always found) is "
    "decided only on the listed tables of small tensors/terms (bounded)",
    "sympy semantics of .subs, Add and S.Zero are modelled, not analysed; of the canonical form of AntiSymmetricTensor the "
    "sort key and the swap decision are evaluated from the source, that the constructor sorts each part by the key and "
    "then swaps is modelled (decided by C06); spin is left empty in all tables; different index objects have different "
    "dummy_index values",
    "that `term - substituted_other is not an Add` implies proportionality of the two terms is sympy behaviour (assumed)",
    "assumptions/target indices of the returned Expr are carried by Container.__radd__/__iadd__ and are not visible "
    "in the evaluated sum",
    "the `length` component of the prefilter key is implied by the tuple of descriptions and is not checked separately; "
    "which term of a class becomes the key of find_compatible_terms (the first of its input - R07g prescribes the order "
    "simplify hands over) and the order in which maps are tried are not prescribed",
    "find_compatible_terms / simplify are evaluated for at most five terms and 24 maps per pair (bounded)",
    "R07f: histories of two calls on the listed input pairs; the sympy content of a term is an individual (equal iff the "
    "same term), assumptions other than the target indices are taken to be reflected in the sympy content (sym_tensors / "
    "real modify the tensors themselves); in R07f state outside simplify.py (cached_member of the containers) is not modelled - "
    "that is R07i",
    "R07i: the per-instance memoisation of misc.cached_member / cached_property is modelled (result stored per instance and "
    "argument tuple with defaults filled in), not evaluated from misc.py; Term._apply_tensor_braket_sym / Term.make_real / "
    "sympy.Add / sympify / get_symbols are modelled on the tensor tables (a new wrapped object with the declared symmetry / "
    "real names); Expr.__getattr__ / Term.__getattr__ delegate `args` to the wrapped object (modelled); histories of at most "
    "three mutators on the listed expressions (bounded); only views obtained from Expr.terms after the last mutator are "
    "constrained - a Term object the caller kept from before is a stale view in the library as it is and is not judged",
]

FCT = "simplify:find_compatible_terms"
SIMP = "simplify:simplify"
OCC = "ijklmn"


def _space(name):
    return "occ" if name[0] in OCC else "virt"


def _inline_simplify(q):
    # everything defined in simplify.py is evaluated through (also a helper that a refactoring extracts)
    return q.startswith("simplify:")


# ---------------------------------------------------------------------------------------------------------------------
# abstract world for find_compatible_terms / simplify


class World:
    """Index records shared by all terms of one path."""

    def __init__(self):
        self.I = {}

    def idx(self, name):
        """Index record for the label ``name``; ``i#2`` is a second, different index that is also called ``i``."""
        if name not in self.I:
            sp = _space(name)
            o = Obj(None, name)
            o.attrs.update(name=name.split("#")[0], space=sp, spin="", space_and_spin=(sp, ""), _classes={"Index"},
                           dummy_index=int.from_bytes(name.encode(), "big"))     # one number per individual
            self.I[name] = o
        return self.I[name]

    def tup(self, names):
        return tuple(self.idx(n) for n in names)

    def content(self, name):
        """The sympy content of a term: one record per term, shared by all Term containers that wrap it (the same
        term inside expressions with different assumptions)."""
        key = ("sympy", name)
        if key not in self.I:
            self.I[key] = Obj(None, f"{name}.sympy")
        return self.I[key]


_CLS = {"anti": {"AntiSymmetricTensor", "SymbolicTensor"}, "nonsym": {"NonSymmetricTensor", "SymbolicTensor"},
        "delta": {"KroneckerDelta"}, "pref": {"Number"}, "symbol": {"Symbol"}}


def tspec(target, pattern, objs=(("A", "anti", "", ""),), canon=None):
    """One abstract term: target names, {space: {index name: [pattern tokens]}}, objects (descr, class, upper, lower);
    ``canon``: the text of the term once its contracted indices are replaced by the lowest available ones."""
    return dict(target=target, pattern=pattern, objs=tuple(objs), canon=canon)


def build_terms(w, specs, prefix="t", sids=None):
    """Term records for the specs; ``sids`` (default: the positions) name the sympy contents the terms wrap."""
    out = []
    for pos_, sp in enumerate(specs):
        k = sids[pos_] if sids is not None else pos_
        t = Obj("expr_container:Term", f"{prefix}{k}")
        objs = []
        for n, (descr, cl, up, lo) in enumerate(sp["objs"]):
            base = Obj(None, f"{prefix}{k}.b{n}")
            base.attrs.update(_classes=set(_CLS[cl]), upper=w.tup(up), lower=w.tup(lo), name=descr, idx=w.tup(up + lo))
            o = Obj("expr_container:Obj", f"{prefix}{k}.o{n}")
            o.attrs.update(_descr=descr, base=base, idx=w.tup(up + lo), term=t, exponent=1, name=descr,
                           type_as_str={"anti": "antisymtensor", "nonsym": "nonsymtensor", "delta": "delta", "pref": "prefactor", "symbol": "symbol"}[cl])
            objs.append(o)
        names = [i for d in sp["pattern"].values() for i in d]
        t.attrs.update(target=w.tup(sp["target"]), objects=tuple(objs), sympy=w.content(f"{prefix}{k}"),
                       # the indices the term holds are those its pattern speaks about (none: a number / symbols)
                       idx=w.tup(names), contracted=w.tup([i for i in names if i not in sp["target"]]),
                       provided_target_idx=w.tup(sp["target"]), _n=max(1, len(objs)),
                       _canon=sp.get("canon") or f"{prefix}{k:03d}",
                       _pattern={(s, ""): {w.idx(i): list(p) for i, p in d.items()} for s, d in sp["pattern"].items()})
        out.append(t)
    return out


class Probe:
    """Hooks of the uninterpreted vocabulary; records what the evaluated code asked for."""

    def __init__(self, nonzero=False):
        self.bad_flags = []
        self.nonzero = nonzero      # scenario restricted to substitutions that do not annihilate the term (fewer paths)

    def hooks(self):
        def pattern(sx, a, kw):
            flags = dict(zip(("include_target_idx", "include_exponent"), a[1:]))
            flags.update(kw)
            if any(v is not True for v in flags.values()):
                self.bad_flags.append(("pattern", tuple(sorted(flags.items()))))
            return a[0].attrs["_pattern"]

        def description(sx, a, kw):
            flags = dict(zip(("include_exponent", "include_target_idx"), a[1:]))
            flags.update(kw)
            if any(v is not True for v in flags.values()):
                self.bad_flags.append(("description", tuple(sorted(flags.items()))))
            return a[0].attrs["_descr"]

        def order_substitutions(sx, a, kw):
            d = a[0] if a else kw.get("subsdict")
            if not isinstance(d, dict) or not all(isinstance(k, Obj) and isinstance(v, Obj) for k, v in d.items()):
                return NotImplemented
            return ("ORD", tuple(sorted((k.name, v.name) for k, v in d.items())))

        def subs(sx, a, kw):
            r = a[0].term if isinstance(a[0], Obj) else a[0]
            arg = a[1] if len(a) == 2 and not kw else ("?", _fz(a[1:]), _fz(kw))
            tok = T("subs", r, _fz(arg))
            if self.nonzero:
                for op in ("is", "=="):
                    sx.assume(T("cmp", op, *sorted((tok, sym("S.Zero")), key=repr)), False)
            return tok

        def length(sx, a, kw):
            if len(a) == 1 and isinstance(a[0], Obj) and "_n" in a[0].attrs:
                return a[0].attrs["_n"]
            return NotImplemented

        def expand(sx, a, kw):
            e = a[0]
            if not isinstance(e, Obj) or "_n" not in e.attrs:
                return NotImplemented
            if not e.attrs["_expanded"]:
                e.attrs.update(_expanded=True, _n=len(e.attrs["_exp_terms"]), terms=tuple(e.attrs["_exp_terms"]))
            return e
        def substitute_contracted(sx, a, kw):
            # the term with the lowest available contracted indices: an object whose text is chosen by the scenario
            return Obj(None, a[0].attrs["_canon"])

        def expr_ctor(sx, a, kw):
            # Expr(<number>, **assumptions): the wrapped number (start value of a sum)
            return a[0] if a and is_num(a[0]) else NotImplemented

        def add_ctor(sx, a, kw):
            # sympy.Add(*summands)
            if kw or not all(isinstance(x, (T, Obj)) or is_num(x) for x in a):
                return NotImplemented
            return t_add(*[x.term if isinstance(x, Obj) else x for x in a])
        return {"Term.pattern": pattern, "Obj.description": description, "order_substitutions": order_substitutions,
                "subs": subs, "len": length, "Expr.expand": expand, "Expr": expr_ctor, "Add": add_ctor,
                "Term.substitute_contracted": substitute_contracted}


def _fz(v):
    if isinstance(v, Obj):
        return v.term
    if isinstance(v, dict):
        return ("dict",) + tuple((_fz(k), _fz(x)) for k, x in v.items())
    if isinstance(v, (list, tuple)):
        return tuple(_fz(x) for x in v)
    return v


# ------------------------------------------------------------------------------------------ independent expectations

def prefilter_class(sp):
    """Terms are comparable iff: same descriptions of the non-prefactor objects, same subspaces shared by two objects
    with more than one common index, same number of indices per (space, spin), same target indices."""
    objs = [o for o in sp["objs"] if o[0] != "prefactor"]
    descr = tuple(sorted(o[0] for o in objs))
    parts = []
    for d, cl, up, lo in objs:
        if cl == "anti":
            parts.append((d, (set(up), set(lo))))
        elif cl in ("nonsym", "delta"):
            parts.append((d, (set(up + lo), set())))
    shared = []
    for (d1, p1), (d2, p2) in itertools.combinations(parts, 2):
        for a in p1:
            for b in p2:
                if len(a & b) > 1:
                    shared.append(("".join(sorted(_space(x)[0] for x in a & b)),) + tuple(sorted((d1, d2))))
    sizes = tuple(sorted((s, len(d)) for s, d in sp["pattern"].items()))
    return (descr, tuple(sorted(shared)), sizes, tuple(sp["target"]))


def candidates(sp_i, sp_j):
    """Admissible index maps other (j) -> term (i): per space a bijection that preserves the index pattern, maps
    contracted onto contracted indices and a target index only onto itself."""
    tgt = set(sp_i["target"])
    per_space = []
    if not any(sp_i["pattern"].values()) or not any(sp_j["pattern"].values()):
        return set()        # no index to rename: such terms are equal or not, sympy has merged the equal ones
    for s, pi in sp_i["pattern"].items():
        pj = sp_j["pattern"].get(s)
        if pj is None or len(pj) != len(pi):
            return set()
        A, B = list(pi), list(pj)
        maps = []
        for perm in itertools.permutations(A):
            ok = True
            for b, a in zip(B, perm):
                if sorted(pj[b]) != sorted(pi[a]) or (a in tgt) != (b in tgt) or (a in tgt and a != b):
                    ok = False
                    break
            if ok:
                maps.append(tuple(zip(B, perm)))
        if not maps:
            return set()
        per_space.append(maps)
    out = set()
    for combo in itertools.product(*per_space):
        out.add(tuple(sorted(p for m in combo for p in m)))
    return out


# ------------------------------------------------------------------------------------------------- reading a path

def _term_no(t, prefix="t"):
    """i for `t<i>` / `t<i>.sympy`."""
    if isinstance(t, T) and t.op == "attr" and t.args[1] == "sympy":
        t = t.args[0]
    if isinstance(t, T) and t.op == "sym":
        nm = str(t.args[0])
        if nm.endswith(".sympy"):
            nm = nm[:-len(".sympy")]
        if nm.startswith(prefix) and nm[len(prefix):].isdigit():
            return int(nm[len(prefix):])
    return None


def _is_content(t):
    """`t<i>.sympy` (the wrapped sympy object, not the container)."""
    return isinstance(t, T) and (t.op == "attr" and t.args[1] == "sympy" or t.op == "sym" and str(t.args[0]).endswith(".sympy"))


def _sub_token(t):
    """(j, map key | None, raw argument) for `t<j>[.sympy].subs(arg)`."""
    if isinstance(t, T) and t.op == "subs":
        j = _term_no(t.args[0])
        arg = t.args[1]
        key = arg[1] if isinstance(arg, tuple) and len(arg) == 2 and arg[0] == "ORD" else None
        return j, key, arg
    return None


def _is_zero_sym(x):
    return isinstance(x, T) and x.op == "sym" and str(x.args[0]).split(".")[-1] == "Zero"


class PathFacts:
    def __init__(self, outcome):
        self.A, self.Z, self.Ozero, self.odd = {}, {}, {}, []
        self.raw_subs = []          # substitutions that were tried with something else than an ordered map
        for atom, pol in outcome.path:
            if atom.op == "isinstance" and atom.args[1] == "Add":
                p = self._diff(atom.args[0])
                if p is None:
                    self.odd.append((atom, pol))
                else:
                    i, j, key, arg = p
                    if key is None:
                        self.raw_subs.append((i, j, arg))
                    self.A[(i, j, key if key is not None else ("raw", arg))] = pol
                continue
            if atom.op == "cmp" and atom.args[0] in ("is", "==") and any(_is_zero_sym(x) or x == 0 for x in atom.args[1:]):
                other = [x for x in atom.args[1:] if not (_is_zero_sym(x) or (is_num(x) and x == 0))]
                if len(other) == 1:
                    st = _sub_token(other[0])
                    if st is not None and st[0] is not None:
                        self.Z[(st[0], st[1] if st[1] is not None else ("raw", st[2]))] = pol
                        continue
                    j = _term_no(other[0])
                    if j is not None:
                        self.Ozero[j] = pol
                        continue
            self.odd.append((atom, pol))

    @staticmethod
    def _diff(x):
        """term_i.sympy -/+ term_j.sympy.subs(map)  ->  (i, j, key, raw arg)"""
        ps = expand_products(x)
        if len(ps) != 2 or any(len(fs) != 1 or c not in (1, -1) for c, fs in ps):
            return None
        a, b = ps[0][1][0], ps[1][1][0]
        for u, v in ((a, b), (b, a)):
            i, st = _term_no(u), _sub_token(v)
            if i is not None and _is_content(u) and st is not None and st[0] is not None:
                return i, st[0], st[1], st[2]
        return None

    def rejected(self, i, j, key):
        """The path holds a valid reason to discard the map: the difference is a sum, or a spurious zero."""
        if self.A.get((i, j, key)) is True:
            return True
        return self.Z.get((j, key)) is True and self.Ozero.get(j) is False

    def accepted_properly(self, i, j, key):
        """None if the acceptance of the map is justified on this path, else (clause, text)."""
        if self.A.get((i, j, key)) is not False:
            return ("single term", f"map of t{j} onto t{i} accepted without `t{i} - t{j}.subs(map)` having been found not to be a sum")
        # spurious zero = the substituted term is 0 and the term itself is not; acceptance needs one of the two refuted
        z, oz = self.Z.get((j, key)), self.Ozero.get(j)
        if z is False or oz is True:
            return None
        if z is None:
            return ("spurious zero", f"map of t{j} onto t{i} accepted without testing whether it annihilates t{j}")
        return ("spurious zero", f"map of t{j} onto t{i} accepted although it turns the non-zero t{j} into 0")


# ---------------------------------------------------------------------------------------------------- the verifier

class Tally:
    """Collects per (rule, clause) the number of paths examined and the first failure."""

    def __init__(self):
        self.n, self.fail = {}, {}

    def see(self, rule, clause, ok, msg=""):
        k = (rule, clause)
        self.n[k] = self.n.get(k, 0) + 1
        if not ok and k not in self.fail:
            self.fail[k] = msg

    def flush(self, ctx, node, scen, facts):
        for (rule, clause), n in sorted(self.n.items()):
            if not ctx.want(rule):
                continue
            ctx.check(rule, node, (rule, clause) not in self.fail, f"{scen}: {facts.get(clause, clause)} ({n} path(s))",
                      f"{scen}: {self.fail.get((rule, clause))}", key=f"{scen} / {clause}")


FACTS = {
    "conservation": "every term is a key or matched to exactly one key",
    "prefilter": "only terms of the same prefilter class are compared or merged",
    "classes compared": "terms of one class that stay separate were compared (admissible maps were tried)",
    "no raise": "valid input is processed without an exception",
    "flags": "patterns/descriptions taken with target indices and exponents included",
    "legal maps": "only admissible index maps are tried",
    "all maps tried": "terms stay separate only after every admissible map was rejected",
    "ordered": "substitutions are applied and returned as order_substitutions results",
    "tested term": "the sum test is applied to term.sympy -/+ other_term.sympy.subs(map)",
    "single term": "a map is accepted only if the difference is not a sum",
    "spurious zero": "a map that annihilates the other term is never accepted",
    "decisions": "all decisions of the path are about substituted terms",
    "result shape": "result is {key: {matched: substitution}}",
}


def verify_partition(tl, specs, o, zero_checked=True):
    """One path of find_compatible_terms against the expectations."""
    n = len(specs)
    cls = [prefilter_class(s) for s in specs]
    pf = PathFacts(o)
    tl.see("R07c", "no raise", o.kind == "return", f"raises {o.exc} on a list of valid terms")
    if o.kind != "return":
        return None
    R = o.value
    shape = isinstance(R, dict) and all(isinstance(k, int) and isinstance(v, dict) and all(isinstance(j, int) for j in v)
                                        for k, v in R.items())
    tl.see("R07c", "result shape", shape, f"result is {show(R)[:200]}")
    if not shape:
        return None
    seen = list(R) + [j for v in R.values() for j in v]
    tl.see("R07c", "conservation", sorted(seen) == list(range(n)),
           f"term indices in the result are {sorted(seen)} (keys {sorted(R)}), expected each of 0..{n - 1} exactly once: a term would be "
           "dropped or added twice by simplify")
    # decisions the analysis does not understand
    odd_add = [a for a, p in pf.odd if a.op == "isinstance"]
    tl.see("R07a", "tested term", not odd_add and not any(k[0] == k[1] for k in pf.A),
           f"sum test applied to {show(odd_add[0].args[0])[:200] if odd_add else 'a term and itself'} instead of term.sympy - "
           "other_term.sympy.subs(<candidate map>)")
    rest = [a for a, p in pf.odd if a.op != "isinstance"]
    if rest:
        raise AnalysisError(f"C07: decision outside the modelled vocabulary on a path of find_compatible_terms: {show(rest[0])[:200]}")
    # everything that was tried
    tried = set(pf.A) | {(None, j, k) for (j, k) in pf.Z}
    raw = [k for k in tried if isinstance(k[2], tuple) and k[2][:1] == ("raw",)]
    tl.see("R07a", "ordered", not raw, f"substitution applied without order_substitutions: {show(raw[0][2][1])[:160] if raw else ''}")
    for (i, j, key) in sorted(pf.A, key=repr):
        if isinstance(key, tuple) and key[:1] == ("raw",):
            continue
        same = cls[i] == cls[j] if i < n and j < n else False
        tl.see("R07c", "prefilter", same, f"t{i} and t{j} are compared although their prefilter classes differ "
               f"({_cls_diff(cls[i], cls[j]) if i < n and j < n else '?'})")
        legal = key in candidates(specs[i], specs[j]) if i < n and j < n else False
        tl.see("R07b", "legal maps", legal, f"map {_showmap(key)} of t{j} onto t{i} is tried; admissible: "
               f"{sorted(_showmap(c) for c in candidates(specs[i], specs[j])) if i < n and j < n else '?'}")
    # stored matches
    for i, v in R.items():
        for j, val in v.items():
            if not (0 <= i < n and 0 <= j < n):
                continue
            tl.see("R07c", "prefilter", cls[i] == cls[j], f"t{j} merged into t{i} although their prefilter classes differ")
            is_ord = isinstance(val, tuple) and len(val) == 2 and val[0] == "ORD"
            tl.see("R07a", "ordered", is_ord, f"stored substitution for t{j} -> t{i} is {show(val)[:160]}, not an order_substitutions result")
            if not is_ord:
                # what was accepted can still be examined through the raw key
                key = ("raw", _fz(val))
            else:
                key = val[1]
                tl.see("R07b", "legal maps", key in candidates(specs[i], specs[j]),
                       f"stored map {_showmap(key)} of t{j} onto t{i} is not admissible")
            why = pf.accepted_properly(i, j, key)
            for clause in ("single term", "spurious zero") if zero_checked else ("single term",):
                tl.see("R07a", clause, why is None or why[0] != clause, why[1] if why else "")
    # keys of one class must have been compared and all admissible maps rejected
    keys = sorted(R)
    for a, b in itertools.combinations(keys, 2):
        if not (a < n and b < n) or cls[a] != cls[b]:
            continue
        cands = candidates(specs[a], specs[b])
        if not cands:
            continue
        israw = lambda k: isinstance(k, tuple) and k[:1] == ("raw",)
        if any(k[:2] in ((a, b), (b, a)) and israw(k[2]) for k in pf.A) or any(j in (a, b) and israw(k) for j, k in pf.Z):
            continue        # compared with unordered maps: reported by the `ordered` clause
        touched = [c for c in cands if (a, b, c) in pf.A or (b, c) in pf.Z]
        rev = [c for c in candidates(specs[b], specs[a]) if (b, a, c) in pf.A or (a, c) in pf.Z]
        if not touched and rev:
            # roles exchanged (later term as reference): judge that direction
            a, b, cands, touched = b, a, candidates(specs[b], specs[a]), rev
        tl.see("R07c", "classes compared", bool(touched),
               f"t{a} and t{b} have the same prefilter class and stay separate without any of the {len(cands)} admissible maps "
               f"(e.g. {_showmap(sorted(cands)[0])}) having been tried")
        if touched:
            miss = [c for c in cands if not pf.rejected(a, b, c)]
            tl.see("R07b", "all maps tried", not miss,
                   f"t{a} and t{b} stay separate although the admissible map {_showmap(miss[0]) if miss else ''} was not rejected "
                   "(neither found to give a sum nor to be a spurious zero)")
    return pf


def _showmap(key):
    try:
        return "{" + ", ".join(f"{a}->{b}" for a, b in key) + "}"
    except Exception:
        return show(key)[:120]


def _cls_diff(c1, c2):
    names = ("descriptions", "shared index subspaces", "pattern sizes", "target indices")
    return ", ".join(nm for nm, x, y in zip(names, c1, c2) if x != y) or "-"


# --------------------------------------------------------------------------------------------------------- scenarios

def P(**spaces):
    return {s: {i: list(p) for i, p in d.items()} for s, d in spaces.items()}


def fct_scenarios(tier):
    A = ("A", "anti", "", "")
    sc = {
        "two contracted indices, two maps": [
            tspec("", P(occ={"i": ["p"], "j": ["p"]})), tspec("", P(occ={"k": ["p"], "j": ["p"]}))],
        "target next to contracted indices of equal pattern, two spaces": [
            tspec("ia", P(occ={"i": ["p"], "j": ["p"], "k": ["q"]}, virt={"a": ["r"], "b": ["r"]})),
            tspec("ia", P(occ={"i": ["p"], "l": ["p"], "k": ["q"]}, virt={"c": ["r"], "a": ["r"]}))],
        "two different target indices of equal pattern": [
            tspec("ij", P(occ={"i": ["p"], "j": ["p"], "k": ["q"]})), tspec("ij", P(occ={"j": ["p"], "i": ["p"], "l": ["q"]}))],
        "patterns without admissible map": [
            tspec("", P(occ={"i": ["p"], "j": ["q"]})), tspec("", P(occ={"k": ["p"], "l": ["p"]}))],
        "index without partner": [
            tspec("", P(occ={"i": ["p"], "j": ["q"]})), tspec("", P(occ={"k": ["x"], "l": ["q"]}))],
        "three terms of one class": [
            tspec("", P(occ={"i": ["p"]})), tspec("", P(occ={"j": ["p"]})), tspec("", P(occ={"k": ["p"]}))],
        "two classes of two terms": [
            tspec("", P(occ={"i": ["p"]})), tspec("", P(occ={"j": ["p"]}), [("B", "anti", "", "")]),
            tspec("", P(occ={"k": ["p"]})), tspec("", P(occ={"l": ["p"]}), [("B", "anti", "", "")])],
        "different target indices": [
            tspec("i", P(occ={"i": ["p"]})), tspec("", P(occ={"i": ["p"]}))],
        "different target index names": [
            tspec("i", P(occ={"i": ["p"], "k": ["q"]})), tspec("j", P(occ={"j": ["p"], "k": ["q"]}))],
        "different descriptions": [
            tspec("", P(occ={"i": ["p"]})), tspec("", P(occ={"j": ["p"]}), [("B", "anti", "", "")])],
        "different number of objects": [
            tspec("", P(occ={"i": ["p"]}), [A, A]), tspec("", P(occ={"j": ["p"]}), [A])],
        "different pattern sizes": [
            tspec("", P(occ={"i": ["p"]}, virt={"a": ["q"]})), tspec("", P(occ={"j": ["p"]}))],
        "different shared index subspaces": [
            tspec("", P(occ={"i": ["p"], "j": ["p"]}), [("A", "anti", "ij", ""), ("B", "anti", "ij", "")]),
            tspec("", P(occ={"i": ["p"], "j": ["p"]}), [("A", "anti", "ij", ""), ("B", "anti", "i", "j")])],
        "shared subspace of delta/nonsym objects": [
            tspec("", P(occ={"i": ["p"], "j": ["p"]}), [("A", "nonsym", "ij", ""), ("B", "delta", "ij", "")]),
            tspec("", P(occ={"k": ["p"], "l": ["p"]}), [("A", "nonsym", "kl", ""), ("B", "delta", "kl", "")])],
        "prefactors do not count": [
            tspec("", P(occ={"i": ["p"]}), [("prefactor", "pref", "", ""), A]), tspec("", P(occ={"j": ["p"]}), [A])],
    }
    NUM, SYM = ("prefactor", "pref", "", ""), ("symbol", "symbol", "", "")
    sc["number and symbol next to two alike terms"] = [
        tspec("", {}, [NUM]), tspec("", P(occ={"i": ["p"]})), tspec("", {}, [NUM, SYM]), tspec("", P(occ={"j": ["p"]}))]
    sc["two different products of symbols"] = [tspec("", {}, [SYM]), tspec("", {}, [SYM, SYM]), tspec("", {}, [NUM, SYM])]
    sc["only a number"] = [tspec("", {}, [NUM])]
    # names that share number and letter (i / i0) and two different indices with the same name
    sc["index names that tie in number and letter"] = [
        tspec("", P(occ={"i": ["p"], "i0": ["p"]})), tspec("", P(occ={"j0": ["p"], "j": ["p"]}))]
    sc["two different indices with the same name"] = [
        tspec("", P(occ={"i": ["p"], "i#2": ["q"]})), tspec("", P(occ={"i#2": ["p"], "i": ["q"]}))]
    sc["target index that one term does not hold"] = [
        tspec("ij", P(occ={"i": ["p"], "k": ["q"]})), tspec("ij", P(occ={"i": ["p"], "j": ["q"]}))]
    # larger tables, evaluated for substitutions that do not annihilate the term (the zero test is exercised above)
    nz = {
        "three indices of equal pattern, six maps": [
            tspec("", P(occ={"i": ["p"], "j": ["p"], "k": ["p"]})), tspec("", P(occ={"l": ["p"], "m": ["p"], "n": ["p"]}))],
        "four terms of one class": [tspec("", P(occ={x: ["p"]})) for x in "ijkl"],
        "two spaces, two maps each": [
            tspec("", P(occ={"i": ["p"], "j": ["p"]}, virt={"a": ["r"], "b": ["r"]})),
            tspec("", P(occ={"k": ["p"], "l": ["p"]}, virt={"c": ["r"], "d": ["r"]}))],
        "three indices, one of them a target": [
            tspec("j", P(occ={"i": ["p"], "j": ["p"], "k": ["p"]})), tspec("j", P(occ={"l": ["p"], "j": ["p"], "m": ["p"]}))],
    }
    if tier == "thorough":
        sc.update(nz)       # also with the zero test forking
        nz["four indices of equal pattern, 24 maps"] = [
            tspec("", P(occ={x: ["p"] for x in "ijkl"})), tspec("", P(occ={x: ["p"] for x in "klmn"}))]
        nz["five terms in two classes"] = [tspec("", P(occ={x: ["p"]}), [("AB"[n % 2], "anti", "", "")]) for n, x in enumerate("ijklm")]
    return sc, {k + " (non-vanishing substitutions)": v for k, v in nz.items()}


def _sx(ctx, what, probe, max_paths=60000, **kw):
    return Symex(ctx.model, inline=_inline_simplify, hooks=probe.hooks(), what=what, max_paths=max_paths, max_steps=2000000,
                 obj_identity=True, **kw)


def r07abc_partition(ctx):
    fn = ctx.model.fn(FCT)
    n_paths = n_acc = 0
    full, nonzero = fct_scenarios(ctx.tier)
    for name, specs in list(full.items()) + list(nonzero.items()):
        probe = Probe(nonzero=name in nonzero)
        sx = _sx(ctx, f"find_compatible_terms[{name}]", probe)
        res = sx.run(fn, lambda: dict(terms=build_terms(World(), specs)))
        tl = Tally()
        tl.see("R07c", "flags", not probe.bad_flags, f"fingerprints are requested with {probe.bad_flags[:1]}: terms that differ in "
               "exponents or target indices would share a class")
        for o in res:
            n_paths += 1
            verify_partition(tl, specs, o, zero_checked=name not in nonzero)
            if o.kind == "return" and isinstance(o.value, dict) and any(o.value.values()):
                n_acc += 1
        tl.flush(ctx, fn, name, FACTS)
    ctx.floor("R07c", "evaluated paths of find_compatible_terms", n_paths, 15)
    ctx.floor("R07a", "paths of find_compatible_terms that merge terms", n_acc, 5)
    # input guard
    if ctx.want("R07c"):
        probe = Probe()
        sx = _sx(ctx, "find_compatible_terms[guard]", probe)

        def make_bad():
            w = World()
            ts = build_terms(w, [tspec("", P(occ={"i": ["p"]}))])
            foreign = Obj(None, "x")
            foreign.attrs.update(_classes=set())
            return dict(terms=ts + [foreign])
        outs = sx.run(fn, make_bad)
        ctx.check("R07c", fn, all(o.kind == "raise" for o in outs), "a list with a non-Term element is refused",
                  "find_compatible_terms accepts elements that are not Term containers", key="guard / non-Term input")


# ------------------------------------------------------------------------------------------------------------ simplify

def _expr(w, n_unexpanded, specs, name="expr"):
    e = Obj("expr_container:Expr", name)
    exp_terms = build_terms(w, specs)
    raw = build_terms(w, [tspec("", {})] * n_unexpanded, prefix="u")
    e.attrs.update(_expanded=n_unexpanded == 0, _exp_terms=exp_terms, _n=len(exp_terms) if n_unexpanded == 0 else n_unexpanded,
                   terms=tuple(exp_terms) if n_unexpanded == 0 else tuple(raw), sympy=T("attr", sym(name), "sympy"))
    return e


def verify_sum(tl, specs, o):
    """simplify's result on one path: every expanded term once; substituted ones with a map accepted on this path."""
    n = len(specs)
    tl.see("R07c", "no raise", o.kind == "return", f"simplify raises {o.exc} on a valid expression")
    if o.kind != "return":
        return
    pf = PathFacts(o)
    v = o.value
    if isinstance(v, Obj):
        ok = v.attrs.get("_expanded") is True and v.attrs.get("_n") == 1
        tl.see("R07c", "expand first", v.attrs.get("_expanded") is True,
               "the expression is returned without having been expanded: the single-term shortcut is taken on the term count of the "
               "unexpanded expression, a product containing a sum is returned untouched")
        tl.see("R07c", "trivial", ok or v.attrs.get("_expanded") is not True,
               f"the input expression with {v.attrs.get('_n')} terms is returned unsimplified")
        return
    bare, subst, odd = [], [], []
    for c, fs in expand_products(v):
        if c == 1 and len(fs) == 1 and _term_no(fs[0]) is not None:
            bare.append(_term_no(fs[0]))
        elif c == 1 and len(fs) == 1 and _sub_token(fs[0]) is not None and _sub_token(fs[0])[0] is not None:
            subst.append(_sub_token(fs[0]))
        else:
            odd.append((c, fs))
    raw_terms = [fs for c, fs in odd if any(x.op == "sym" and _term_no(x, "u") is not None for x in subterms(fs))]
    tl.see("R07c", "expand first", not raw_terms, "terms of the unexpanded expression are summed")
    tl.see("R07c", "simplify sum", not odd, f"summand {show(odd[0][1])[:160] if odd else ''} with coefficient {odd[0][0] if odd else ''} is neither "
           "a term of the expression nor a substituted term")
    seen = sorted(bare + [j for j, k, a in subst])
    tl.see("R07c", "simplify conservation", seen == list(range(n)),
           f"terms in the returned sum: {seen}, expected each of the {n} terms of the expanded expression exactly once")
    for j, key, arg in subst:
        tl.see("R07a", "ordered", key is not None, f"t{j} is substituted with {show(arg)[:160]}, not an order_substitutions result")
        if key is None:
            continue
        hosts = [i for i in bare if pf.accepted_properly(i, j, key) is None]
        tl.see("R07c", "simplify substitution", bool(hosts),
               f"t{j} is added with the map {_showmap(key)} that was not accepted against any term that is kept unchanged")
    # matched terms must not be added unsubstituted: a bare term that the path merged into another one
    for i in bare:
        merged = [(h, k) for (h, j, k), pol in pf.A.items() if j == i and pol is False and h in bare and h != i
                  and pf.accepted_properly(h, i, k) is None]
        tl.see("R07c", "simplify substitution", not merged,
               f"t{i} was mapped onto t{merged[0][0] if merged else '?'} but is added without the substitution")


FACTS.update({
    "expand first": "terms are taken from the expanded expression",
    "trivial": "the expression itself is returned only if it has a single term",
    "simplify sum": "the result is a sum of terms and substituted terms with coefficient one",
    "simplify conservation": "every term of the expanded expression is added exactly once",
    "simplify substitution": "matched terms are added with the map that was accepted for them, key terms unchanged",
})


def r07c_simplify(ctx):
    fn = ctx.model.fn(SIMP)
    three = [tspec("", P(occ={"i": ["p"]})), tspec("", P(occ={"j": ["p"]})), tspec("", P(occ={"k": ["p"]}))]
    two = [tspec("", P(occ={"i": ["p"], "j": ["p"]})), tspec("", P(occ={"k": ["p"], "j": ["p"]}))]
    mixed = [tspec("", P(occ={"i": ["p"]})), tspec("", P(occ={"j": ["p"]}), [("B", "anti", "", "")]), tspec("", P(occ={"k": ["p"]}))]
    n_paths = 0
    for name, n_raw, specs in (("expanded expression with three alike terms", 0, three),
                               ("expanded expression, two maps", 0, two),
                               ("expanded expression, two classes", 0, mixed),
                               ("single product that expands to two terms", 1, two[:1] + [tspec("", P(occ={"k": ["p"], "l": ["p"]}))]),
                               ("sum of two products that expands to three terms", 2, three),
                               ("number, symbol and two alike terms", 0, [tspec("", {}, [("prefactor", "pref", "", "")]), three[0],
                                                                         tspec("", {}, [("symbol", "symbol", "", "")]), three[1]]),
                               ("product that expands to a number and a term", 1, [tspec("", {}, [("prefactor", "pref", "", "")]), three[0]]),
                               ("single term", 0, three[:1]),
                               ("single product that expands to one term", 1, three[:1])):
        probe = Probe()
        sx = _sx(ctx, f"simplify[{name}]", probe)
        outs = sx.run(fn, lambda: dict(expr=_expr(World(), n_raw, specs)))
        tl = Tally()
        for o in outs:
            n_paths += 1
            verify_sum(tl, specs, o)
        tl.flush(ctx, fn, name, FACTS)
    ctx.floor("R07c", "evaluated paths of simplify", n_paths, 7)
    probe = Probe()
    sx = _sx(ctx, "simplify[guard]", probe)

    def bad():
        x = Obj(None, "x")
        x.attrs.update(_classes=set())
        return dict(expr=x)
    outs = sx.run(fn, bad)
    ctx.check("R07c", fn, all(o.kind == "raise" and o.exc == "Inputerror" for o in outs), "input that is not an Expr is refused",
              f"simplify accepts input that is not an Expr: {outs[:2]}", key="guard / non-Expr input")



# ---------------------------------------------------------------------------------------------------------------------
# R07e: the fingerprints of expr_container

ANTI = {"antisymtensor": {"AntiSymmetricTensor", "SymbolicTensor"},
        "amplitude": {"Amplitude", "AntiSymmetricTensor", "SymbolicTensor"},
        "symtensor": {"SymmetricTensor", "AntiSymmetricTensor", "SymbolicTensor"}}
OTHER = {"nonsymtensor": {"NonSymmetricTensor", "SymbolicTensor"}, "delta": {"KroneckerDelta"}, "create": {"Fd"},
         "annihilate": {"F"}, "prefactor": {"Number"}, "symbol": {"Symbol"}}


def _inline_ec(q):
    return q.startswith("expr_container:")


def _sympy_S():
    """sympy.S restricted to the three bra-ket symmetry values (plain ints, so `is`/`==` are decided)."""
    s = Obj(None, "S")
    s.attrs.update(Zero=0, One=1, NegativeOne=-1)
    return s


def tensor(kind, name, upper, lower="", bks=0, exp=1):
    return dict(kind=kind, name=name, upper=tuple(upper), lower=tuple(lower), bks=bks, exp=exp)


def build_term(w, tensors, target, tokens=None):
    """A Term record with Obj records for the given tensors; ``tokens`` (per object: descr, {index: [positions]})
    replaces the fingerprints of the objects by opaque tokens."""
    term = Obj("expr_container:Term", "term")
    objs = []
    for n, ts in enumerate(tensors):
        base = Obj(None, f"base{n}")
        idx = w.tup(ts["upper"] + ts["lower"])
        base.attrs.update(_classes=set(ANTI.get(ts["kind"]) or OTHER[ts["kind"]]), name=ts["name"], upper=w.tup(ts["upper"]),
                          lower=w.tup(ts["lower"]), bra_ket_sym=ts["bks"], idx=idx)
        o = Obj("expr_container:Obj", f"o{n}")
        o.attrs.update(base=base, base_and_exponent=(base, ts["exp"]), exponent=ts["exp"], idx=idx, name=ts["name"],
                       type_as_str=ts["kind"], term=term, sympy=sym(f"o{n}.sympy"))
        if tokens is not None:
            o.attrs.update(_descr=tokens[n][0], _pos={w.idx(i): list(p) for i, p in tokens[n][1].items()},
                           idx=w.tup(tokens[n][1]))
        objs.append(o)
    term.attrs.update(objects=tuple(objs), target=w.tup(target), provided_target_idx=w.tup(target))
    return term


def _sp(names):
    return tuple(_space(n)[0] for n in names)


def dkey(ts, target, inc_exp, inc_tgt):
    """What a description has to encode - and nothing else."""
    kind = ts["kind"]
    if kind in ("prefactor", "symbol"):
        return (kind,)
    if kind in ANTI:
        k = [kind, ts["name"], _sp(ts["upper"]), _sp(ts["lower"])]
        if inc_tgt:
            tu = tuple(n for n in ts["upper"] if n in target)
            tl = tuple(n for n in ts["lower"] if n in target)
            # orientation of the target indices counts only without bra-ket symmetry
            k.append((tu, tl) if ts["bks"] == 0 else tuple(sorted([tu, tl])))
    elif kind == "nonsymtensor":
        idx = ts["upper"] + ts["lower"]
        k = [kind, ts["name"], _sp(idx)]
        if inc_tgt:
            k.append(tuple((n, i) for i, n in enumerate(idx) if n in target))
    else:
        idx = ts["upper"] + ts["lower"]
        k = [kind, _sp(idx)]
        if inc_tgt:
            k.append(tuple(n for n in idx if n in target))
    if inc_exp:
        k.append(ts["exp"])
    return tuple(k)


def ckeys(ts, target, inc_exp, inc_tgt):
    """Expected position fingerprints: list of (index name, key) for every occurrence of an index."""
    d = dkey(ts, target, inc_exp, inc_tgt)
    out = []
    if ts["kind"] in ANTI:
        for part, names in (("u", ts["upper"]), ("l", ts["lower"])):
            for n_, s in enumerate(names):
                nb = tuple(x for m, x in enumerate(names) if m != n_)
                out.append((s, (d, part if ts["bks"] == 0 else None, _sp(nb),
                                tuple(x for x in nb if x in target) if inc_tgt else None)))
    elif ts["kind"] == "nonsymtensor":
        out = [(s, (d, i)) for i, s in enumerate(ts["upper"] + ts["lower"])]
    elif ts["kind"] in ("delta", "create", "annihilate"):
        out = [(s, (d,)) for s in ts["upper"] + ts["lower"]]
    return out


def partition_check(ctx, rule, node, what, entries, key, same_fact, diff_fact):
    """entries: (label, expected key, fingerprint).  Equal keys <=> equal fingerprints."""
    by_key, by_val = {}, {}
    split = merged = None
    for lab, k, v in entries:
        if k in by_key and by_key[k][1] != v and split is None:
            split = (by_key[k][0], by_key[k][1], lab, v)
        by_key.setdefault(k, (lab, v))
        if v in by_val and by_val[v][1] != k and merged is None:
            merged = (by_val[v][0], lab, v, by_val[v][1], k)
        by_val.setdefault(v, (lab, k))
    ctx.check(rule, node, split is None, f"{what}: {same_fact} ({len(entries)} entries, {len(by_key)} classes)",
              f"{what}: {split[0]} and {split[2]} have to share the fingerprint but get `{_cut(split[1])}` and `{_cut(split[3])}`: terms that "
              "differ only by a renaming of contracted indices would not be recognised" if split else "", key=f"{key} / invariance")
    ctx.check(rule, node, merged is None, f"{what}: {diff_fact}",
              f"{what}: {merged[0]} and {merged[1]} get the same fingerprint `{_cut(merged[2])}` although they differ in "
              f"{_key_diff(merged[3], merged[4])}" if merged else "", key=f"{key} / discrimination")


def _cut(v):
    t = v if isinstance(v, str) else show(v)
    return t if len(t) < 140 else t[:140] + "..."


def _key_diff(a, b):
    if isinstance(a, tuple) and isinstance(b, tuple) and len(a) == len(b):
        return "; ".join(f"{x!r} vs {y!r}" for x, y in zip(a, b) if x != y)[:300]
    return f"{a!r} vs {b!r}"[:300]


def _one(outs, what):
    if len(outs) != 1 or outs[0].kind != "return":
        raise AnalysisError(f"C07: {what}: expected one returning path, got {outs[:3]}")
    return outs[0].value


def _label(ts, target):
    return f"{ts['name']}^{{{''.join(ts['upper'])}}}_{{{''.join(ts['lower'])}}}" + (f"^{ts['exp']}" if ts["exp"] != 1 else "") + \
        f"[sym {ts['bks']}, targets {''.join(target) or '-'}]"


def object_table(tier):
    shapes = [("i", "j"), ("j", "i"), ("k", "l"), ("ik", "jl"), ("jl", "ik"), ("ij", "ab"), ("i", "a"), ("a", "i"), ("i", "i"),
              ("ij", "kl")]
    targets = ["", "i", "j", "ij", "a"]
    kinds = ["antisymtensor"] if tier == "quick" else list(ANTI)
    out = []
    for kind in kinds:
        for name in ("V", "X"):
            for up, lo in shapes:
                for tg in targets:
                    for bks in (0, 1, -1):
                        for exp in (1, 2):
                            if name == "X" and (exp == 2 or tg in ("a",)) and tier == "quick":
                                continue
                            out.append((tensor(kind, name, up, lo, bks, exp), tuple(tg)))
    for name in ("X", "Y"):
        for idx in ("i", "j", "ij", "ji", "ia", "ijk"):
            for tg in ("", "i", "j", "ij"):
                for exp in (1, 2):
                    out.append((tensor("nonsymtensor", name, idx, "", 0, exp), tuple(tg)))
    for kind in ("delta", "create", "annihilate"):
        for idx in (("ij", "ik", "ab", "ia") if kind == "delta" else ("i", "j", "a")):
            for tg in ("", "i", "j"):
                out.append((tensor(kind, "", idx, "", 0, 1), tuple(tg)))
    return out


def r07e_objects(ctx):
    rule = "R07e"
    dfn = ctx.model.fn("expr_container:Obj.description")
    cfn = ctx.model.fn("expr_container:Obj.crude_pos")
    sx = Symex(ctx.model, inline=_inline_ec, hooks={"S": _sympy_S()}, what="Obj.description/crude_pos", max_paths=64,
               obj_identity=True)
    table = object_table(ctx.tier)
    flagsets = [(True, True), (True, False), (False, True), (False, False)]
    n = 0
    for inc_exp, inc_tgt in flagsets:
        dgroups, cgroups = {}, {}
        struct_bad = None
        for ts, target in table:
            if (inc_exp, inc_tgt) != (True, True) and ts["name"] == "X":
                continue
            def mk():
                t = build_term(World(), [ts], target)
                return dict(self=t.attrs["objects"][0], include_exponent=inc_exp, include_target_idx=inc_tgt)
            d = _one(sx.run(dfn, mk), f"description of {_label(ts, target)}")
            if not isinstance(d, str):
                raise AnalysisError(f"C07: description of {_label(ts, target)} is not a string: {show(d)[:120]}")
            n += 1
            grp = ts["bks"] if ts["kind"] in ANTI else 0
            dgroups.setdefault(grp, []).append((_label(ts, target), dkey(ts, target, inc_exp, inc_tgt), d))
            pos = _one(sx.run(cfn, mk), f"crude_pos of {_label(ts, target)}")
            want = ckeys(ts, target, inc_exp, inc_tgt)
            got = {}
            if not isinstance(pos, dict) or not all(isinstance(k, Obj) and isinstance(v, list) for k, v in pos.items()):
                raise AnalysisError(f"C07: crude_pos of {_label(ts, target)} is not a dict index -> list: {show(pos)[:120]}")
            for k, v in pos.items():
                got[k.attrs["name"]] = list(v)
            names = sorted(s for s, _ in want)
            have = sorted(s for s, v in got.items() for _ in v)
            if names != have and struct_bad is None:
                struct_bad = (_label(ts, target), names, have)
            if names == have:
                # pair the expected keys of an index with its positions (both in upper-before-lower order)
                for s in set(names):
                    ks = [k for s2, k in want if s2 == s]
                    for k, v in zip(ks, got[s]):
                        if not isinstance(v, str):
                            raise AnalysisError(f"C07: position of {s} in {_label(ts, target)} is not a string")
                        cgroups.setdefault(grp, []).append((f"{s} in {_label(ts, target)}", k, v))
        fl = f"exponent {'in' if inc_exp else 'ex'}cluded, target names {'in' if inc_tgt else 'ex'}cluded"
        ctx.check(rule, cfn, struct_bad is None, f"crude_pos lists every index once per occurrence ({fl})",
                  f"crude_pos of {struct_bad[0]} lists positions for {struct_bad[2]}, the object holds {struct_bad[1]}" if struct_bad else "",
                  key=f"crude_pos occurrences {inc_exp} {inc_tgt}")
        for grp, entries in sorted(dgroups.items()):
            partition_check(ctx, rule, dfn, f"description, bra-ket symmetry {grp}, {fl}", entries, f"description {grp} {inc_exp} {inc_tgt}",
                            "objects that agree in type, name, spaces, exponent, target names (orientation only without bra-ket symmetry) share "
                            "the description", "objects that differ in one of them get different descriptions")
        for grp, entries in sorted(cgroups.items()):
            partition_check(ctx, rule, cfn, f"crude_pos, bra-ket symmetry {grp}, {fl}", entries, f"crude_pos {grp} {inc_exp} {inc_tgt}",
                            "positions that agree in description, neighbour spaces, neighbour targets (upper/lower only without bra-ket "
                            "symmetry) coincide", "positions that differ in one of them are distinguished")
    ctx.floor(rule, "objects whose description/crude_pos were evaluated", n, 200)
    # a number has no index positions
    for kind in ("prefactor", "symbol"):
        ts = tensor(kind, "", "", "", 0, 1)
        def mk():
            t = build_term(World(), [ts], ())
            return dict(self=t.attrs["objects"][0], include_exponent=True, include_target_idx=True)
        d = _one(sx.run(dfn, mk), kind)
        pos = _one(sx.run(cfn, mk), kind)
        ctx.check(rule, dfn, d == kind and pos == {}, f"{kind}: description is the type, no index positions",
                  f"{kind}: description {d!r}, positions {show(pos)[:80]}", key=f"{kind} description")


def token_terms():
    """Terms whose objects carry opaque fingerprints: (descr, {index: [position tokens]}) per object."""
    return {
        "alike objects told apart by their partners": [
            ("T", {"i": ["P1"], "a": ["P2"]}), ("T", {"j": ["P1"], "b": ["P2"]}), ("F", {"a": ["Q1"], "c": ["Q2"]}),
            ("G", {"b": ["R1"], "d": ["R2"]})],
        "alike objects with alike partners": [
            ("T", {"i": ["P1"], "a": ["P2"]}), ("T", {"j": ["P1"], "b": ["P2"]}), ("F", {"a": ["Q1"], "c": ["Q2"]}),
            ("F", {"b": ["Q1"], "d": ["Q2"]})],
        "alike objects sharing indices with each other": [
            ("T", {"i": ["P1"], "j": ["P2"]}), ("T", {"j": ["P1"], "k": ["P2"]}), ("F", {"k": ["Q1"], "i": ["Q2"]})],
        "no repeated object": [
            ("T", {"i": ["P1"], "a": ["P2"]}), ("F", {"a": ["Q1"], "i": ["Q2"]}), ("G", {"k": ["R1"]})],
        "repeated objects without common indices": [
            ("T", {"i": ["P1"]}), ("T", {"j": ["P1"]}), ("F", {"k": ["Q1"]})],
        "index twice on one object": [
            ("T", {"i": ["P1", "P2"], "a": ["P3"]}), ("T", {"j": ["P1", "P2"], "b": ["P3"]}), ("F", {"a": ["Q1"], "b": ["Q2"]})],
        "three alike objects in a chain": [
            ("T", {"i": ["P1"], "j": ["P2"]}), ("T", {"j": ["P1"], "k": ["P2"]}), ("T", {"k": ["P1"], "l": ["P2"]})],
    }


def coupling_expected(objs):
    """Objects whose description occurs more than once carry the positions (on the *other* objects) of the indices they
    share with them."""
    out = {}
    for i, (d, pos) in enumerate(objs):
        if sum(1 for d2, _ in objs if d2 == d) < 2:
            continue
        ms = [p for j, (_, pos2) in enumerate(objs) if j != i for s_ in pos if s_ in pos2 for p in pos2[s_]]
        if ms:
            out[i] = sorted(ms)
    return out


def r07e_terms(ctx):
    rule = "R07e"
    cfn = ctx.model.fn("expr_container:Term.coupling")
    pfn = ctx.model.fn("expr_container:Term.pattern")
    asked = []

    def h_descr(sx, a, kw):
        asked.append(("description", tuple(a[1:]), tuple(sorted(kw.items()))))
        return a[0].attrs["_descr"]

    def h_pos(sx, a, kw):
        asked.append(("crude_pos", tuple(a[1:]), tuple(sorted(kw.items()))))
        return {k: list(v) for k, v in a[0].attrs["_pos"].items()}
    sx = Symex(ctx.model, inline=_inline_ec, hooks={"S": _sympy_S(), "Obj.description": h_descr, "Obj.crude_pos": h_pos},
               what="Term.coupling/pattern", max_paths=64, obj_identity=True)
    entries = []
    for name, objs in token_terms().items():
        orders = [list(range(len(objs))), list(reversed(range(len(objs))))]
        for order in orders:
            ob = [objs[i] for i in order]
            tens = [tensor("nonsymtensor", d, "".join(pos), "", 0, 1) for d, pos in ob]

            def mk():
                return dict(self=build_term(World(), tens, (), tokens=ob), include_target_idx=True, include_exponent=True)
            coup = _one(sx.run(cfn, mk), f"coupling of {name}")
            want = coupling_expected(ob)
            got = {k: sorted(v) for k, v in coup.items()} if isinstance(coup, dict) and all(isinstance(v, list) for v in coup.values()) else coup
            ctx.check(rule, cfn, got == want, f"{name}: coupling = positions of the shared indices on the other objects, repeated objects only",
                      f"{name}: coupling is {show(got)[:200]}, expected {want}", key=f"coupling {name} {order[0]}")
            pat = _one(sx.run(pfn, mk), f"pattern of {name}")
            idxs = sorted({s_ for _, pos in ob for s_ in pos})
            ok = isinstance(pat, dict) and all(isinstance(v, dict) for v in pat.values())
            listed = sorted((k, s_.attrs["name"]) for k, v in pat.items() for s_ in v) if ok else None
            ctx.check(rule, pfn, ok and listed == sorted(((_space(s_), ""), s_) for s_ in idxs),
                      f"{name}: every index once, under its (space, spin)",
                      f"{name}: pattern lists {listed}, the term holds {idxs}", key=f"pattern structure {name} {order[0]}")
            if not ok:
                continue
            for k, v in pat.items():
                for s_, lst in v.items():
                    nm = s_.attrs["name"]
                    F = tuple(sorted((p, tuple(want[i]) if i in want else None) for i, (_, pos) in enumerate(ob) for p in pos.get(nm, [])))
                    entries.append((f"{nm} in `{name}`" + (" (objects reversed)" if order[0] else ""), F, tuple(lst)))
    bad = [a for a in asked if any(v is not True for v in a[1]) or any(v is not True for _, v in a[2])]
    ctx.check(rule, pfn, not bad, "pattern/coupling forward include_target_idx / include_exponent to the objects",
              f"fingerprints of the objects requested with {bad[:1]} although both switches are set", key="pattern switches")
    partition_check(ctx, rule, pfn, "pattern over positions and couplings", entries, "pattern tokens",
                    "indices with the same multiset of (position, coupling of the object) get the same pattern, in whatever order the objects "
                    "come", "indices that differ in a position or in the coupling of an object are told apart")
    ctx.floor(rule, "index patterns compared", len(entries), 30)


class Canon:
    """The canonical form a tensor gets on construction, with the two decisions of sympy_objects evaluated from the source:
    the sort key of an index (indices.sort_idx_canonical) and the bra/ket swap (AntiSymmetricTensor._need_bra_ket_swap).
    That the constructor sorts both parts by the key and then asks for the swap is modelled (C06 decides it)."""

    def __init__(self, ctx):
        self.sx = Symex(ctx.model, inline=lambda q: q == "indices:sort_idx_canonical" or q.startswith("sympy_objects:"),
                        what="canonical form of a tensor", max_paths=16, obj_identity=True)
        self.keyfn = ctx.model.fn("indices:sort_idx_canonical")
        self.swapfn = ctx.model.fn("sympy_objects:AntiSymmetricTensor._need_bra_ket_swap")
        self._key, self._swap = {}, {}

    def key(self, label):
        if label not in self._key:
            v = _one(self.sx.run(self.keyfn, lambda: dict(idx=World().idx(label))), f"sort key of {label}")
            if not isinstance(v, tuple) or any(isinstance(x, T) for x in v):
                raise AnalysisError(f"C07: sort key of the index {label} is not decided: {show(v)[:120]}")
            self._key[label] = v
        return self._key[label]

    def swap(self, up, lo):
        if (up, lo) not in self._swap:
            def mk():
                w = World()
                return dict(cls=None, upper=w.tup(up), lower=w.tup(lo))
            v = _one(self.sx.run(self.swapfn, mk), f"bra/ket swap of {up}|{lo}")
            if not isinstance(v, bool):
                raise AnalysisError(f"C07: bra/ket swap of {up}|{lo} is not decided: {show(v)[:120]}")
            self._swap[(up, lo)] = v
        return self._swap[(up, lo)]

    def tensor(self, ts):
        if ts["kind"] not in ANTI:
            return dict(ts)
        up, lo = tuple(sorted(ts["upper"], key=self.key)), tuple(sorted(ts["lower"], key=self.key))
        if ts["bks"] != 0 and len(up) == len(lo) and self.swap(up, lo):
            up, lo = lo, up
        return dict(ts, upper=up, lower=lo)

    def rename(self, tensors, pi, order=None, flip=False):
        """The tensors with renamed indices in canonical form; ``flip``: bra-ket (anti)symmetric tensors are written in the
        other orientation first (the same tensor, up to the sign)."""
        out = []
        for ts in tensors:
            up, lo = tuple(pi.get(x, x) for x in ts["upper"]), tuple(pi.get(x, x) for x in ts["lower"])
            if flip and ts["kind"] in ANTI and ts["bks"] != 0:
                up, lo = lo, up
            out.append(self.tensor(dict(ts, upper=up, lower=lo)))
        return [out[k] for k in order] if order else out


def _canon(ctx):
    if not hasattr(ctx, "_c07_canon"):
        ctx._c07_canon = Canon(ctx)
    return ctx._c07_canon


def real_terms(tier):
    out = []
    for bks in (0, 1, -1):
        out.append((f"d^ka_lb X_k Y_l, d with bra-ket symmetry {bks}, k<->l",
                    [tensor("antisymtensor", "d", "ka", "lb", bks), tensor("nonsymtensor", "X", "k"), tensor("nonsymtensor", "Y", "l")],
                    "ab", {"k": "l", "l": "k"}, None))
        out.append((f"d^ik_jl X_k Y_l, d with bra-ket symmetry {bks}, k<->l",
                    [tensor("antisymtensor", "d", "ik", "jl", bks), tensor("nonsymtensor", "X", "k"), tensor("nonsymtensor", "Y", "l")],
                    "ij", {"k": "l", "l": "k"}, [0, 2, 1]))
        out.append((f"d^kl_mn X_km Y_ln, d with bra-ket symmetry {bks}, (k,l)<->(m,n)",
                    [tensor("antisymtensor", "d", "kl", "mn", bks), tensor("nonsymtensor", "X", "km"), tensor("nonsymtensor", "X", "ln")],
                    "", {"k": "m", "m": "k", "l": "n", "n": "l"}, [0, 2, 1]))
    out.append(("t^a_i t^b_j f^a_c g^b_d, (i,a)<->(j,b), objects reordered",
                [tensor("amplitude", "t1", "a", "i"), tensor("amplitude", "t1", "b", "j"), tensor("antisymtensor", "f", "a", "c", 1),
                 tensor("antisymtensor", "g", "b", "d", 1)], "cd", {"i": "j", "j": "i", "a": "b", "b": "a"}, [1, 0, 3, 2]))
    out.append(("V^ij_ab t^ab_ij squared amplitudes, i->k, j->l",
                [tensor("antisymtensor", "V", "ij", "ab", 1), tensor("amplitude", "t2", "ab", "ij", 0, 2)], "",
                {"i": "k", "j": "l"}, [1, 0]))
    for bks in (1, -1):
        # names that share number and letter: j / j0 and two different indices called i
        out.append((f"d^j_j0 n_j,j0, d with bra-ket symmetry {bks}, (j,j0)->(k,i)",
                    [tensor("antisymtensor", "d", ("j",), ("j0",), bks), tensor("nonsymtensor", "n", ("j", "j0"))], "",
                    {"j": "k", "j0": "i"}, [1, 0]))
        out.append((f"d^j_j0 n_j,j0, d with bra-ket symmetry {bks}, j<->j0",
                    [tensor("antisymtensor", "d", ("j",), ("j0",), bks), tensor("nonsymtensor", "n", ("j", "j0"))], "",
                    {"j": "j0", "j0": "j"}, None))
        out.append((f"d^i_i#2 n_i,i#2 with two indices called i, d with bra-ket symmetry {bks}, i<->i#2",
                    [tensor("antisymtensor", "d", ("i",), ("i#2",), bks), tensor("nonsymtensor", "n", ("i", "i#2"))], "",
                    {"i": "i#2", "i#2": "i"}, None))
        out.append((f"d^k,j_k0,j0 X_k,k0 Y_j,j0, d with bra-ket symmetry {bks}, (k,k0)<->(j,j0)",
                    [tensor("antisymtensor", "d", ("k", "j"), ("k0", "j0"), bks), tensor("nonsymtensor", "X", ("k", "k0")),
                     tensor("nonsymtensor", "Y", ("j", "j0"))], "", {"k": "j", "j": "k", "k0": "j0", "j0": "k0"}, [0, 2, 1]))
    out.append(("delta_ij X_ik Y_jl, (i,k)<->(j,l)",
                [tensor("delta", "", "ij"), tensor("nonsymtensor", "X", "ik"), tensor("nonsymtensor", "X", "jl")], "",
                {"i": "j", "j": "i", "k": "l", "l": "k"}, [0, 2, 1]))
    return out


def r07e_equivariance(ctx):
    rule = "R07e"
    pfn = ctx.model.fn("expr_container:Term.pattern")
    sx = Symex(ctx.model, inline=_inline_ec, hooks={"S": _sympy_S()}, what="Term.pattern (evaluated through)", max_paths=64,
               obj_identity=True)
    n = 0
    for name, tensors, target, pi, order in real_terms(ctx.tier):
        cn = _canon(ctx)
        t1 = cn.rename(tensors, {})
        t2 = cn.rename(tensors, pi, order)
        if ctx.want("R07h"):
            # the premise of the merge test: the other term with the found map substituted IS the term.  The other term may be
            # written with its bra-ket (anti)symmetric tensors in either orientation; mapping its canonical form back has to give
            # the canonical form of the term again, otherwise `term - other.subs(map)` stays a sum of two equal terms
            inv = {v: k for k, v in pi.items()}
            for flip in (False, True):
                other = cn.rename(tensors, pi, None, flip=flip)
                back = cn.rename(other, inv)
                bad_t = [(a_, b_) for a_, b_ in zip(t1, back) if (a_["upper"], a_["lower"]) != (b_["upper"], b_["lower"])]
                ctx.check("R07h", cn.swapfn, not bad_t,
                          f"{name}: the renamed term{' written in the other bra/ket orientation' if flip else ''} mapped back is the term",
                          f"{name}: {_label(bad_t[0][0], target) if bad_t else ''} and the tensor obtained from the renamed term"
                          f"{' (other orientation)' if flip else ''} by the inverse map, {_label(bad_t[0][1], target) if bad_t else ''}, are both "
                          "canonical: the two orientations of a bra-ket symmetric tensor are not identified, simplify finds the map but "
                          "`term - other.subs(map)` stays a sum and the alpha-equivalent terms are not merged",
                          key=f"merge premise {name} {'flipped' if flip else 'as written'}")
        n += 1
        if not ctx.want("R07e"):
            continue
        pats = []
        for tens in (t1, t2):
            pat = _one(sx.run(pfn, lambda: dict(self=build_term(World(), tens, tuple(target)), include_target_idx=True,
                                                include_exponent=True)), f"pattern of {name}")
            if not (isinstance(pat, dict) and all(isinstance(v, dict) for v in pat.values())):
                raise AnalysisError(f"C07: pattern of {name} is not a dict of dicts")
            pats.append({s_.name: (k, list(lst)) for k, v in pat.items() for s_, lst in v.items()})
        bad = None
        for s_, (k, lst) in sorted(pats[0].items()):
            img = pi.get(s_, s_)
            if img not in pats[1] or pats[1][img] != (k, lst):
                bad = (s_, img, lst, pats[1].get(img))
                break
        ctx.check(rule, pfn, bad is None and len(pats[0]) == len(pats[1]),
                  f"{name}: every index of the renamed term has the pattern of its preimage",
                  f"{name}: index {bad[0]} has the pattern {_cut(bad[2])}, its image {bad[1]} in the renamed term has "
                  f"{_cut(bad[3][1] if bad[3] else None)}: the two alpha-equivalent terms would not be merged" if bad else
                  f"{name}: different index sets", key=f"equivariance {name}")
    ctx.floor(rule, "renamed terms evaluated", n, 8)



def r07e_sweep(ctx, cap=24):
    """Thorough tier: every renaming of the contracted indices (space preserving, at most ``cap`` per term) of a family of
    terms, objects reversed; the pattern of the renamed term is the renamed pattern."""
    rule = "R07e"
    pfn = ctx.model.fn("expr_container:Term.pattern")
    sx = Symex(ctx.model, inline=_inline_ec, hooks={"S": _sympy_S()}, what="Term.pattern (renaming sweep)", max_paths=64,
               obj_identity=True)
    A, N = "antisymtensor", "nonsymtensor"
    n = 0
    for bks in (0, 1, -1):
        family = [
            ("d^ik_jl X_k Y_l", [tensor(A, "d", "ik", "jl", bks), tensor(N, "X", "k"), tensor(N, "Y", "l")], "ij"),
            ("d^kl_mn X_km Y_ln", [tensor(A, "d", "kl", "mn", bks), tensor(N, "X", "km"), tensor(N, "Y", "ln")], ""),
            ("d^ik_jl d^jl_mn X_m Y_n Z_k", [tensor(A, "d", "ik", "jl", bks), tensor(A, "d", "jl", "mn", bks), tensor(N, "X", "m"),
                                              tensor(N, "Y", "n"), tensor(N, "Z", "k")], "i"),
            ("d^ka_lb d^lb_mc X_kmc", [tensor(A, "d", "ka", "lb", bks), tensor(A, "d", "lb", "mc", bks), tensor(N, "X", "kmc")], "a"),
            ("d^ij_kl d^kl_mn d^mn_ij", [tensor(A, "d", "ij", "kl", bks), tensor(A, "d", "kl", "mn", bks), tensor(A, "d", "mn", "ij", bks)], ""),
            ("(d^ia_jb)^2 t^b_j", [tensor(A, "d", "ia", "jb", bks, 2), tensor("amplitude", "t1", "b", "j")], "ia"),
        ]
        for name, tens, target in family:
            names = sorted({x for t in tens for x in t["upper"] + t["lower"]})
            occ = [x for x in names if x not in target and _space(x) == "occ"]
            virt = [x for x in names if x not in target and _space(x) == "virt"]

            def pat(tl_):
                p = _one(sx.run(pfn, lambda: dict(self=build_term(World(), tl_, tuple(target)), include_target_idx=True,
                                                  include_exponent=True)), f"pattern of {name}")
                return {s_.attrs["name"]: (k, list(lst)) for k, v in p.items() for s_, lst in v.items()}
            cn = _canon(ctx)
            p0 = pat(cn.rename(tens, {}))
            bad = None
            perms = list(itertools.product(itertools.permutations(occ), itertools.permutations(virt)))
            step = max(1, len(perms) // cap)
            for po, pv in perms[::step]:
                pi = dict(zip(occ, po))
                pi.update(zip(virt, pv))
                t2 = cn.rename(tens, pi, list(reversed(range(len(tens)))))
                p1 = pat(t2)
                n += 1
                for s_, v in p0.items():
                    if p1.get(pi.get(s_, s_)) != v and bad is None:
                        bad = (pi, s_, v, p1.get(pi.get(s_, s_)))
            ctx.check(rule, pfn, bad is None, f"{name}, bra-ket symmetry {bks}: patterns follow every renaming of the contracted indices",
                      f"{name}, bra-ket symmetry {bks}: after the renaming {bad[0]} index {bad[1]} -> {bad[0].get(bad[1], bad[1])} changes its "
                      f"pattern from {_cut(bad[2][1])} to {_cut(bad[3][1] if bad[3] else None)}" if bad else "", key=f"sweep {name} {bks}")
    ctx.floor(rule, "renamings evaluated in the sweep", n, 100)



# ---------------------------------------------------------------------------------------------------------------------
# R07f: call history

def _norm(v):
    """Comparable image of a result (records by name and state, terms canonical)."""
    if isinstance(v, Obj):
        return ("record", v.name, v.attrs.get("_n"), v.attrs.get("_expanded"))
    if isinstance(v, T):
        return repr(canon(v))
    if isinstance(v, dict):
        return tuple(sorted(((_norm(k), _norm(x)) for k, x in v.items()), key=repr))
    if isinstance(v, (list, tuple)):
        return tuple(_norm(x) for x in v)
    return v


def history_pairs(tier):
    """(A, B): the same terms (same sympy contents) wrapped by containers with different provided target indices /
    assumptions.  X_ik Y_kj + X_jk Y_ki: alpha-equivalent as a scalar, different with the target indices i, j."""
    XY = [("X", "nonsym", "ik", ""), ("Y", "nonsym", "kj", "")]
    YX = [("X", "nonsym", "jk", ""), ("Y", "nonsym", "ki", "")]
    scalar = [tspec("", P(occ={"i": ["X0"], "k": ["X1", "Y0"], "j": ["Y1"]}), XY),
              tspec("", P(occ={"j": ["X0"], "k": ["X1", "Y0"], "i": ["Y1"]}), YX)]
    matrix = [tspec("ij", P(occ={"i": ["X0i"], "k": ["X1", "Y0"], "j": ["Y1j"]}), [("Xi", "nonsym", "ik", ""), ("Yj", "nonsym", "kj", "")]),
              tspec("ij", P(occ={"j": ["X0j"], "k": ["X1", "Y0"], "i": ["Y1i"]}), [("Xj", "nonsym", "jk", ""), ("Yi", "nonsym", "ki", "")])]
    vector = [tspec("i", P(occ={"i": ["X0i"], "k": ["X1", "Y0"], "j": ["Y1"]}), [("Xi", "nonsym", "ik", ""), ("Y", "nonsym", "kj", "")]),
              tspec("i", P(occ={"j": ["X0"], "k": ["X1", "Y0"], "i": ["Y1i"]}), [("X", "nonsym", "jk", ""), ("Yi", "nonsym", "ki", "")])]
    third = tspec("", P(occ={"l": ["X0"], "k": ["X1", "Y0"], "m": ["Y1"]}), [("X", "nonsym", "lk", ""), ("Y", "nonsym", "km", "")])
    pairs = {
        "scalar, then the same sum with target indices i, j": (scalar, [0, 1], matrix, [0, 1]),
        "target indices i, j, then the same sum as a scalar": (matrix, [0, 1], scalar, [0, 1]),
        "the same expression twice": (scalar, [0, 1], scalar, [0, 1]),
        "scalar, then the terms in the other order with target index i": (scalar, [0, 1], list(reversed(vector)), [1, 0]),
        "scalar sum, then one of its terms next to a new term": (scalar, [0, 1], [scalar[1], third], [1, 2]),
    }
    if tier == "thorough":
        pairs["target index i, then target indices i, j"] = (vector, [0, 1], matrix, [0, 1])
        pairs["target indices i, j, then target index i"] = (matrix, [0, 1], vector, [0, 1])
        pairs["three terms as scalar, then two of them with targets"] = (scalar + [third], [0, 1, 2], matrix, [0, 1])
    return pairs


def _history(ctx, rule, fn, what, name, make_alone, make_both):
    """B after A must behave like B alone: every path of the history agrees with the path of B alone that takes the same
    decisions."""
    probe = Probe(nonzero=True)
    sx = _sx(ctx, f"{what}[history: {name}]", probe)
    alone = [(set((repr(a), p) for a, p in o.path), (o.kind, _norm(o.value) if o.kind == "return" else o.exc)) for o in sx.run(fn, make_alone)]
    seq = sx.run_sequence([fn, fn], make_both)
    bad = None
    for o in seq:
        if o.kind != "return":
            raise AnalysisError(f"C07: history of {what} not evaluated: {o}")
        kind, v = o.value[1]
        got = (kind, _norm(v) if kind == "return" else v)
        pathset = set((repr(a), p) for a, p in o.path)
        same = [r for ps, r in alone if ps <= pathset]
        if bad is None and (len(same) != 1 or same[0] != got):
            bad = (got, same)
    ctx.check(rule, fn, bad is None, f"{what}, {name}: the second call gives what it gives without the first ({len(seq)} path(s))",
              f"{what}, {name}: after the first call the second one returns {_cut(repr(bad[0][1]))}, on its own it returns "
              f"{_cut(repr(bad[1][0][1])) if bad[1] else 'nothing on these decisions (it asks different questions)'}: state kept "
              "between calls (e.g. a cache keyed without the target indices / assumptions) changes the result" if bad else "",
              key=f"history {what} / {name}")
    return len(seq)


def r07f_history(ctx):
    rule = "R07f"
    n = 0
    fn = ctx.model.fn(FCT)
    pairs = history_pairs(ctx.tier)
    for name, (A, sa, B, sb) in pairs.items():
        def both():
            w = World()
            return [dict(terms=build_terms(w, A, sids=sa)), dict(terms=build_terms(w, B, sids=sb))]
        n += _history(ctx, rule, fn, "find_compatible_terms", name, lambda: dict(terms=build_terms(World(), B, sids=sb)), both)
    fn = ctx.model.fn(SIMP)
    for name, (A, sa, B, sb) in list(pairs.items())[:3] if ctx.tier == "quick" else pairs.items():
        def ex(w, specs, sids, nm):
            e = Obj("expr_container:Expr", nm)
            ts = build_terms(w, specs, sids=sids)
            e.attrs.update(_expanded=True, _exp_terms=ts, _n=len(ts), terms=tuple(ts), sympy=T("attr", sym(nm), "sympy"))
            return e
        n += _history(ctx, rule, fn, "simplify", name, lambda: dict(expr=ex(World(), B, sb, "exprB")),
                      lambda: (lambda w: [dict(expr=ex(w, A, sa, "exprA")), dict(expr=ex(w, B, sb, "exprB"))])(World()))
    ctx.floor(rule, "paths of call histories", n, 8)



# ---------------------------------------------------------------------------------------------------------------------
# R07g: the result of simplify does not depend on the order of Expr.terms

def order_scenarios(tier):
    """name -> (terms, classes of mutually renamable terms (positions), canonical texts tie inside a class?)"""
    one = lambda x, c, d="A": tspec("", P(occ={x: ["p"]}), [(d, "anti", "", "")], canon=c)
    sc = {
        "three alike terms, distinct canonical texts": ([one("i", "A_b"), one("j", "A_a"), one("k", "A_c")], [{0, 1, 2}], False),
        "two classes, interleaved": ([one("i", "A_d"), one("j", "B_c", "B"), one("k", "A_a"), one("l", "B_b", "B")], [{0, 2}, {1, 3}], False),
        "alike terms that are not all equivalent": ([one("i", "A_c"), one("j", "A_b"), one("k", "A_a")], [{0, 2}, {1}], False),
        "equivalent terms with the same canonical text": ([one("i", "A_a"), one("j", "A_a"), one("k", "B_a", "B")], [{0, 1}, {2}], True),
        "a number between two alike terms": ([one("i", "A_b"), tspec("", {}, [("prefactor", "pref", "", "")], canon="1"), one("j", "A_a")],
                                             [{0, 2}, {1}], False),
    }
    if tier == "thorough":
        sc["four alike terms in two equivalence classes"] = ([one("i", "A_d"), one("j", "A_c"), one("k", "A_b"), one("l", "A_a")],
                                                             [{0, 3}, {1, 2}], False)
    return sc


def r07g_order(ctx, cap=24):
    rule = "R07g"
    fn = ctx.model.fn(SIMP)
    n = 0
    for name, (specs, classes, tie) in order_scenarios(ctx.tier).items():
        cls_of = {i: k for k, c in enumerate(classes) for i in c}

        def oracle(sx, atom):
            # model of sympy: the difference of a term and a substituted term is a sum unless the terms are equivalent
            if atom.op == "isinstance" and atom.args[1] == "Add":
                d = PathFacts._diff(atom.args[0])
                if d is not None and d[0] in cls_of and d[1] in cls_of:
                    return cls_of[d[0]] != cls_of[d[1]]
            if atom.op == "cmp" and atom.args[0] in ("is", "==") and any(_is_zero_sym(x) for x in atom.args[1:]):
                return False        # neither the terms nor the substituted terms vanish
            return None
        results = {}
        perms = list(itertools.permutations(range(len(specs))))
        for perm in perms[::max(1, len(perms) // cap)]:
            probe = Probe(nonzero=True)
            sx = _sx(ctx, f"simplify[order {name}]", probe, oracle=oracle)

            def mk():
                w = World()
                e = Obj("expr_container:Expr", "expr")
                ts = build_terms(w, [specs[i] for i in perm], sids=list(perm))
                e.attrs.update(_expanded=True, _exp_terms=ts, _n=len(ts), terms=tuple(ts), sympy=T("attr", sym("expr"), "sympy"))
                return dict(expr=e)
            outs = sx.run(fn, mk)
            n += 1
            if len(outs) != 1 or outs[0].kind != "return" or isinstance(outs[0].value, Obj):
                results[perm] = ("?", repr(outs[:2]))
                continue
            bare, subst, odd = [], [], []
            for c, fs in expand_products(outs[0].value):
                if c == 1 and len(fs) == 1 and _term_no(fs[0]) is not None:
                    bare.append(_term_no(fs[0]))
                elif c == 1 and len(fs) == 1 and _sub_token(fs[0]) is not None and _sub_token(fs[0])[0] is not None:
                    subst.append(_sub_token(fs[0])[:2])
                else:
                    odd.append(show(fs)[:80])
            results[perm] = (tuple(sorted(bare)), tuple(sorted(subst, key=repr)), tuple(odd))
        ident = tuple(range(len(specs)))
        bad_shape = [(p_, r) for p_, r in results.items() if r[0] == "?" or r[2]]
        ctx.check(rule, fn, not bad_shape, f"{name}: one sum of terms and substituted terms for each of the {len(results)} orders",
                  f"{name}: order {bad_shape[0][0] if bad_shape else ''} gives {_cut(repr(bad_shape[0][1])) if bad_shape else ''}",
                  key=f"order {name} / shape")
        if bad_shape:
            continue
        # the number of terms: one per class of equivalent terms, all others substituted, for every order
        wrong = [(p_, r) for p_, r in results.items()
                 if sorted(cls_of[i] for i in r[0]) != list(range(len(classes))) or len(r[0]) + len(r[1]) != len(specs)]
        ctx.check(rule, fn, not wrong, f"{name}: one unchanged term per class of equivalent terms, whatever the order of Expr.terms",
                  f"{name}: with the terms in the order {wrong[0][0] if wrong else ''} the sum keeps the terms {wrong[0][1][0] if wrong else ''} "
                  f"unchanged and substitutes {[j for j, _ in wrong[0][1][1]] if wrong else ''}; classes of equivalent terms: {classes}",
                  key=f"order {name} / number of terms")
        if tie:
            continue
        diff = [(p_, r) for p_, r in results.items() if r != results[ident]]
        ctx.check(rule, fn, not diff, f"{name}: the same sum for every order of Expr.terms",
                  f"{name}: with the terms in the order {diff[0][0] if diff else ''} the result keeps {diff[0][1][0] if diff else ''} and "
                  f"substitutes {diff[0][1][1] if diff else ''}, in the order {ident} it keeps {results[ident][0]} and substitutes "
                  f"{results[ident][1]}: the representative of equivalent terms depends on the order of the terms in the expression",
                  key=f"order {name} / representative")
        want = tuple(sorted(min(c, key=lambda i: specs[i]["canon"]) for c in classes))
        ctx.check(rule, fn, results[ident][0] == want, f"{name}: equivalent terms are mapped onto the one with the smallest canonical text",
                  f"{name}: terms {results[ident][0]} are kept, the smallest canonical texts of the classes belong to {want}",
                  key=f"order {name} / smallest text")
    ctx.floor(rule, "orders of Expr.terms evaluated", n, 20)


# ---------------------------------------------------------------------------------------------------------------------
# R07i: the Term / Obj views of an Expr reflect its CURRENT assumptions, whatever was read before

def _inline_views(q):
    return q.startswith("expr_container:") or q == "indices:sort_idx_canonical"


class ViewWorld:
    """One Expr record per path: the wrapped sympy object is a record `Add(c0, c1, ..)` whose arguments carry the table
    of tensors of the term; everything that depends on the assumptions of the expression (target / contracted indices,
    descriptions, positions, couplings, patterns, the term list itself) is evaluated from the source of expr_container with
    the per-instance memoisation of misc.cached_member / cached_property modelled on the records."""

    def __init__(self, sx, terms, target_idx=None):
        from ..symex import Func
        self.w = World()
        self.n = 0
        sx.hooks.update(self.hooks())
        # the record is initialised by Expr.__init__ itself (private fields a refactoring adds included)
        self.e = Obj("expr_container:Expr", "expr")
        init = sx.find_method("expr_container:Expr", "__init__")[0]
        sx._invoke(Func(init, [], init._module, init._qual, bound=self.e), [self.content(terms)], {"target_idx": target_idx}, None)
        if not isinstance(self.e.attrs.get("_expr"), Obj):
            raise AnalysisError("C07: Expr.__init__ does not store the wrapped object in the modelled way")

    def content(self, terms):
        self.n += 1
        args = []
        for k, tens in enumerate(terms):
            c = Obj(None, f"S{self.n}.{k}")
            c.attrs.update(_classes={"Mul"} if len(tens) > 1 else set(), _tensors=[dict(t) for t in tens], is_number=False)
            args.append(c)
        if len(args) == 1:
            return args[0]
        s = Obj(None, f"S{self.n}")
        s.attrs.update(_classes={"Add"}, args=tuple(args), is_number=False, _terms=args)
        return s

    def with_tensors(self, content, change):
        """A new wrapped object: ``change(tensor spec) -> tensor spec`` applied to every tensor."""
        parts = content.attrs["args"] if "Add" in content.attrs["_classes"] else (content,)
        return self.content([[change(dict(t)) for t in c.attrs["_tensors"]] for c in parts])

    # ---- the vocabulary below expr_container: sympy objects, index symbols
    def hooks(self):
        from ..symex import Func

        def construct(sx, cls, label, a, kw):
            o = Obj(f"expr_container:{cls}", label)
            init = sx.find_method(f"expr_container:{cls}", "__init__")[0]
            sx._invoke(Func(init, [], init._module, init._qual, bound=o), list(a), kw, None)
            return o

        def term_ctor(sx, a, kw):
            if not (a and isinstance(a[0], Obj) and a[0].cls == "expr_container:Expr"):
                return NotImplemented
            self.n += 1
            return construct(sx, "Term", f"term#{self.n}", a, kw)

        def obj_ctor(sx, a, kw):
            if not (a and isinstance(a[0], Obj) and a[0].cls == "expr_container:Term"):
                return NotImplemented
            self.n += 1
            o = construct(sx, "Obj", f"obj#{self.n}", a, kw)
            pos = a[1] if len(a) > 1 else kw.get("pos")
            ts = sx.getattr(a[0], "sympy", None).attrs["_tensors"][pos]
            base = Obj(None, f"{o.name}.base")
            idx = self.w.tup(ts["upper"] + ts["lower"])
            base.attrs.update(_classes=set(ANTI.get(ts["kind"]) or OTHER[ts["kind"]]), name=ts["name"], upper=self.w.tup(ts["upper"]),
                              lower=self.w.tup(ts["lower"]), bra_ket_sym=ts["bks"], idx=idx)
            o.attrs.update(base=base, base_and_exponent=(base, ts["exp"]), exponent=ts["exp"], idx=idx, name=ts["name"],
                           type_as_str=ts["kind"], sympy=sym(f"{o.name}.sympy"))
            return o

        def length(sx, a, kw):
            if len(a) == 1 and isinstance(a[0], Obj) and a[0].cls == "expr_container:Expr":
                c = a[0].attrs["_expr"]
                return len(c.attrs["args"]) if "Add" in c.attrs["_classes"] else 1
            if len(a) == 1 and isinstance(a[0], Obj) and a[0].cls == "expr_container:Term":
                return len(sx.getattr(a[0], "sympy", None).attrs["_tensors"])
            return NotImplemented

        def get_symbols(sx, a, kw):
            v = a[0] if a else kw.get("idx")
            if isinstance(v, str):
                return [self.w.idx(c) for c in v]
            if isinstance(v, Obj):
                return [v]
            if isinstance(v, (list, tuple, set)) and all(isinstance(x, Obj) for x in v):
                return list(v)
            return NotImplemented

        def braket(sx, a, kw):
            # Term._apply_tensor_braket_sym(return_sympy=True): the term with the bra-ket symmetry the expression declares
            t = a[0]
            e = sx.getattr(t, "expr", None)
            symt, anti = set(sx.getattr(e, "sym_tensors", None)), set(sx.getattr(e, "antisym_tensors", None))
            c = sx.getattr(t, "sympy", None)
            return self.with_tensors(c, lambda ts: dict(ts, bks=1 if ts["name"] in symt else -1 if ts["name"] in anti else ts["bks"])
                                     if ts["kind"] in ANTI else ts)

        def make_real(sx, a, kw):
            c = sx.getattr(a[0], "sympy", None)
            return self.with_tensors(c, lambda ts: dict(ts, name=ts["name"].replace("cc", "")))

        def add_ctor(sx, a, kw):
            if not a or not all(isinstance(x, Obj) and "_tensors" in x.attrs for x in a):
                return NotImplemented
            return self.content([x.attrs["_tensors"] for x in a])
        def sympify(sx, a, kw):
            return a[0] if len(a) == 1 and isinstance(a[0], Obj) else NotImplemented
        return {"Term": term_ctor, "Obj": obj_ctor, "len": length, "sympify": sympify, "get_symbols": get_symbols, "S": _sympy_S(),
                "Term._apply_tensor_braket_sym": braket, "Term.make_real": make_real, "Add": add_ctor}

    @staticmethod
    def attr_hook(sx, obj, attr, node):
        # Expr.__getattr__ / Term.__getattr__: unknown attributes are those of the wrapped sympy object
        if isinstance(obj, Obj) and attr == "args" and obj.cls in ("expr_container:Expr", "expr_container:Term"):
            return sx.getattr(sx.getattr(obj, "sympy", node), "args", node)
        return NotImplemented


def _plain(v):
    if isinstance(v, Obj):
        return v.attrs.get("name") if "space" in v.attrs else v.name
    if isinstance(v, T):
        return show(v)
    if isinstance(v, dict):
        return tuple(sorted(((_plain(k), _plain(x)) for k, x in v.items()), key=repr))
    if isinstance(v, (set, frozenset)):
        return tuple(sorted((_plain(x) for x in v), key=repr))
    if isinstance(v, (list, tuple)):
        return tuple(_plain(x) for x in v)
    return v


def _observe(sx, vw):
    """Everything simplify reads off the terms of the expression (and the assumptions the views report)."""
    out = []
    terms = sx.getattr(vw.e, "terms", None)
    if not isinstance(terms, (tuple, list)):
        raise AnalysisError(f"C07: Expr.terms is not a sequence of views: {show(terms)[:120]}")
    for t in terms:
        c = sx.getattr(t, "sympy", None)
        rec = {"wrapped": c, "tensors": tuple(_label(ts, ()) for ts in c.attrs["_tensors"]) if isinstance(c, Obj) and "_tensors" in c.attrs else None}
        for a in ("target", "contracted", "provided_target_idx", "real", "sym_tensors", "antisym_tensors"):
            rec[a] = sx.getattr(t, a, None)
        rec["pattern"] = sx.call_method(t, "pattern", [], {}, None)
        objs = sx.getattr(t, "objects", None)
        rec["description"] = [sx.call_method(o, "description", [], {}, None) for o in objs]
        rec["crude_pos"] = [sx.call_method(o, "crude_pos", [], {}, None) for o in objs]
        rec["object target"] = [sx.getattr(sx.getattr(o, "term", None), "target", None) for o in objs]
        rec["_specs"] = [dict(ts) for ts in c.attrs["_tensors"]] if rec["tensors"] is not None else None
        out.append(rec)
    return out


def view_mutators(tier):
    """name -> (initial target | None, list of (method, args)) applied to one Expr object."""
    st = lambda x: ("set_target_idx", [x])
    m = {
        "explicit targets ij -> Einstein convention": ("ij", [st(None)]),
        "explicit targets ij -> explicit target i": ("ij", [st("i")]),
        "Einstein convention -> explicit targets ij": (None, [st("ij")]),
        "explicit target i -> explicit targets ij": ("i", [st("ij")]),
        "bra-ket symmetry declared for f": ("ij", [("set_sym_tensors", [["f"]])]),
        "bra-ket antisymmetry declared for f, then Einstein convention": ("ij", [("set_antisym_tensors", [["f"]]), st(None)]),
    }
    if tier == "thorough":
        m.update({
            "explicit targets ij -> i -> ij": ("ij", [st("i"), st("ij")]),
            "Einstein convention -> explicit targets ijk (all indices)": (None, [st("ijk")]),
            "targets dropped, then bra-ket symmetry declared": ("ij", [st(None), ("set_sym_tensors", [["f"]])]),
            "real orbitals, then explicit target i": ("ij", [("make_real", []), st("i")]),
        })
    return m


def view_expressions(tier):
    A, N = "antisymtensor", "nonsymtensor"
    ex = {
        "f^i_j X_j + f^i_k X_k": [[tensor(A, "f", "i", "j"), tensor(N, "X", "j")], [tensor(A, "f", "i", "k"), tensor(N, "X", "k")]],
    }
    if tier == "thorough":
        ex["V^ij_ab t^ab_kl Y_kl + V^il_ab t^ab_kj Y_kj"] = [
            [tensor(A, "V", "ij", "ab", 1), tensor("amplitude", "t2", "ab", "kl"), tensor(N, "Y", "kl")],
            [tensor(A, "V", "il", "ab", 1), tensor("amplitude", "t2", "ab", "kj"), tensor(N, "Y", "kj")]]
        ex["f^i_j f^j_k X_k (one term, repeated tensor)"] = [[tensor(A, "f", "i", "j"), tensor(A, "f", "j", "k"), tensor(N, "X", "k")]]
    return ex


def _einstein(tens):
    cnt = {}
    for ts in tens:
        for x in ts["upper"] + ts["lower"]:
            cnt[x] = cnt.get(x, 0) + abs(ts["exp"])
    return cnt


def r07i_views(ctx):
    rule = "R07i"
    node = ctx.model.fn("expr_container:Expr.terms")
    cn = _canon(ctx)
    n = 0
    for ename, terms in view_expressions(ctx.tier).items():
        for mname, (initial, muts) in view_mutators(ctx.tier).items():
            name = f"{ename}, {mname}"

            def script(read_first):
                def run_(sx):
                    vw = ViewWorld(sx, terms, initial)
                    if read_first:
                        _observe(sx, vw)
                    for meth, args in muts:
                        sx.call_method(vw.e, meth, list(args), {}, None)
                        if read_first:
                            _observe(sx, vw)
                    return _observe(sx, vw), vw.e
                return run_
            res = []
            for read_first in (True, False):
                sx = Symex(ctx.model, inline=_inline_views, hooks={}, what=f"views of an Expr[{name}]", max_paths=16,
                           obj_identity=True, attr_hook=ViewWorld.attr_hook)
                sx.instance_memo = True
                outs = sx.run_script(script(read_first))
                res.append(_one(outs, f"views of {name}"))
                n += 1
            (after, e1), (fresh, e2) = res
            keys = [k for k in (fresh[0] if fresh else {}) if not k.startswith("_") and k != "wrapped"]
            diff = None
            if len(after) != len(fresh):
                diff = ("number of terms", len(after), len(fresh), "-")
            for k_, (ra, rf) in enumerate(zip(after, fresh)):
                for k in keys:
                    if diff is None and _plain(ra[k]) != _plain(rf[k]):
                        diff = (k, _plain(ra[k]), _plain(rf[k]), k_)
            ctx.check(rule, node, diff is None, f"{name}: the views report the same after the terms were inspected before every change of the "
                      "assumptions as without any earlier read",
                      f"{name}: `{diff[0]}` of term {diff[3]} is {_cut(repr(diff[1]))} when the terms / their fingerprints were read before the "
                      f"change, and {_cut(repr(diff[2]))} on an expression that was not inspected before: views handed out by Expr.terms keep "
                      "data computed under the old assumptions (call-history dependent; simplify would compare stale fingerprints)" if diff else "",
                      key=f"views {name} / history")
            # independent statement of what the views have to report now
            prov = sx_final_target(muts, initial)
            bad = None
            entries, pentries = [], []
            for k_, ra in enumerate(after):
                specs = ra["_specs"]
                if specs is None:
                    raise AnalysisError(f"C07: the term views of {name} do not wrap the terms of the expression")
                cnt = _einstein(specs)
                want_t = tuple(sorted(prov, key=cn.key)) if prov is not None else tuple(sorted((x for x, c in cnt.items() if c == 1), key=cn.key))
                want_c = tuple(sorted((x for x, c in cnt.items() if (x not in prov if prov is not None else c > 1)), key=cn.key))
                got_t, got_c = _plain(ra["target"]), _plain(ra["contracted"])
                if bad is None and (got_t != want_t or got_c != want_c or any(_plain(x) != want_t for x in ra["object target"])):
                    bad = (k_, got_t, got_c, want_t, want_c)
                if bad is None and _plain(ra["provided_target_idx"]) != (want_t if prov is not None else None):
                    bad = (k_, _plain(ra["provided_target_idx"]), "-", want_t if prov is not None else None, "-")
                for ts, d in zip(specs, ra["description"]):
                    tsc = cn.tensor(ts)
                    grp = tsc["bks"] if tsc["kind"] in ANTI else 0
                    entries.append((grp, f"{_label(tsc, want_t)} (term {k_})", dkey(tsc, want_t, True, True), d))
            ctx.check(rule, node, bad is None, f"{name}: target / contracted indices of every term view follow the current assumptions",
                      f"{name}: term {bad[0]} reports target {bad[1]} / contracted {bad[2]}, the expression now has target {bad[3]} / contracted "
                      f"{bad[4]}" if bad else "", key=f"views {name} / target")
            for grp in sorted({g for g, *_ in entries}):
                partition_check(ctx, rule, node, f"{name}: descriptions after the change (bra-ket symmetry {grp})",
                                [x[1:] for x in entries if x[0] == grp], f"views {name} / descriptions {grp}",
                                "objects that agree in type, name, spaces, exponent and CURRENT target names share the description",
                                "objects that differ in one of them get different descriptions")
    ctx.floor(rule, "call histories on one Expr evaluated", n, 8)


def sx_final_target(muts, initial):
    """The provided target indices after the history (None: Einstein convention)."""
    cur = tuple(initial) if initial is not None else None
    for meth, args in muts:
        if meth == "set_target_idx":
            cur = tuple(args[0]) if args[0] is not None else None
    return cur


def run(ctx):
    if ctx.want("R07a") or ctx.want("R07b") or ctx.want("R07c"):
        r07abc_partition(ctx)
    if ctx.want("R07c") or ctx.want("R07a"):
        r07c_simplify(ctx)
    if ctx.want("R07f"):
        r07f_history(ctx)
    if ctx.want("R07g"):
        r07g_order(ctx)
    if ctx.want("R07i"):
        r07i_views(ctx)
    if ctx.want("R07e"):
        r07e_objects(ctx)
        r07e_terms(ctx)
    if ctx.want("R07e") or ctx.want("R07h"):
        r07e_equivariance(ctx)
    if ctx.want("R07e") and ctx.tier == "thorough":
        r07e_sweep(ctx)
    if ctx.want("R07d") or ctx.want("R08a"):
        c08.r08a(ctx, modules={"simplify"} if ctx.tier == "quick" else {"simplify", "expr_container", "reduce_expr"})
