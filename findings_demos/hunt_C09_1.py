"""
wicks(..., simplify_kronecker_deltas=True) loses a general target index.

<0| a^+_p a_q |0> = delta_{pq} * n_q   (n_q = 1 for an occupied q, else 0)

Run from the worktree root: /venv/bin/python hunt_out/1/demo.py
"""
import itertools
import os
import sys
from fractions import Fraction

sys.path.insert(0, os.getcwd())

from sympy import Add, Mul, Pow  # noqa E402
from sympy.physics.secondquant import F, Fd  # noqa E402
from adcgen.func import wicks  # noqa E402
from adcgen.indices import Index, get_symbols  # noqa E402
from adcgen.sympy_objects import KroneckerDelta, NonSymmetricTensor  # noqa E402

# 2 occupied + 2 virtual spin orbitals
ORBS = [("o", 0), ("o", 1), ("v", 0), ("v", 1)]


def idx_range(s):
    sp = s.space[0]
    return [o for o in ORBS if sp == "g" or o[0] == sp]


def tensor_value(name, orbs):  # some fixed rational numbers
    n = sum((7 * k + 3) * (5 * ORBS.index(o) + 2) for k, o in enumerate(orbs))
    return Fraction(n % 17 - 8, 3) or Fraction(1, 3)


def ev_obj(o, asg):
    if o.is_number:
        return Fraction(int(o.p), int(o.q))
    elif isinstance(o, Pow):
        return ev_obj(o.base, asg) ** int(o.exp)
    elif isinstance(o, KroneckerDelta):
        return Fraction(int(asg[o.args[0]] == asg[o.args[1]]))
    elif isinstance(o, NonSymmetricTensor):
        return tensor_value(o.name, tuple(asg[s] for s in o.idx))
    raise TypeError(type(o))


def value(expr, target_asg):
    """Sum over all indices of each term that are no target indices."""
    total = Fraction(0)
    for term in Add.make_args(expr):
        contracted = sorted((s for s in term.atoms(Index)
                             if s not in target_asg), key=str)
        for combo in itertools.product(*[idx_range(s) for s in contracted]):
            asg = dict(target_asg)
            asg.update(zip(contracted, combo))
            val = Fraction(1)
            for o in Mul.make_args(term):
                val *= ev_obj(o, asg)
            total += val
    return total


def check(label, expr, targets, reference=None):
    raw = wicks(expr)
    simplified = wicks(expr, simplify_kronecker_deltas=True)
    print(f"--- {label}: {expr}   (target indices {targets})")
    print(f"    wicks(...)                                 = {raw}")
    print(f"    wicks(..., simplify_kronecker_deltas=True) = {simplified}")
    n_bad = 0
    for combo in itertools.product(*[idx_range(s) for s in targets]):
        asg = dict(zip(targets, combo))
        expected = value(raw, asg)
        if reference is not None:
            assert expected == reference(asg)  # unsimplified result is fine
        got = value(simplified, asg)
        if expected != got:
            if n_bad < 3:
                print(f"    {asg}: expected {expected}, got {got}")
            n_bad += 1
    lost = [s for s in targets if not simplified.has(s)]
    if lost:
        print(f"    target indices lost: {lost}")
    print(f"    -> {n_bad} differing target index assignments")
    return n_bad or len(lost)


p, q, r, s = get_symbols("pqrs")
i, k = get_symbols("ik")
failures = 0
# 1) zeroth order one-particle density matrix <0|p^+ q|0> = delta_pq n_q
failures += check(
    "density", Fd(p) * F(q), [p, q],
    lambda asg: Fraction(int(asg[p] == asg[q] and asg[q][0] == "o"))
)
# 2) <0|p q^+|0> = delta_pq (1 - n_q)
failures += check(
    "hole density", F(p) * Fd(q), [p, q],
    lambda asg: Fraction(int(asg[p] == asg[q] and asg[q][0] == "v"))
)
# 3) the general target index is contracted with an operator whose index is
#    summed with a tensor:  sum_q X_{kq} <0| q^+ s |0> = X_{ks} n_s
X = NonSymmetricTensor("X", (k, q))
failures += check(
    "tensor", X * Fd(q) * F(s), [k, s],
    lambda asg: (tensor_value("X", (asg[k], asg[s]))
                 if asg[s][0] == "o" else Fraction(0))
)

if failures:
    print("DEFECT: evaluating the deltas changed the value / lost a target "
          "index.")
    sys.exit(1)
print("OK")
sys.exit(0)
