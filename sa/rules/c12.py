"""C12 registered intermediate definitions (formula IR)."""
from __future__ import annotations

import json
import os
import re

from ..model import AnalysisError
from .itmd_ir import canonical, show, space_of, Poly, tensor_factor, _Typing, _factor_indices
from .itmd_sx import _Ref, registry_sx as registry, definition_sx, substituted, builder, declared_spin_blocks, expected_spin_blocks

EXPLANATION = (
    "Everything is decided on values obtained by abstract evaluation (sa.symex) of intermediates.py, nothing on the "
    "spelling of the source. Class table: the class attributes of every subclass of RegisteredIntermediate are evaluated, "
    "_build_tensor (own or inherited) is evaluated on the default index names with the tensor constructors of "
    "sympy_objects.py as vocabulary (arguments bound to the parameter names of __new__) and the class table is read off "
    "the constructed tensor value. Definitions: _build_expanded_itmd is evaluated for fully_expand=False and =True on "
    "model values (index names; polynomials of eri/fock/orb_energy factors, references of other intermediates, Rational "
    "prefactors, orbital energy denominators) through helpers, closures, loops, comprehensions, temporaries; the Expr "
    "containers of expr_container.py are mutable records: which of their methods (permute, subs, expand, doit, "
    "substitute_contracted, copy, the arithmetic and op= methods) update the container and return it and which return a new "
    "container is read off their source by abstract evaluation, .sympy is an immutable snapshot, so aliasing of a "
    "container that is permuted in place is seen in the evaluated formula; eri/fock/"
    "orb_energy are evaluated through down to the tensor constructors; tensor()/expand_itmd() of a referenced intermediate "
    "are modelled by their contract (validated indices; cached base expression with the targets substituted and every "
    "declared contracted index replaced by a fresh one, undeclared ones leak). The polynomials are brought into a normal "
    "form modulo renaming of contracted indices and the declared (anti)symmetry of every factor. R12c: eri/fock/orb_energy "
    "build <pq||rs> (antisymmetric 2/2), f_pq (1/1), e_p and refuse any other number of indices. R12a: index typing of "
    "the once expanded variant (arity and position-wise space of every factor; each target index exactly once and each "
    "other index exactly twice per term outside the denominator; denominators carry target indices only; declared target "
    "and contracted tuples equal what the formula uses). R12b: _build_tensor (index groups partition the indices; "
    "amplitudes virtual upper / occupied lower; order digit equals _order; class name encodes rank/order/space). R12d: "
    "every permutational symmetry declared for the tensor (symmetry/antisymmetry inside same-space index groups, bra-ket "
    "(anti)symmetry) holds for the normal form of the definition, assuming the referenced intermediates have their "
    "declared symmetry. R12g: the fully expanded variant (the library default) is well formed and the contracted tuple it "
    "returns is exactly the set of summation indices of the cached expression it returns, including the indices brought "
    "in by the expanded intermediates. R12j: the fully expanded variant equals the once expanded variant with the fully "
    "expanded definitions of the referenced intermediates inserted (residuals: equals the once expanded variant). R12f: "
    "RegisteredIntermediate.allowed_spin_blocks is evaluated for every intermediate; every block of the default indices on "
    "which the definition does not vanish by spin conservation of its factors (<pq||rs>: as many alpha spins in pq as in rs, "
    "f_pq: equal spins, referenced intermediates: recursively) must be declared allowed and the blocks must be determinable "
    "(no RuntimeError, also for the RE residuals); declared but vanishing blocks are notes; the restriction every tensor "
    "object contributes is the evaluated value of expr_container.Obj.allowed_spin_blocks. R12k: Obj.expand_intermediates "
    "and Polynom.expand_intermediates are evaluated for the exponents 1, 2, 3, -1, 1/2, fully and once expanded, sympy and "
    "Expr result, with expand_itmd / Term.expand_intermediates as effectful vocabulary (every call is a new expansion with "
    "fresh contracted indices): a positive integer power n is a product of n factors, each built from its own expansion "
    "call(s), every call result used exactly once, indices/targets, return_sympy=True and the level forwarded; other "
    "exponents: one expansion raised to the exponent. R12i: "
    "perturbation order of every term equals _order (maximum for residuals). R12h: the normal form equals the reference "
    "normal form recorded for the pinned tree (cross-checked once against the derived amplitudes/densities/residuals).")
ASSUMPTIONS = [
    "real orbitals (<pq||rs> = <rs||pq>, f_pq = f_qp) as required by the factorisation routines",
    "the identity of each reference formula with the RSPT quantity was confirmed once by running the library "
    "(definition vs GroundState derivation); the static check decides agreement with that reference",
    "R12f: spatial_orbitals.allowed_spin_blocks is vocabulary, modelled by its contract (a block survives when the indices "
    "can be given spins such that every object is on a block of its evaluated Obj.allowed_spin_blocks; objects without known "
    "blocks do not restrict; RuntimeError when an index only sits on such objects); is_t_amplitude and Obj.longname are "
    "vocabulary (C11); vanishing is decided by spin conservation of the factors only (no accidental cancellation between terms); "
    "the tensor object lists its indices in the order of the default indices (C11)",
    "vocabulary with assumed contract (not looked into here): get_symbols, the tensor constructors of sympy_objects.py, "
    "tensor_names, RegisteredIntermediate.tensor/expand_itmd/validate_indices (C11), Expr(..).substitute_contracted(), "
    ".permute/.subs/.copy/.expand/.sympy/.atoms(Index), sort_idx_canonical, sympy Rational/S/Pow",
    "R12k: the registry is fixed when Intermediates() is first used (its `available` table is a snapshot); classes registered "
    "later are outside the quantifier of this property (every *registered, available* intermediate)",
    "a definition that uses constructs outside the formula IR (foreign tensors, spin indices, sympy functions other than "
    "the vocabulary) is an ANALYSIS-ERROR, never a guess",
]

ORACLE = os.path.join(os.path.dirname(os.path.dirname(os.path.abspath(__file__))), "oracle", "itmd_normal_forms.json")


def _load(ctx, name, fully_expand=False):
    return definition_sx(ctx, name, fully_expand)  # (Poly, target, contracted) or the _Typing error


def _index_counts(poly, target):
    """-> (first violation of the index convention | None, summation indices, non-target indices in denominators)"""
    tset = set(target)
    used, in_denom = set(), set()
    bad = None
    for coef, fs in poly.terms:
        if coef == 0:
            continue
        cnt = {}
        for f in fs:
            if f[0] == "denom":
                in_denom |= {i for i in _factor_indices(f) if i not in tset}
                continue
            for i in _factor_indices(f):
                cnt[i] = cnt.get(i, 0) + 1
        for i, n in cnt.items():
            if i in tset and n != 1 and bad is None:
                bad = f"target index {i} occurs {n} times in one term"
            if i not in tset:
                used.add(i)
                if n != 2 and bad is None:
                    bad = f"summation index {i} occurs {n} times in one term"
        missing = tset - set(cnt)
        if missing and bad is None:
            bad = f"a term does not carry the target index/indices {sorted(missing)}"
    return bad, used, in_denom


def r12a(ctx, defs):
    rule = "R12a"
    reg = registry(ctx)
    for name, d in defs.items():
        info = reg[name]
        fn = info["build"]
        ref = f"intermediates:{name}._build_expanded_itmd"
        if isinstance(d, _Typing):
            ctx.bad(rule, d.node, d.msg, fn=ref, key=f"{name} typing")
            continue
        poly, target, contracted = d
        ctx.check(rule, fn, tuple(target) == tuple(info["default_idx"]), f"{name}: declared targets are the default indices",
                  f"{name}: base_expr target {tuple(target)} differs from _default_idx {info['default_idx']}", fn=ref, key=f"{name} target")
        bad, used, in_denom = _index_counts(poly, target)
        if bad is None and in_denom:
            bad = f"denominator carries the non-target index {sorted(in_denom)[0]}"
        ctx.check(rule, fn, bad is None, f"{name}: every term has the target indices once and summation indices twice",
                  f"{name}: {bad}", fn=ref, key=f"{name} index counts")
        decl = set(contracted or ())
        ctx.check(rule, fn, decl == used, f"{name}: declared contracted indices {sorted(decl)} are the summation indices used",
                  f"{name}: base_expr declares the contracted indices {sorted(decl)} but the formula sums over {sorted(used)}: "
                  "undeclared indices are never refreshed by expand_itmd and are shared by all later expansions", fn=ref,
                  key=f"{name} contracted")


def r12b(ctx):
    rule = "R12b"
    reg = registry(ctx)
    for name, info in reg.items():
        ref = f"intermediates:{name}._build_tensor"
        bt = info["build_tensor"]
        ctx.check(rule, bt, info["partition_ok"], f"{name}: slices partition the indices", f"{name}: the index groups {info['slices']} (positions in `indices`) overlap or leave a gap",
                  fn=ref, key=f"{name} partition")
        if info["tensor_kind"] == "Amplitude":
            up, lo = info["groups"]
            ok = all(space_of(x) == "v" for x in up) and all(space_of(x) == "o" for x in lo) and len(up) == len(lo)
            ctx.check(rule, bt, ok, f"{name}: virtual upper, occupied lower (convention of GroundState.psi)",
                      f"{name}: amplitude built with upper={up}, lower={lo}", fn=ref, key=f"{name} amplitude groups")
        if info["tensor_name_cfg"] in ("gs_amplitude", "gs_density"):
            ctx.check(rule, bt, info["tensor_ext"] == str(info["order"]), f"{name}: order digit {info['tensor_ext']} == _order",
                      f"{name}: tensor name carries order `{info['tensor_ext']}` but _order is {info['order']}", fn=ref, key=f"{name} order digit")
        m = re.fullmatch(r"t(\d)_(\d)", name)
        if m:
            n_occ = sum(1 for x in info["default_idx"] if space_of(x) == "o")
            n_virt = sum(1 for x in info["default_idx"] if space_of(x) == "v")
            ctx.check(rule, info["cls"], int(m.group(1)) == n_occ == n_virt and int(m.group(2)) == info["order"],
                      f"{name}: rank and order encoded in the class name", f"{name}: class name does not match {n_occ} occ / {n_virt} virt "
                      f"defaults and order {info['order']}", fn=f"intermediates:{name}", key=f"{name} class name")
        m = re.fullmatch(r"p0_(\d)_([ov]{2})", name)
        if m:
            sp = "".join(space_of(x) for x in info["default_idx"])
            ctx.check(rule, info["cls"], int(m.group(1)) == info["order"] and m.group(2) == sp, f"{name}: order and block encoded in the class name",
                      f"{name}: class name does not match block {sp} / order {info['order']}", fn=f"intermediates:{name}", key=f"{name} class name")


def r12d(ctx, defs):
    rule = "R12d"
    reg = registry(ctx)
    n = 0
    for name, d in defs.items():
        if isinstance(d, _Typing):
            continue
        info = reg[name]
        if info["tensor_kind"] == "NonSymmetricTensor":
            continue
        poly, target, _ = d
        base = canonical(poly, target, reg)
        ref = f"intermediates:{name}._build_expanded_itmd"
        sgn = 1 if info["tensor_kind"] == "SymmetricTensor" else -1
        word = "symmetric" if sgn == 1 else "antisymmetric"
        for grp in info["groups"]:
            for a, b in zip(grp, grp[1:]):
                if space_of(a) != space_of(b):
                    continue
                n += 1
                perm = canonical(poly.permute((a, b)), target, reg)
                want = {k: sgn * v for k, v in base.items()}
                ctx.check(rule, info["build"], perm == want, f"{name}: {word} under P_{a}{b}",
                          f"{name}: the tensor is declared {word} in ({a},{b}) but the definition is not: "
                          f"P_{a}{b} X {'-' if sgn == 1 else '+'} X has {len(_diff(perm, want))} non-cancelling term(s), e.g. {_example(perm, want)}",
                          fn=ref, key=f"{name} P_{a}{b}")
        if info["bra_ket_sym"] in (1, -1) and len(info["groups"]) == 2 and len(info["groups"][0]) == len(info["groups"][1]):
            up, lo = info["groups"]
            if all(space_of(x) == space_of(y) for x, y in zip(up, lo)):
                n += 1
                mp = {}
                for x, y in zip(up, lo):
                    mp[x], mp[y] = y, x
                sw = canonical(poly.rename(mp), target, reg)
                want = {k: info["bra_ket_sym"] * v for k, v in base.items()}
                bk = "symmetric" if info["bra_ket_sym"] == 1 else "antisymmetric"
                ctx.check(rule, info["build"], sw == want, f"{name}: {bk} under bra-ket exchange",
                          f"{name}: the tensor is declared bra-ket {bk} but the definition does not behave so under {up}<->{lo}: "
                          f"{_example(sw, want)}", fn=ref, key=f"{name} braket")
        elif info["bra_ket_sym"] not in (0, 1, -1):
            ctx.bad(rule, info["build_tensor"], f"{name}: bra_ket_sym {info['bra_ket_sym']!r} is not 0, 1 or -1",
                    fn=f"intermediates:{name}._build_tensor", key=f"{name} bra_ket_sym value")
    ctx.floor(rule, "declared symmetry operations checked", n, 25)


def _diff(a, b):
    return [k for k in set(a) | set(b) if a.get(k, 0) != b.get(k, 0)]


def _example(a, b):
    d = _diff(a, b)
    if not d:
        return "-"
    k = sorted(d, key=repr)[0]
    return show({k: a.get(k, 0) - b.get(k, 0)})[0][:160]


def r12c(ctx, report=True):
    """the integral builders the definitions are typed with build what the formula IR (and the factorisation) assume"""
    rule = "R12c"
    all_ok = True
    cases = [
        ("eri", ("p", "q", "r", "s"), tensor_factor("eri", "V", ("p", "q"), ("r", "s")), "<pq||rs>: antisymmetric, upper pq, lower rs"),
        ("eri", "iajb", tensor_factor("eri", "V", ("i", "a"), ("j", "b")), "<ia||jb> from a string of names"),
        ("eri", ("p", "q", "r"), "Inputerror", "3 indices are refused"),
        ("eri", ("p", "q", "r", "s", "t"), "Inputerror", "5 indices are refused"),
        ("fock", ("p", "q"), tensor_factor("fock", "f", ("p",), ("q",)), "f_pq: upper p, lower q"),
        ("fock", ("p",), "Inputerror", "1 index is refused"),
        ("fock", ("p", "q", "r"), "Inputerror", "3 indices are refused"),
        ("orb_energy", "p", tensor_factor("e", "e", ("p",)), "e_p"),
        ("orb_energy", ("p", "q"), "Inputerror", "2 indices are refused"),
    ]
    for fname, idx, want, what in cases:
        fn = ctx.model.fn(f"intermediates:{fname}")
        kind, val = builder(ctx, fname, idx)
        if isinstance(want, str):
            ok = kind == "raise" and val == want
            got = f"raises {val}" if kind == "raise" else f"returns {_showval(val)}"
        else:
            ok = kind == "value" and isinstance(val, Poly) and val.terms == want.terms
            got = f"raises {val}" if kind == "raise" else f"returns {_showval(val)}"
        all_ok = all_ok and ok
        if report:
            ctx.check(rule, fn, ok, f"{fname}({idx!r}): {what}", f"{fname}({idx!r}) {got}; expected: {what}",
                      fn=f"intermediates:{fname}", key=f"{fname} {idx!r}")
    return all_ok


def _showval(v):
    if isinstance(v, Poly):
        return " + ".join(f"{c} * " + " ".join(f"{f[1]}[" + "|".join(",".join(g) for g in f[2:]) + "]" for f in fs) for c, fs in v.terms)
    return repr(v)


def r12g(ctx, defs):
    """contracted-index bookkeeping of the fully expanded variant (the library default)"""
    rule = "R12g"
    reg = registry(ctx)
    n = 0
    for name, info in reg.items():
        fn = info["build"]
        ref = f"intermediates:{name}._build_expanded_itmd"
        once = defs[name]
        hidden = []
        if not isinstance(once, _Typing) and info["itmd_type"] != "re_residual":
            # referenced intermediates whose own definition sums over indices (they are hidden in the tensor symbol)
            hidden = sorted({f[1] for _, fs in once[0].terms for f in fs if f[0] == "itmd"
                             and (isinstance(defs[f[1]], _Typing) or defs[f[1]][2])})
            if hidden:
                n += 1
        full = _load(ctx, name, True)
        if isinstance(full, _Typing):
            if not isinstance(once, _Typing):
                ctx.bad(rule, full.node, f"fully expanded variant: {full.msg}", fn=ref, key=f"{name} typing (fully expanded)")
            continue
        poly, target, contracted = full
        bad, used, _ = _index_counts(poly, target)
        if tuple(target) != tuple(info["default_idx"]):
            bad = bad or f"target {tuple(target)} differs from _default_idx {info['default_idx']}"
        ctx.check(rule, fn, bad is None, f"{name}: fully expanded variant carries the targets once and summation indices twice per term",
                  f"{name} (fully_expand=True): {bad}", fn=ref, key=f"{name} index counts (fully expanded)")
        decl = list(contracted or ())
        ok = len(set(decl)) == len(decl) and set(decl) == used
        ctx.check(rule, fn, ok, f"{name}: fully expanded variant declares exactly its {len(used)} summation indices",
                  f"{name} (fully_expand=True) " + (f"expands {hidden}, whose definitions bring their own summation indices; it " if hidden else "")
                  + f"declares the contracted indices {sorted(decl)} but the cached expression sums over {sorted(used)}"
                  f" (undeclared: {sorted(used - set(decl))}, unused: {sorted(set(decl) - used)}): undeclared indices are never "
                  "refreshed by expand_itmd and collide with target names like k, l, c, d", fn=ref, key=f"{name} contracted bookkeeping")
    ctx.floor(rule, "definitions that expand intermediates with hidden summation indices", n, 7)


def r12j(ctx, defs):
    """both variants of the cached base expression denote the same quantity"""
    rule = "R12j"
    reg = registry(ctx)
    n = 0
    for name, info in reg.items():
        once = defs[name]
        full = _load(ctx, name, True)
        if isinstance(once, _Typing) or isinstance(full, _Typing):
            continue
        ref = f"intermediates:{name}._build_expanded_itmd"
        try:
            if info["itmd_type"] == "re_residual":
                want, how = once[0], "the once expanded variant (residuals are not expanded further)"
            else:
                want, how = substituted(ctx, once[0], reg, name), "the once expanded variant with the referenced definitions inserted"
        except _Typing:
            continue
        a = canonical(full[0], full[1], reg)
        b = canonical(want, once[1], reg)
        n += 1
        ctx.check(rule, info["build"], a == b and list(full[1]) == list(once[1]), f"{name}: fully expanded variant ({len(a)} terms) = {how}",
                  f"{name}: _build_expanded_itmd(fully_expand=True) is not {how}: {len(_diff(a, b))} term(s) differ, e.g. "
                  f"{_example(a, b)}", fn=ref, key=f"{name} variants")
    ctx.floor(rule, "definitions with both variants compared", n, 20)


def r12f(ctx, defs):
    """every spin block declared vanishing for the tensor symbol vanishes for the definition"""
    rule = "R12f"
    reg = registry(ctx)
    n = 0
    for name, info in reg.items():
        if isinstance(defs[name], _Typing) or any(isinstance(defs[f[1]], _Typing) for _, fs in defs[name][0].terms
                                                   for f in fs if f[0] == "itmd"):
            continue
        if _index_counts(defs[name][0], defs[name][1])[0] is not None:
            continue  # ill-formed definition (R12a): blocks undefined
        fn = ctx.model.fn("intermediates:RegisteredIntermediate.allowed_spin_blocks")
        ref = f"intermediates:{name}.allowed_spin_blocks"
        want = expected_spin_blocks(ctx, name)
        got = declared_spin_blocks(ctx, name)
        n += 1
        order = "".join(info["default_idx"])
        if got is None:
            ctx.bad(rule, fn, f"{name}: allowed_spin_blocks raises RuntimeError - an index of the definition only sits on tensors "
                    "without known spin blocks, the blocks of the tensor symbol cannot be determined (the definition is non-zero on "
                    f"{sorted(want)})", fn=ref, key=f"{name} spin blocks")
            continue
        missing = sorted(want - got)
        ctx.check(rule, fn, not missing, f"{name}: the {len(want)} non-vanishing blocks of the definition (order {order}) are declared allowed",
                  f"{name}: allowed_spin_blocks = {sorted(got)} declares the block(s) {missing} (index order {order}) vanishing, but the "
                  "definition does not vanish there by spin conservation of its integrals and amplitudes: spin integration drops "
                  "these contributions of every expression containing the tensor", fn=ref, key=f"{name} spin blocks")
        extra = sorted(got - want)
        if extra:
            ctx.note(f"R12f {name}: declared allowed but vanishing by spin conservation: {extra} (harmless, only extra work)")
    ctx.floor(rule, "intermediates with spin blocks compared", n, 15)


def r12k(ctx):
    """expand_intermediates on a power: every factor of the power is a separate expansion (own contracted indices)"""
    from fractions import Fraction
    from ..symex import Symex, Obj
    from ..terms import T, sym, t_mul, t_add, t_pow, args_of
    rule = "R12k"
    EC = "expr_container:"
    hooks_arith = {"Mul": lambda sx, a, kw: t_mul(*a) if a else 1, "Add": lambda sx, a, kw: t_add(*a) if a else 0,
                   "Pow": lambda sx, a, kw: t_pow(a[0], a[1])}

    def factors(v):
        """factors of a product value; a positive integer power counts as repeated factor"""
        if isinstance(v, T) and v.op == "mul":
            return [x for f in v.args for x in factors(f)]
        if isinstance(v, T) and v.op == "pow" and isinstance(v.args[1], int) and not isinstance(v.args[1], bool) and v.args[1] > 0:
            return factors(v.args[0]) * v.args[1]
        return [v]

    def unwrap(v, return_sympy, target):
        if return_sympy:
            return v, True
        if isinstance(v, T) and v.op == "call" and v.args[0] == "Expr":
            a = args_of(v)
            return list(a.values())[0], a.get("target_idx") == target or dict(v.args[2]).get("target_idx") == target
        return v, False

    idx = ("i", "j")
    target = ("i", "j")
    n_checked = 0
    for cls in ("Obj", "Polynom"):
        fn = ctx.model.fn(f"{EC}{cls}.expand_intermediates")
        for exponent in (1, 2, 3, -1, Fraction(1, 2)):
            for level in (True, False):
                for return_sympy in (True, False):
                    calls = []

                    def expansion(tag):
                        sig = ctx.model.fn("intermediates:RegisteredIntermediate.expand_itmd" if tag == "definition"
                                           else EC + "Term.expand_intermediates")

                        def f(sx, a, kw):
                            calls.append((tag, (), sx.bind(sig, a, kw, True, True, True)))  # by parameter name
                            return sym(f"{tag}#{len(calls)}")
                        return f
                    itm = _Ref("ITMD", expand_itmd=expansion("definition"))  # a definite registry entry (never None)

                    def intermediates(sx, a, kw):
                        o = Obj(None, "Intermediates()")
                        o.attrs["available"] = {"p9": itm}
                        return o
                    hooks = dict(hooks_arith)
                    hooks.update({"Intermediates": intermediates, "longname": lambda sx, a, kw: "p9",
                                  "methodcaller": lambda sx, a, kw: (lambda sx2, a2, kw2: sx2.call_method(a2[0], a[0], list(a[1:]), dict(kw), None))})
                    sx = Symex(ctx.model, inline=lambda q: q.split(".")[-1] not in ("longname",), hooks=hooks,
                               what=f"{cls}.expand_intermediates",
                               attr_hook=lambda sx_, o, attr, node: o.attrs.get(attr, NotImplemented) if isinstance(o, _Ref) else NotImplemented)

                    def args():
                        del calls[:]
                        term = Obj(None, "term", target=target)
                        if cls == "Obj":
                            base = Obj("sympy_objects:AntiSymmetricTensor", "tensor")
                            me = Obj(EC + "Obj", "obj", base=base, sympy=sym("obj"), exponent=exponent, idx=idx, assumptions={}, term=term)
                        else:
                            ts = []
                            for k in (1, 2):
                                t = Obj(None, f"t{k}")
                                t.attrs["expand_intermediates"] = expansion(f"term{k}")
                                ts.append(t)
                            me = Obj(EC + "Polynom", "polynom", terms=tuple(ts), exponent=exponent, assumptions={}, term=term)
                        return dict(self=me, target=None, return_sympy=return_sympy, fully_expand=level)
                    outs = sx.run(fn, args)
                    what = f"{cls}.expand_intermediates(exponent {exponent}, fully_expand={level}, return_sympy={return_sympy})"
                    key = f"{cls} exponent {exponent} {'fully' if level else 'once'} {'sympy' if return_sympy else 'Expr'}"
                    if len(outs) != 1 or outs[0].kind != "return":
                        raise AnalysisError(f"R12k: {what}: {outs}")
                    val, wrapped = unwrap(outs[0].value, return_sympy, target)
                    n = exponent if isinstance(exponent, int) and exponent > 1 else 1
                    fs = factors(val) if n > 1 else [val]
                    if n == 1 and exponent != 1:
                        ok_shape = isinstance(val, T) and val.op == "pow" and val.args[1] == exponent
                        fs = [val.args[0]] if ok_shape else [val]
                    else:
                        ok_shape = True
                    used = [str(x.args[0]) for f in fs for x in ([f] if not (isinstance(f, T) and f.op == "add") else f.args)
                            if isinstance(x, T) and x.op == "sym"]
                    per_factor = 1 if cls == "Obj" else 2
                    # every factor is built from expansions of its own: n * per_factor calls, each result used exactly once,
                    # every factor contains one expansion of every part
                    want_calls = n * per_factor
                    ok_calls = len(calls) == want_calls and sorted(used) == sorted(f"{c[0]}#{k + 1}" for k, c in enumerate(calls))
                    ok_parts = len(fs) == n and all(
                        sorted(str(x.args[0]).split("#")[0] for x in ([f] if not (isinstance(f, T) and f.op == "add") else f.args)
                               if isinstance(x, T) and x.op == "sym")
                        == (["definition"] if cls == "Obj" else ["term1", "term2"]) for f in fs)
                    if cls == "Obj":
                        ok_args = all(c[2].get("indices") == idx and c[2].get("fully_expand") is level
                                      and c[2].get("return_sympy") is True for c in calls)
                    else:
                        ok_args = all(c[2].get("target") == target and c[2].get("fully_expand") is level
                                      and c[2].get("return_sympy") is True for c in calls)
                    n_checked += 1
                    ctx.check(rule, fn, ok_shape and ok_calls and ok_parts and ok_args and wrapped,
                              f"{what}: {n} separately expanded factor(s), level and indices forwarded",
                              f"{what} evaluates to {val!r} from the expansion calls {[(c[0], c[2]) for c in calls]}: expected "
                              f"{'a product of ' + str(n) + ' factors, each built from its own call of the expansion' if n > 1 else 'one expansion'}"
                              " (expand_itmd generates fresh contracted indices per call; a single expansion raised to the power shares one "
                              "set of summation indices between the factors: sum_k (x_k)^2 instead of (sum_k x_k)^2), with the indices / "
                              "targets, return_sympy=True and the expansion level forwarded", fn=f"{EC}{cls}.expand_intermediates", key=key)
    ctx.floor(rule, "expansion scenarios", n_checked, 40)


def r12i(ctx, defs):
    rule = "R12i"
    reg = registry(ctx)
    for name, d in defs.items():
        if isinstance(d, _Typing):
            continue
        info = reg[name]
        poly, target, _ = d
        orders = []
        for coef, fs in poly.terms:
            if coef == 0:
                continue
            o = 0
            for f in fs:
                if f[0] == "eri":
                    o += 1
                elif f[0] == "itmd":
                    o += reg[f[1]]["order"]
            orders.append(o)
        ref = f"intermediates:{name}._build_expanded_itmd"
        if info["itmd_type"] == "re_residual":
            ok = max(orders) == info["order"]
            what = f"maximum order of the terms {max(orders)}"
        else:
            ok = set(orders) == {info["order"]}
            what = f"orders of the terms {sorted(set(orders))}"
        ctx.check(rule, info["build"], ok, f"{name}: perturbation order {info['order']} = (#integrals + orders of the referenced intermediates)",
                  f"{name}: _order is {info['order']} but {what}: a referenced intermediate of the wrong order or a missing integral",
                  fn=ref, key=f"{name} order")


def r12h(ctx, defs):
    rule = "R12h"
    reg = registry(ctx)
    if not os.path.exists(ORACLE):
        raise AnalysisError("reference normal forms missing")
    with open(ORACLE) as f:
        oracle = json.load(f)["normal_forms"]
    for name, d in defs.items():
        if isinstance(d, _Typing):
            continue
        poly, target, _ = d
        nf = show(canonical(poly, target, reg))
        want = oracle.get(name)
        ref = f"intermediates:{name}._build_expanded_itmd"
        if want is None:
            ctx.bad(rule, reg[name]["build"], f"{name}: no reference normal form recorded", fn=ref, key=f"{name} reference")
            continue
        extra = [t for t in nf if t not in want]
        missing = [t for t in want if t not in nf]
        ctx.check(rule, reg[name]["build"], not extra and not missing, f"{name}: {len(nf)} term(s) equal the reference normal form",
                  f"{name}: the definition differs from the reference formula: unexpected {extra[:2]} / missing {missing[:2]}",
                  fn=ref, key=f"{name} reference")
    gone = [n for n in oracle if n not in defs]
    ctx.check(rule, None, not gone, "every reference definition still registered", f"registered definitions vanished: {gone}",
              fn="intermediates", key="registered set")


def run(ctx):
    reg = registry(ctx)
    ctx.floor("R12a", "registered definitions", len(reg), 25)
    # the definitions are typed with eri/fock/orb_energy: when these do not build the integrals of the formula IR
    # nothing else can be decided (and everything else would be a consequence)
    if not r12c(ctx, report=ctx.want("R12c")):
        if not ctx.want("R12c"):
            raise AnalysisError("eri/fock/orb_energy do not build the integrals the formula IR assumes (see rule R12c)")
        return
    defs = {n: _load(ctx, n) for n in reg}
    if ctx.want("R12a"):
        r12a(ctx, defs)
    if ctx.want("R12b"):
        r12b(ctx)
    if ctx.want("R12d"):
        r12d(ctx, defs)
    if ctx.want("R12g"):
        r12g(ctx, defs)
    if ctx.want("R12j"):
        r12j(ctx, defs)
    if ctx.want("R12f"):
        r12f(ctx, defs)
    if ctx.want("R12k"):
        r12k(ctx)
    if ctx.want("R12i"):
        r12i(ctx, defs)
    if ctx.want("R12h"):
        r12h(ctx, defs)
