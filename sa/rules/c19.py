"""C19 history, hash seed and configuration independence."""
from __future__ import annotations

import ast

from ..model import (AnalysisError, U, Defs, FuncNode, call_name, walk_fn, kwarg, enclosing,
                     enclosing_stmt, parents, short, fn_of, always_exits as common_always_exits)
from ..symex import Symex, Obj, ClassRef, Ext, Func, Raised, _freeze
from ..terms import T, sym, show, subterms, calls, strip, expand_products, args_of, t_cmp, t_not, canon
from . import common
from . import c08
from . import dx
from .deriv import reaching_assignments

EXPLANATION = (
    "R19g: sort_idx_canonical is evaluated (sa.symex) for a sample of 63 indices (occ/virt/general names with and without "
    "number, three spins); every pair with different (space, spin, number, letter) must be ordered by that tuple before the "
    "tie-break is reached, and the evaluated key contains no hash()/id(). R19a(1): every call that passes a sort key (key= "
    "keyword of any callee, positional arguments bound to a parameter `key` of a repository function) is resolved to the "
    "function bodies the key may denote (lambdas, local bindings, nested/module/imported functions, partial-style wrappers); "
    "the call-graph closure of those bodies over the repository must not reach hash()/id()/__hash__. R19a(2): order taint - "
    "every ordered read of an unordered collection (set displays/comprehensions, set()/frozenset(), .atoms()/set algebra, "
    "names/parameters/functions that evaluate to one, dicts filled per element of one) by a loop, comprehension, list()/"
    "tuple()/join/unpacking/pop()/next(iter()) is followed through names, containers, derived sequences and nested loops to "
    "its consumers: membership, any/all/len/sum/min/max/sorted/set/Counter, Add/Mul, set.add/update, keyed stores, commutative "
    "accumulation, diagnostics and pop() of a set established to have one element end the taint; return/yield, indexing, "
    "arguments of functions that cannot be looked into, per-element effects, order-sensitive comparison are sinks (an "
    "argument of a resolvable repository function is followed through the bound parameter of the callee like a local name, a "
    "tainted return value taints the call; a parameter that receives a set at a call site is itself unordered; a value that "
    "leaves a private helper only by return is followed into all its callers); sorted()/sort()/min()/max() end "
    "the taint only when their key separates any two elements - the key function is evaluated on a symbolic element and "
    "every returned key must contain the element itself or its dummy_index (sort_idx_canonical does, (space, spin) or a name "
    "does not: ties keep the hash order); an in-place list.sort() with such a key ends "
    "the taint of the list for the reads it dominates, a dict built from the elements is only tainted for reads of its order "
    "(not for look-ups by key). A read that reaches a sink is discharged only by order-permuting differential evaluation: "
    "evaluate_deltas, transform_to_spatial_orbitals, TensorNames.rename_tensors, _group_objects and RegisteredIntermediate."
    "expand_itmd are evaluated with the hash-order provenance of sa.symex (set_order / iter_log, helpers looked "
    "into) on model inputs once per iteration order of every set; the read must be reached with permuted elements and every "
    "scenario must return the same result - a differing result is itself reported with the two results. R19b: every derivation function "
    "(ground state, intermediate states, secular matrix, properties, Operators.operator) is evaluated for small orders with a "
    "reference model of the index registry (generic requests hand out fresh objects, named requests one object per name) and "
    "with every call of an uncached wavefunction method (psi, overlap, norm_factor - must carry no caching decorator) as a "
    "distinguishable instance; on every returning path (a) no product, also inside wicks(..), contains the same index-carrying "
    "factor twice, a power of one, or one wavefunction instance in two factors (memoised overlaps, cached psi, repeated "
    "cached factors with identical index strings), (b) named indices are requested only for the caller-supplied strings and "
    "for names generated in the same evaluation, (c) all tensor indices of psi are generic indices of that very request. "
    "R19c: provenance of string literals (through local bindings, f-strings, concatenation, defaults of parameters, module "
    "constants): no literal that spells a TensorNames default (also t<n>[cc], p<n>, default + computed extension) reaches a "
    "tensor constructor name, a comparison / membership / table look-up / prefix test of a tensor name (.name reads and what "
    "is bound from them, tensor-name parameters found by a fixpoint over the call sites) or an argument bound to a "
    "tensor-name parameter; every member of Obj that reaches the registry of intermediates (directly or through self.<member>) is "
    "evaluated with its helpers looked into on amplitude / density tensors that carry the configured names of a renamed and of "
    "the default configuration: the registry must be asked for the registered default long name (t2_2, t2_1cc, p0_2_oo). "
    "R19d: TensorNames evaluated: dataclass(frozen=True, slots=True), Singleton "
    "metaclass, one module-level instance = _from_config() = TensorNames(**json), defaults() = {field.name: field.default}; no "
    "attribute store / setattr on the instance (through any import alias) in the package. R19e: the code of Indices is evaluated "
    "on concrete registry states for all request histories up to depth 3 over an alphabet of generic and named requests "
    "(names of the current, the next and no generation): a named request returns the one object of its name (stability), a "
    "generic request never returns an object handed out earlier in the history (freshness); registry ownership and the "
    "complete model check of the registry are R08c/R08d of C08, run here as well. R19i: cached_member and cached_property are "
    "evaluated on a method model that counts its evaluations, for call sequences over two instances, two methods, positional/"
    "keyword/default spellings: a result is reused only for the same instance, method and fully bound arguments, equal "
    "requests are evaluated once, the method receives the requested arguments. R19j: TensorNames.rename_tensors is evaluated "
    "on a model expression (a list of tensor names with rename_tensor / atoms, both iteration orders) for seven "
    "configurations (identity, one rename, two defaults swapped, a chain, amplitudes renamed, amplitudes and densities swapped, "
    "a name taken from a later field): every default name incl. t<n>[cc] / p<n> ends up with the name map_default_name "
    "assigns to it, all at once; bra-ket symmetry of the new name: Expr.rename_tensor is evaluated on a model expression (terms = "
    "tuples of (tensor name, bra_ket_sym)) that satisfies the container invariant 'a tensor whose name is listed in sym_tensors / "
    "antisym_tensors carries that symmetry' for 4 expression shapes x 4 declarations (new name symmetric, antisymmetric, undeclared, "
    "declared next to others) x 4 (current, new) pairs: afterwards the container holds exactly the renamed tensors and every tensor "
    "called `new` carries the symmetry declared for `new` (A - A^T cancels after A -> B with B symmetric), other tensors are "
    "unchanged, self is returned; TensorNames.rename_tensors is evaluated through Expr.rename_tensor on the real expression V Y - "
    "V^T Y + f Y - f^T Y + D V written with the default names inside a container whose assumptions name the configured tensors "
    "(sym_tensors = configured fock/eri as set by real=True, antisym_tensors = configured sym_orb_denom) for six configurations "
    "(eri/fock renamed, eri renamed, swapped, chained, denominator renamed, defaults): every tensor ends up with its configured name "
    "and the symmetry declared for it (F58). R19k: simplify is evaluated on a model expression with two terms that are equal up to a "
    "renaming of contracted indices, once for each order of Expr.terms (sympy orders the arguments by the name strings of the "
    "generic indices, which wrap around with the counters): the result - which term represents the class - must be the same. "
    "R19l (cache age): (A) Term.substitute_contracted is evaluated on a model term with two groups of generic indices in both "
    "age orders - do the lowest names follow the creation age? (B) intermediate_state(2, ph, bra) is evaluated with s_root and "
    "overlap_precursor looked into and precursor / norm_factor as time-stamped leaves (a cached leaf keeps the stamp of its "
    "first computation) with cold member caches and with precursor(1, ph, bra, <target indices>) already cached: if the "
    "relative age of the index groups of a product differs and (A) holds, the text after substitute_contracted depends on "
    "the cache state; reported under the single key (R19l, misc:cached_member, cache age). R19f: alias flow from every use of a cached method/property whose result is a mutable "
    "container (names, walrus, conditional expressions, reaching definitions) to in-place mutations (mutator methods, item/"
    "attribute stores, augmented assignment, arguments of repository functions that mutate the bound parameter); cached "
    "derivation methods return immutable sympy objects on every evaluated path.")
ASSUMPTIONS = [
    "equality of text across histories needs executions and is not decided",
    "ordered reads of sets that reach a sink are discharged by differential evaluation on a few model inputs per function (two "
    "iteration orders: sorted and reversed), not for all inputs",
    "derivation skeletons are evaluated for bounded orders/spaces only (quick: orders <= 3, norm_factor/s_root <= 6; thorough adds order 4, "
    "s_root 7, doubles blocks); wicks, simplify, operators and tensors are uninterpreted, indices follow the reference registry model",
    "order taint follows a value into a repository function only when the callee is uniquely resolved (bare name, self./cls. "
    "method), back out of private/nested helpers only when all callers are known; other calls (sympy, methods of other "
    "objects) are sinks; attributes of self are not followed; set-valued dict entries (d[k] being a set) are not typed as unordered",
    "call-graph closure resolves attribute calls by method name over the whole package (over-approximation)",
    "R19k models find_compatible_terms as 'the first term of a class represents it'; R19l assumes that sub-results of order 0 "
    "(norm factors below order 2) carry no generic indices and compares ages, not full texts",
    "R19e explores histories of depth <= 3 with spin-free occupied requests; R19i models inspect.signature/bind/apply_defaults, "
    "functools.wraps and property by reference implementations; R19j models the expression as a list of tensor names "
    "(rename_tensor renames every tensor of that name, atoms lists the names present) for seven configurations; the bra-ket clause of "
    "R19j evaluates the Expr level only: Term.rename_tensor / Term._apply_tensor_braket_sym (and Obj below) are the reference model "
    "'rename and keep the bra_ket_sym attribute' / 'set the symmetry the owning container declares for the name'; a tensor that "
    "carries one symmetry and is renamed to a name declared with the opposite one is outside the scenarios",
    "tensor-name typing: `.name` reads, names bound from them and derived tensor-name parameters; literals built by "
    "str.join/replace or read from files are not tracked",
]

CACHE_DECOS = ("cached_member", "cached_property", "cache", "lru_cache", "cached")
MUTATORS = {"append", "extend", "update", "pop", "clear", "add", "remove", "insert", "sort", "reverse", "setdefault",
            "popitem", "discard", "expand", "subs", "doit", "make_real", "substitute_contracted", "substitute_with_generic",
            "factor", "set_sym_tensors", "set_antisym_tensors", "set_target_idx", "rename_tensor", "diagonalize_fock",
            "block_diagonalize_fock", "expand_antisym_eri", "use_symbolic_denominators", "use_explicit_denominators",
            "expand_intermediates", "permute"}


# ====================================================================== R19a (1): sort keys
# Every function that can be reached from a sort key (call graph closure over the repository) is free of hash()/id().

SEED_CALLS = ("hash", "id", "__hash__")


def _scope_chain(node):
    out = []
    for p in [node] + list(parents(node)):
        if isinstance(p, FuncNode):
            out.append(p)
    return out


class CallGraph:
    def __init__(self, model):
        self.model = model
        self.by_short = {}
        for ref, fn in model.all_functions():
            self.by_short.setdefault(fn.name, []).append(fn)
        self._direct = {}
        self._defs = {}
        self._busy = set()

    def defs(self, fn):
        if id(fn) not in self._defs:
            self._defs[id(fn)] = Defs(fn)
        return self._defs[id(fn)]

    def resolve_name(self, name, at):
        """repository functions a bare name may denote at ``at`` (nested defs, local lambdas, module level, imports)"""
        out = []
        mod = at._module
        for sc in _scope_chain(at):
            q = f"{sc._qual}.{name}"
            if q in mod.functions:
                return [mod.functions[q]]
            b = self.defs(sc).all_defs(name)
            if b:
                if (name, id(sc)) in self._busy:
                    return out
                self._busy.add((name, id(sc)))
                try:
                    for kind, v in b:
                        if kind in ("assign",) and v is not None:
                            out.extend(self.functions_of_expr(v, v if hasattr(v, "_module") else at))
                finally:
                    self._busy.discard((name, id(sc)))
                return out
        if name in mod.functions:
            return [mod.functions[name]]
        if name in mod.classes:
            return [f for q, f in mod.functions.items() if q.rsplit(".", 1)[0] == name and f.name in ("__init__", "__new__", "__post_init__", "__call__")]
        if name in mod.imports:
            origin = mod.imports[name]
            modp, _, obj = origin.partition(":")
            if _ and modp.startswith("."):
                tgt = modp.lstrip(".")
                base = mod.name.split(".")[:-1]
                lvl = len(modp) - len(tgt)
                if lvl > 1:
                    base = base[:len(base) - (lvl - 1)]
                full = ".".join(base + ([tgt] if tgt else []))
                m2 = self.model.modules.get(full)
                if m2 is not None:
                    if obj in m2.functions:
                        return [m2.functions[obj]]
                    if obj in m2.classes:
                        return [f for q, f in m2.functions.items() if q.rsplit(".", 1)[0] == obj and
                                f.name in ("__init__", "__new__", "__post_init__", "__call__")]
        return out

    def functions_of_expr(self, e, at):
        """function bodies an expression used as a callable may denote"""
        if isinstance(e, ast.Lambda):
            return [e]
        if isinstance(e, ast.Name):
            return self.resolve_name(e.id, at)
        if isinstance(e, ast.Attribute):
            return list(self.by_short.get(e.attr, []))
        if isinstance(e, ast.Call):      # partial(f, ..), cmp_to_key(f), attrgetter(..)
            out = []
            for a in list(e.args) + [k.value for k in e.keywords]:
                if isinstance(a, (ast.Lambda, ast.Name, ast.Attribute)):
                    out.extend(self.functions_of_expr(a, at))
            return out
        if isinstance(e, ast.IfExp):
            return self.functions_of_expr(e.body, at) + self.functions_of_expr(e.orelse, at)
        return []

    def direct(self, f):
        """(seed calls, callees) of one function body / lambda"""
        if id(f) in self._direct:
            return self._direct[id(f)]
        seeds, callees = [], []
        body = [f.body] if isinstance(f, ast.Lambda) else f.body
        for st in body:
            for n in ast.walk(st):
                if not isinstance(n, ast.Call):
                    # a function passed on as a key / callback inside the body
                    continue
                fu = n.func
                if isinstance(fu, ast.Name) and fu.id in SEED_CALLS and not self._shadowed(fu.id, n):
                    seeds.append(n)
                elif isinstance(fu, ast.Attribute) and fu.attr in SEED_CALLS:
                    seeds.append(n)
                else:
                    callees.extend(self.functions_of_expr(fu, n))
                for a in list(n.args) + [k.value for k in n.keywords]:
                    if isinstance(a, ast.Lambda):
                        callees.append(a)
                    elif isinstance(a, ast.Name):
                        if a.id in SEED_CALLS and not self._shadowed(a.id, n):
                            seeds.append(n)
                        else:
                            callees.extend(self.resolve_name(a.id, n))
        self._direct[id(f)] = (seeds, callees)
        return seeds, callees

    def _shadowed(self, name, at):
        for sc in _scope_chain(at):
            if self.defs(sc).all_defs(name):
                return True
        return name in at._module.functions

    def reachable_seeds(self, roots):
        """seed calls reachable from the given bodies: list of (seed call node, chain of function names)"""
        out, seen = [], set()
        stack = [(r, ()) for r in roots]
        while stack:
            f, chain = stack.pop()
            if id(f) in seen:
                continue
            seen.add(id(f))
            seeds, callees = self.direct(f)
            nm = getattr(f, "name", "<lambda>")
            for s in seeds:
                out.append((s, chain + (nm,)))
            for c in callees:
                stack.append((c, chain + (nm,)))
        return out, len(seen)


def call_graph(ctx):
    if getattr(ctx, "_c19_cg", None) is None:
        ctx._c19_cg = CallGraph(ctx.model)
    return ctx._c19_cg


def _key_sites(ctx, cg):
    """(call node, key expression) for every call that passes a sort key: ``key=`` keyword of any callee and positional
    arguments bound to a parameter named ``key`` of a repository function"""
    out = []
    for mname, m in ctx.model.modules.items():
        ctx.model.used_modules.add(mname)
        for n in ast.walk(m.tree):
            if not isinstance(n, ast.Call):
                continue
            k = kwarg(n, "key")
            if k is None and n.args and not any(isinstance(a, ast.Starred) for a in n.args):
                for f in cg.functions_of_expr(n.func, n) if isinstance(n.func, ast.Name) else []:
                    if isinstance(f, ast.Lambda):
                        continue
                    params = [a.arg for a in f.args.posonlyargs + f.args.args]
                    if "key" in params and params.index("key") < len(n.args):
                        k = n.args[params.index("key")]
            if k is not None and not (isinstance(k, ast.Constant) and k.value is None):
                out.append((n, k))
    return out


def r19a_keys(ctx):
    rule = "R19a"
    cg = call_graph(ctx)
    sites = _key_sites(ctx, cg)
    ctx.floor(rule, "calls that pass a sort key", len(sites), 20)
    n_fn = 0
    by_seed = {}
    for call, k in sites:
        ref = fn_of(call)
        if isinstance(k, ast.Name) and k.id in SEED_CALLS and not cg._shadowed(k.id, call):
            ctx.bad(rule, call, f"`{short(call, 70)}` sorts by {k.id}(): the order depends on the interpreter's hash seed / addresses",
                    fn=ref, key=f"key {k.id}")
            continue
        seeds, n = cg.reachable_seeds(cg.functions_of_expr(k, call))
        n_fn += n
        for s, chain in seeds:
            by_seed.setdefault(id(s), (s, chain, []))[2].append(call)
        if not seeds:
            ctx.ok(rule, k, f"sort key of `{call_name(call)}` and the {n} function(s) it reaches are free of hash()/id()", fn=ref,
                   key=f"key site {ref} {short(call, 60)}")
    for s, chain, calls_ in by_seed.values():
        ctx.bad(rule, s, f"`{U(s)}` is evaluated for the sort key of {len(calls_)} call(s), e.g. `{short(calls_[0], 60)}` (via "
                f"{' -> '.join(chain)}): the order of tied elements (and with it the printed text and the term count) depends on "
                "PYTHONHASHSEED / object addresses", fn=fn_of(s), key=f"{U(s.func)} in key {chain[-1]}")
    ctx.floor(rule, "function bodies reached from sort keys", n_fn, 20)


# ====================================================================== R19a (2): iteration order of sets
# Order taint: every ordered read of an unordered collection (loop, comprehension, list()/tuple()/unpacking/join/pop) is
# followed through names, containers and derived sequences to its consumers.  Order-free consumers (membership, any/all/
# len/sum/min/max/sorted/set/Counter, commutative Add/Mul, set.add, keyed stores, commutative accumulation, diagnostics)
# end the taint; a return/yield, an argument of another function, indexing, an effect performed per element ... is a
# sink.  A read that reaches a sink is a violation unless the order-permuting differential evaluation below discharges it.

ORDER_FREE_CALLS = {"sorted", "set", "frozenset", "any", "all", "sum", "len", "min", "max", "Mul", "Add", "Counter", "bool", "prod", "fsum",
                    "isinstance", "type"}
PASS_THROUGH_CALLS = {"list", "tuple", "enumerate", "zip", "reversed", "iter", "map", "filter", "chain", "from_iterable",
                      "product", "permutations", "combinations", "combinations_with_replacement", "islice", "deque"}
SET_METHODS = {"atoms", "intersection", "union", "difference", "symmetric_difference", "free_symbols"}
ORDER_FREE_EFFECTS = {"add", "update", "discard", "setdefault", "debug", "info", "warning", "error", "critical", "warn"}
SEQ_GROW = {"append", "extend", "insert", "appendleft", "extendleft"}
COMMUTATIVE_AUG = (ast.Add, ast.Mult, ast.BitOr, ast.BitAnd, ast.BitXor, ast.Sub)


class _Scope:
    """Name bindings of one function body including its comprehensions (nested defs/lambdas read them as closures)."""

    def __init__(self, fn, defs=None):
        self.fn = fn
        self.defs = defs or Defs(fn)
        self.loads = {}
        self.subscript_stores = {}
        for n in walk_fn(fn, nested=True):
            if isinstance(n, ast.Name) and isinstance(n.ctx, ast.Load):
                self.loads.setdefault(n.id, []).append(n)
        self.params = {a.arg: a for a in fn.args.posonlyargs + fn.args.args + fn.args.kwonlyargs}

    def values(self, name):
        return [v for k, v in self.defs.all_defs(name) if k == "assign" and v is not None]

    def is_local(self, name):
        return bool(self.defs.all_defs(name))


class SetOrder:
    def __init__(self, ctx):
        self.ctx = ctx
        self.model = ctx.model
        self.cg = call_graph(ctx)
        self._scopes = {}
        self._ret_unordered = {}

    def scope(self, fn):
        if id(fn) not in self._scopes:
            self._scopes[id(fn)] = _Scope(fn, self.cg.defs(fn))
        return self._scopes[id(fn)]

    # ------------------------------------------------------------ typing
    def unordered(self, e, sc, depth=5, seen=None):
        """The value of ``e`` is a set/frozenset (or a dict filled in the order of one)."""
        seen = set() if seen is None else seen
        if id(e) in seen or depth < 0:
            return False
        seen.add(id(e))
        if isinstance(e, (ast.Set, ast.SetComp)):
            return True
        if isinstance(e, ast.DictComp):
            return any(self.unordered(self._unwrap(g.iter), sc, depth - 1, seen) for g in e.generators)
        if isinstance(e, ast.Call):
            f = e.func
            if isinstance(f, ast.Name):
                if f.id in ("set", "frozenset"):
                    return True
                if f.id in ("dict", "list", "tuple", "sorted"):
                    return False
                for g in self.cg.resolve_name(f.id, e):
                    if isinstance(g, FuncNode) and self.returns_unordered(g):
                        return True
                return False
            if isinstance(f, ast.Attribute):
                if f.attr in SET_METHODS:
                    return True
                if f.attr in ("copy", "keys", "values", "items"):
                    return self.unordered(f.value, sc, depth - 1, seen)
                return False
        if isinstance(e, ast.BinOp) and isinstance(e.op, (ast.BitAnd, ast.BitOr, ast.BitXor, ast.Sub)):
            return self.unordered(e.left, sc, depth - 1, seen) or self.unordered(e.right, sc, depth - 1, seen)
        if isinstance(e, ast.IfExp):
            return self.unordered(e.body, sc, depth - 1, seen) or self.unordered(e.orelse, sc, depth - 1, seen)
        if isinstance(e, ast.NamedExpr):
            return self.unordered(e.value, sc, depth - 1, seen)
        if isinstance(e, ast.Name):
            if e.id in sc.params:
                ann = sc.params[e.id].annotation
                if ann is not None and U(ann).split("[")[0].split(".")[-1] in ("set", "frozenset", "Set", "FrozenSet", "AbstractSet"):
                    return True
            if any(self.unordered(v, sc, depth - 1, seen) for v in sc.values(e.id)):
                return True
            if e.id in sc.params and not sc.values(e.id) and depth > 1 and self.param_unordered(sc.fn, e.id, depth - 2):
                return True
            return e.id in self.tainted_dicts(sc)
        if isinstance(e, ast.Attribute) and e.attr in SET_METHODS:
            return True
        return False

    def param_unordered(self, fn, pname, depth=2):
        """some call of the (private or nested) function inside the package passes a set for this parameter"""
        if not hasattr(self, "_calls_by_name"):
            self._calls_by_name, self._punord = {}, {}
            for m in self.model.modules.values():
                for n in ast.walk(m.tree):
                    if isinstance(n, ast.Call):
                        self._calls_by_name.setdefault(call_name(n), []).append(n)
        key = (id(fn), pname)
        if key in self._punord:
            return self._punord[key]
        self._punord[key] = False
        params = [a.arg for a in fn.args.posonlyargs + fn.args.args]
        for call in self._calls_by_name.get(fn.name, []):
            f = call.func
            if isinstance(f, ast.Name):
                if not any(g is fn for g in self.cg.resolve_name(f.id, call)):
                    continue
                ps = params
            elif isinstance(f, ast.Attribute) and isinstance(f.value, ast.Name) and f.value.id in ("self", "cls") and \
                    call._module is fn._module and getattr(call, "_cls", None) == getattr(fn, "_cls", None):
                ps = params[1:] if params and params[0] in ("self", "cls") else params
            else:
                continue
            arg = None
            for k, a in enumerate(call.args):
                if isinstance(a, ast.Starred):
                    break
                if k < len(ps) and ps[k] == pname:
                    arg = a
            for kw in call.keywords:
                if kw.arg == pname:
                    arg = kw.value
            caller = enclosing(call, FuncNode)
            if arg is not None and caller is not None and self.unordered(arg, self.scope(caller), depth):
                self._punord[key] = True
                break
        return self._punord[key]

    def callers(self, fn):
        """call expressions inside the package that call the private / nested function ``fn`` (None: not all are known)"""
        self.param_unordered(fn, "")        # builds the call index
        if not (fn.name.startswith("_") and not fn.name.startswith("__") or getattr(fn, "_fn", None) is not None):
            return None
        out = []
        for call in self._calls_by_name.get(fn.name, []):
            f = call.func
            if isinstance(f, ast.Name) and any(g is fn for g in self.cg.resolve_name(f.id, call)):
                out.append(call)
            elif isinstance(f, ast.Attribute) and isinstance(f.value, ast.Name) and f.value.id in ("self", "cls") and \
                    call._module is fn._module and getattr(call, "_cls", None) == getattr(fn, "_cls", None):
                out.append(call)
            elif isinstance(f, ast.Attribute):
                return None     # called on another object: not all callers are known
        return out or None

    def _passes_unordered(self, call, fn, pname):
        params = [a.arg for a in fn.args.posonlyargs + fn.args.args]
        if isinstance(call.func, ast.Attribute) and params and params[0] in ("self", "cls"):
            params = params[1:]
        arg = None
        for k, a in enumerate(call.args):
            if isinstance(a, ast.Starred):
                return True
            if k < len(params) and params[k] == pname:
                arg = a
        for kw in call.keywords:
            if kw.arg == pname:
                arg = kw.value
        caller = enclosing(call, FuncNode)
        return arg is not None and caller is not None and self.unordered(arg, self.scope(caller), 3)

    def through_callers(self, sinks, fn, depth=2, param=None):
        """A value that only leaves a private helper through its return value is followed into the callers (``param``: the
        tainted value is that parameter - only the callers that pass a set for it are concerned)."""
        rets = [s for s in sinks if s[1] in ("returned", "yielded")]
        if not rets or depth <= 0:
            return sinks
        calls_ = self.callers(fn)
        if calls_ is None:
            return sinks
        if param is not None:
            calls_ = [c_ for c_ in calls_ if self._passes_unordered(c_, fn, param)]
        out = [s for s in sinks if s[1] not in ("returned", "yielded")]
        for call in calls_:
            caller = enclosing(call, FuncNode)
            if caller is None:
                out.append((call, "result used at module level"))
                continue
            saved = self.sc
            self.sc = self.scope(caller)
            try:
                inner = self.value_sinks(call, False)
            finally:
                self.sc = saved
            out.extend(self.through_callers(inner, caller, depth - 1))
        return out

    def returns_unordered(self, fn):
        if id(fn) not in self._ret_unordered:
            self._ret_unordered[id(fn)] = False
            sc = self.scope(fn)
            rets = [r.value for r in walk_fn(fn, nested=False) if isinstance(r, ast.Return) and r.value is not None]
            self._ret_unordered[id(fn)] = bool(rets) and all(self.unordered(r, sc, 3) for r in rets)
        return self._ret_unordered[id(fn)]

    def tainted_dicts(self, sc):
        """Dicts that receive new keys inside a loop over an unordered collection (their key order is tainted):
        name -> the unordered collection"""
        if not hasattr(sc, "_tdicts"):
            sc._tdicts = {}
            for n in walk_fn(sc.fn, nested=False):
                if not isinstance(n, ast.For):
                    continue
                srcs = [s for s in self._sources(n.iter) if self.unordered(s, sc, 3)]
                if not srcs:
                    continue
                for x in ast.walk(ast.Module(body=n.body, type_ignores=[])):
                    tg = []
                    if isinstance(x, ast.Assign):
                        tg = x.targets
                    elif isinstance(x, ast.AugAssign):
                        tg = [x.target]
                    for t in tg:
                        if isinstance(t, ast.Subscript) and isinstance(t.value, ast.Name) and \
                                any(isinstance(v, (ast.Dict, ast.DictComp)) or (isinstance(v, ast.Call) and
                                    call_name(v) in ("dict", "defaultdict", "OrderedDict")) for v in sc.values(t.value.id)):
                            sc._tdicts.setdefault(t.value.id, srcs[0])
        return sc._tdicts

    @staticmethod
    def _unwrap(e):
        """enumerate(S), zip(S, ..), map(f, S), list(S) ... read S in order"""
        while isinstance(e, ast.Call) and call_name(e) in PASS_THROUGH_CALLS and e.args:
            nxt = None
            for a in e.args:
                if not isinstance(a, (ast.Lambda, ast.Constant)):
                    nxt = a
                    break
            if nxt is None:
                break
            e = nxt
        return e

    def _sources(self, e):
        """the iterables read by an iteration expression (all arguments of zip/chain/product ...)"""
        if isinstance(e, ast.Call) and call_name(e) in PASS_THROUGH_CALLS and e.args:
            out = []
            for a in e.args:
                if isinstance(a, ast.Starred):
                    a = a.value
                if not isinstance(a, (ast.Lambda, ast.Constant)):
                    out.extend(self._sources(a))
            return out
        return [e]

    # ------------------------------------------------------------ sort keys
    def total_key(self, call):
        """The ``key`` of a sorted()/sort()/min()/max() call separates any two distinct elements: only then is the result
        independent of the order in which the elements arrive (ties keep the arrival order / the first one wins)."""
        k = kwarg(call, "key")
        if k is None or (isinstance(k, ast.Constant) and k.value is None):
            return True
        roots = self.cg.functions_of_expr(k, call)
        return bool(roots) and all(self._separates(f) for f in roots)

    def _separates(self, f):
        """the key function evaluated on a symbolic element: every returned key contains the element itself or its
        ``dummy_index`` (unique per sympy Dummy / Index object)"""
        if not hasattr(self, "_sep"):
            self._sep = {}
        if id(f) in self._sep:
            return self._sep[id(f)]
        self._sep[id(f)] = False
        e = sym("element")
        sx = Symex(self.model, inline=lambda q: True, what="sort key", max_paths=64)
        try:
            if isinstance(f, ast.Lambda):
                def body():
                    return sx.call_value(Func(f, [], f._module, "<lambda>"), [e], {}, f)
                outs = sx._explore(body)
            else:
                prm = [a.arg for a in f.args.posonlyargs + f.args.args if a.arg not in ("self", "cls")]
                if not prm:
                    return False
                outs = sx.run(f, lambda: {prm[0]: e})
        except AnalysisError:
            return False

        def of_element(x):
            while isinstance(x, T) and x.op in ("item", "attr", "elem"):
                x = x.args[0]
            return x == e

        def sep(v):
            if isinstance(v, (tuple, list)):
                return any(sep(x) for x in v)
            if isinstance(v, T):
                if v == e:
                    return True
                if v.op == "attr" and v.args[1] == "dummy_index" and of_element(v.args[0]):
                    return True
            return False
        rets = [o for o in outs if o.kind == "return"]
        self._sep[id(f)] = bool(rets) and all(sep(o.value) for o in rets)
        return self._sep[id(f)]

    # ------------------------------------------------------------ sites
    def sites(self, fn):
        """(expression that is the unordered collection, node that reads it in order)"""
        sc = self.scope(fn)
        out = []
        for n in walk_fn(fn, nested=True):
            if isinstance(n, FuncNode):
                continue
            reads = []
            if isinstance(n, (ast.For, ast.comprehension)):
                reads = [(s, n) for s in self._sources(n.iter)]
            elif isinstance(n, ast.Call):
                f = n.func
                par = getattr(n, "_parent", None)
                wrapper = isinstance(f, ast.Name) and f.id in PASS_THROUGH_CALLS
                if wrapper and isinstance(par, (ast.For, ast.comprehension)) and par.iter is n:
                    continue
                if wrapper and isinstance(par, ast.Call) and call_name(par) in PASS_THROUGH_CALLS and n in par.args:
                    continue    # read by the outer wrapper
                if isinstance(f, ast.Name) and f.id in PASS_THROUGH_CALLS | {"next", "str", "repr"} and n.args:
                    reads = [(s, n) for s in self._sources(n)] if f.id in PASS_THROUGH_CALLS else [(self._unwrap(n.args[0]), n)]
                elif isinstance(f, ast.Name) and f.id in ("sorted", "min", "max") and n.args and not self.total_key(n):
                    reads = [(s, n) for s in self._sources(n.args[0])]
                elif isinstance(f, ast.Attribute) and f.attr == "join" and n.args:
                    reads = [(s, n) for s in self._sources(n.args[0])]
                elif isinstance(f, ast.Attribute) and f.attr == "pop" and not n.args:
                    reads = [(f.value, n)]
                for a in n.args:
                    if isinstance(a, ast.Starred) and not (isinstance(f, ast.Name) and f.id in PASS_THROUGH_CALLS):
                        reads.append((a.value, a))
            elif isinstance(n, (ast.List, ast.Tuple)) and isinstance(n.ctx, ast.Load):
                reads = [(x.value, x) for x in n.elts if isinstance(x, ast.Starred)]
            elif isinstance(n, ast.Assign) and len(n.targets) == 1 and isinstance(n.targets[0], (ast.Tuple, ast.List)):
                reads = [(n.value, n)]      # unpacking
            for src, node in reads:
                owner = self.scope(enclosing(src, FuncNode) or fn)
                if self.unordered(src, owner):
                    out.append((src, node, owner))
        return out

    # ------------------------------------------------------------ consumers
    def sinks_of_read(self, src, node, sc):
        """order-sensitive consumers reached from one ordered read; [] means the order cannot be observed"""
        self.seen = set()
        self.sc = sc
        if isinstance(node, ast.For):
            return self.loop_sinks(node)
        if isinstance(node, ast.comprehension):
            comp = node._parent
            if isinstance(comp, ast.SetComp):
                return []
            if isinstance(comp, ast.DictComp):
                return self.value_sinks(comp)       # key order follows the set; followed like a sequence
            return self.value_sinks(comp)
        if isinstance(node, ast.Starred):
            return self.value_sinks(node)
        if isinstance(node, ast.Assign):
            return [] if self.singleton(src, node) else [(node, "unpacked into names")]
        if isinstance(node, ast.Call) and call_name(node) in ("next", "pop"):
            return [] if self.singleton(src, node) else [(node, "one element selected")]
        if isinstance(node, ast.Call) and call_name(node) in ("str", "repr"):
            return self.value_sinks(node)
        return self.value_sinks(node)

    def singleton(self, src, at):
        """``len(src) == 1`` is established (assert / enclosing branch) where ``at`` is evaluated"""
        if not isinstance(src, ast.Name):
            return False
        sx = Symex(self.model, what="guard")
        sx.prefix, sx.decisions, sx.facts, sx.path, sx.effects, sx.steps, sx.depth = [], [], {}, [], [], 0, 0
        names = {n.id for n in ast.walk(self.sc.fn) if isinstance(n, ast.Name)} - {"len"}
        sx.frames, sx.module = [{n: sym(n) for n in names if self.sc.is_local(n) or n in self.sc.params}], self.sc.fn._module
        want = t_cmp("==", T("call", "len", (sym(src.id),), ()), 1)

        def holds(test, pol):
            try:
                t = sx.ev(test)
            except AnalysisError:
                return False
            if not pol:
                t = t_not(t) if isinstance(t, T) else (not t)
            return isinstance(t, T) and (t == want or (t.op == "and" and want in t.args))
        child = at
        for p in parents(at):
            if isinstance(p, ast.If):
                if any(child is s for s in p.body) and holds(p.test, True):
                    return True
                if any(child is s for s in p.orelse) and holds(p.test, False):
                    return True
            if isinstance(p, ast.IfExp) and ((child is p.body and holds(p.test, True)) or (child is p.orelse and holds(p.test, False))):
                return True
            for field in ("body", "orelse", "finalbody"):
                lst = getattr(p, field, None)
                if isinstance(lst, list) and any(child is s for s in lst):
                    for s in lst:
                        if s is child:
                            break
                        if isinstance(s, ast.Assert) and holds(s.test, True):
                            return True
                        if isinstance(s, ast.If) and not s.orelse and common_always_exits(s.body) and holds(s.test, False):
                            return True
                        if any(isinstance(b, ast.Name) and isinstance(b.ctx, ast.Store) and b.id == src.id for b in ast.walk(s)) \
                                and not isinstance(s, ast.Assert):
                            pass
            if isinstance(p, FuncNode):
                break
            child = p
        return False

    def _diagnostic(self, n):
        """inside a raise statement / logging call: text of a message only"""
        for p in [n] + list(parents(n)):
            if isinstance(p, ast.Raise):
                return True
            if isinstance(p, ast.Call) and call_name(p) in ("debug", "info", "warning", "error", "critical", "warn", "print"):
                return True
            if isinstance(p, ast.Assert) and p.msg is not None and any(x is n for x in ast.walk(p.msg)):
                return True
            if isinstance(p, ast.stmt):
                return False
        return False

    def value_sinks(self, v, nested=False):
        """Consumers of an order-tainted value: a sequence/string whose order follows the set, or (``nested``) a container
        whose elements are such sequences."""
        if (id(v), nested) in self.seen:
            return []
        self.seen.add((id(v), nested))
        p = getattr(v, "_parent", None)
        if p is None:
            return [(v, "escapes")]
        if self._diagnostic(v):
            return []
        if isinstance(p, ast.Starred):
            return self.value_sinks(p, nested)
        if isinstance(p, ast.keyword):
            call = p._parent
            if call_name(call) in ORDER_FREE_CALLS and not nested:
                return []
            r = self.into_callee(call, v, nested)
            return r if r is not None else [(call, f"passed to {call_name(call)}(..)")]
        if isinstance(p, ast.Call):
            nm = call_name(p)
            if nm in ("sorted", "min", "max") and not nested and not self.total_key(p):
                # ties keep the arrival order: the sorted sequence / the selected element still follows the set
                return self.value_sinks(p, nested) if nm == "sorted" else [(p, f"{nm}() with a key that does not separate the elements")]
            if nm in ORDER_FREE_CALLS and not nested:
                return []
            if nm in PASS_THROUGH_CALLS or nm in ("str", "repr", "join", "dict", "OrderedDict", "array"):
                return self.value_sinks(p, nested)
            if isinstance(p.func, ast.Attribute) and nm in ("add", "update", "discard", "difference_update", "intersection_update",
                                                             "issubset", "issuperset", "isdisjoint", "intersection", "union", "difference") \
                    and not nested:
                return []
            if isinstance(p.func, ast.Attribute) and nm in SEQ_GROW | {"add", "update", "setdefault"}:
                return self.container_sinks(p.func.value, p, nested=True)
            r = self.into_callee(p, v, nested)
            return r if r is not None else [(p, f"passed to {nm}(..)")]
        if isinstance(p, ast.Attribute):        # v.method(...) / v.attr
            call = getattr(p, "_parent", None)
            if not (isinstance(call, ast.Call) and call.func is p):
                return [(p, f"attribute .{p.attr} of the ordered value")]
            m = p.attr
            if m in ("items", "values", "keys", "copy"):
                return self.value_sinks(call, nested)
            if m in ("get", "pop", "setdefault", "__getitem__"):
                return self.value_sinks(call, False) if nested else ([(call, f".{m}() of the ordered value")] if m == "pop" else [])
            if m in ("count", "__contains__", "issubset", "issuperset", "isdisjoint", "add", "update", "discard", "clear", "remove",
                     "sort", "startswith", "endswith") or m in SEQ_GROW:
                return []
            return [(call, f"method .{m}() of the ordered value")]
        if isinstance(p, ast.Compare):
            ops = p.ops
            if len(ops) == 1 and isinstance(ops[0], (ast.In, ast.NotIn)):
                return [] if p.comparators[0] is v else self.value_sinks(p, nested)
            if any(isinstance(o, (ast.Is, ast.IsNot)) for o in ops):
                return []
            return [(p, "order-sensitive comparison")]
        if isinstance(p, ast.UnaryOp) and isinstance(p.op, ast.Not):
            return []
        if isinstance(p, (ast.BoolOp, ast.UnaryOp)):
            return self.value_sinks(p, nested)
        if isinstance(p, (ast.If, ast.While, ast.Assert)):
            return []
        if isinstance(p, ast.IfExp):
            return [] if p.test is v else self.value_sinks(p, nested)
        if isinstance(p, ast.Expr):
            return []
        if isinstance(p, (ast.Return, ast.Yield, ast.YieldFrom)):
            return [(p, "returned" if isinstance(p, ast.Return) else "yielded")]
        if isinstance(p, ast.Lambda):
            return [(p, "result of a lambda")]
        if isinstance(p, (ast.JoinedStr, ast.FormattedValue)):
            return self.value_sinks(p, nested)
        if isinstance(p, ast.BinOp):
            return self.value_sinks(p, nested)
        if isinstance(p, (ast.Tuple, ast.List, ast.Set)):
            if isinstance(getattr(p, "ctx", None), ast.Store):
                return [(p, "unpacked")]
            return self.value_sinks(p, True)
        if isinstance(p, ast.Dict):
            return self.value_sinks(p, True)
        if isinstance(p, ast.Subscript):
            if p.value is v:
                if isinstance(p.ctx, (ast.Store, ast.Del)):
                    return []
                if not nested and self._is_dict(v):
                    return []       # look-up by key: the insertion order of a dict is not observed
                return self.value_sinks(p, False) if nested else [(p, "indexed")]
            return self.value_sinks(p, nested) if isinstance(p.ctx, ast.Load) else []
        if isinstance(p, ast.comprehension):
            if p.iter is v or any(v is s for s in self._sources(p.iter)):
                comp = p._parent
                out = []
                if nested:
                    for t in ast.walk(p.target):
                        if isinstance(t, ast.Name):
                            out.extend(self.comp_name_sinks(t.id, comp))
                return out + ([] if isinstance(comp, ast.SetComp) else self.value_sinks(comp, False))
            return []       # used in a condition
        if isinstance(p, (ast.ListComp, ast.GeneratorExp, ast.SetComp, ast.DictComp)):
            # element expression of a comprehension: the result holds the tainted value
            return self.value_sinks(p, True)
        if isinstance(p, ast.For):
            if p.iter is v:
                out = self.loop_sinks(p)
                if nested:
                    for t in ast.walk(p.target):
                        if isinstance(t, ast.Name):
                            out.extend(self.name_sinks(t.id, p.target, False))
                return out
            return []
        if isinstance(p, ast.NamedExpr):
            return self.name_sinks(p.target.id, p, nested) + self.value_sinks(p, nested)
        if isinstance(p, (ast.Assign, ast.AnnAssign, ast.AugAssign)):
            tgts = p.targets if isinstance(p, ast.Assign) else [p.target]
            out = []
            for t in tgts:
                if isinstance(t, ast.Name):
                    out.extend(self.name_sinks(t.id, p, nested))
                elif isinstance(t, ast.Subscript):
                    out.extend(self.container_sinks(t.value, p, nested=True))
                elif isinstance(t, ast.Attribute):
                    out.append((p, f"stored in .{t.attr}"))
                else:
                    out.append((p, "unpacked into names"))
            return out
        if isinstance(p, (ast.withitem, ast.With)):
            return [(p, "context manager")]
        if isinstance(p, ast.Raise):
            return []
        return [(p, f"used in {type(p).__name__}")]

    def into_callee(self, call, arg, nested):
        """The tainted value is an argument of a repository function that can be looked into: follow the bound parameter
        through the callee exactly like a local name; a tainted return value taints the call expression in the caller.
        None: the callee is unknown (sympy, builtins, methods of other objects) - the caller treats the call as a sink."""
        f = call.func
        cands = []
        if isinstance(f, ast.Name):
            cands = [g for g in self.cg.resolve_name(f.id, call) if isinstance(g, FuncNode)]
        elif isinstance(f, ast.Attribute) and isinstance(f.value, ast.Name) and f.value.id in ("self", "cls"):
            cls = getattr(call, "_cls", None)
            g = call._module.functions.get(f"{cls}.{f.attr}") if cls else None
            cands = [g] if g is not None else []
        if len(cands) != 1 or any(isinstance(a, ast.Starred) for a in call.args) or any(k.arg is None for k in call.keywords):
            return None
        g = cands[0]
        if g.args.vararg or g.args.kwarg or any(isinstance(x, (ast.Yield, ast.YieldFrom)) for x in walk_fn(g, nested=False)) and False:
            return None
        params = [a.arg for a in g.args.posonlyargs + g.args.args]
        if isinstance(f, ast.Attribute) and params and params[0] in ("self", "cls"):
            params = params[1:]
        pname = None
        for k, a in enumerate(call.args):
            if a is arg and k < len(params):
                pname = params[k]
        for kw in call.keywords:
            if kw.value is arg:
                pname = kw.arg
        if pname is None or pname not in [a.arg for a in g.args.posonlyargs + g.args.args + g.args.kwonlyargs]:
            return None
        key = ("callee", id(g), pname, nested)
        if key in self.seen:
            return []
        self.seen.add(key)
        saved = self.sc
        self.sc = self.scope(g)
        try:
            inner = self.name_sinks(pname, g.args, nested)
        finally:
            self.sc = saved
        out = [(s, f"{why} in {g.name}()") for s, why in inner if why not in ("returned", "yielded")]
        if any(why in ("returned", "yielded") for _, why in inner):
            out.extend(self.value_sinks(call, False))       # the result of the call carries the order
        return out

    def _is_dict(self, e, depth=3):
        if isinstance(e, (ast.Dict, ast.DictComp)):
            return True
        if isinstance(e, ast.Call) and call_name(e) in ("dict", "defaultdict", "OrderedDict", "Counter", "fromkeys"):
            return True
        if isinstance(e, ast.Name) and depth > 0:
            vals = self.sc.values(e.id)
            return bool(vals) and all(self._is_dict(v, depth - 1) for v in vals)
        return False

    def container_sinks(self, recv, at, nested=False):
        """an element was put into the container ``recv`` in tainted order (``nested``: the element itself is an ordered
        value): follow the container"""
        depth = 0
        base = recv
        while True:
            if isinstance(base, ast.Call) and isinstance(base.func, ast.Attribute) and base.func.attr in ("setdefault", "get", "__getitem__"):
                depth += 1          # d.setdefault(k, []) / d.get(k): an entry of the container d
                base = base.func.value
                continue
            if isinstance(base, (ast.Subscript, ast.Attribute)) and not (isinstance(base, ast.Attribute) and isinstance(base.value, ast.Name) and base.value.id in ("self", "cls")):
                depth += isinstance(base, ast.Subscript)
                base = base.value
                continue
            break
        if isinstance(base, ast.Name) and base.id not in ("self", "cls"):
            return self.name_sinks(base.id, at, nested or depth > 0)
        return [(at, f"stored in {short(recv, 40)}")]

    def name_sinks(self, name, at, nested=False):
        """all reads of a local name that holds an order-tainted value"""
        key = ("name", name, id(self.sc), nested)
        if key in self.seen:
            return []
        self.seen.add(key)
        out = []
        if name in self.sc.params and not self.sc.values(name) and isinstance(at, ast.Call):
            out.append((at, f"the caller's `{name}` is filled in iteration order"))
        inside = {id(x) for x in ast.walk(at)}
        for use in self.sc.loads.get(name, []):
            if id(use) in inside:
                continue
            if not nested and self._sorted_before(name, use):
                continue        # the list was put into a canonical order in place before this read
            out.extend(self.value_sinks(use, nested))
        return out

    def _sorted_before(self, name, use):
        """An in-place ``name.sort(..)`` is executed on every path to ``use`` after the last (re)binding / growth of the
        list: earlier statements of the enclosing statement lists, nearest first."""
        child = enclosing_stmt(use)
        if isinstance(child, ast.Expr) and isinstance(child.value, ast.Call) and isinstance(child.value.func, ast.Attribute) \
                and child.value.func.value is use and child.value.func.attr == "sort":
            return self.total_key(child.value)         # the sort itself
        while child is not None and not isinstance(child, FuncNode):
            par = getattr(child, "_parent", None)
            for field in ("body", "orelse", "finalbody"):
                lst = getattr(par, field, None)
                if isinstance(lst, list) and any(child is s for s in lst):
                    k = next(i for i, s in enumerate(lst) if s is child)
                    for s in reversed(lst[:k]):
                        if isinstance(s, ast.Expr) and isinstance(s.value, ast.Call) and isinstance(s.value.func, ast.Attribute) \
                                and s.value.func.attr == "sort" and isinstance(s.value.func.value, ast.Name) and s.value.func.value.id == name:
                            return self.total_key(s.value)
                        for x in ast.walk(s):
                            if isinstance(x, ast.Name) and x.id == name and (isinstance(x.ctx, ast.Store) or (
                                    isinstance(getattr(x, "_parent", None), ast.Attribute) and x._parent.attr in SEQ_GROW | {"reverse"})):
                                return False
            if isinstance(par, (ast.For, ast.While)):
                return False    # a read inside a loop may also see the state of an earlier iteration
            child = par
        return False

    def comp_name_sinks(self, name, comp):
        out = []
        for use in ast.walk(comp):
            if isinstance(use, ast.Name) and isinstance(use.ctx, ast.Load) and use.id == name:
                out.extend(self.value_sinks(use, False))
        return out

    def loop_sinks(self, loop):
        """effects of a loop whose iteration order is tainted"""
        if id(loop) in self.seen:
            return []
        self.seen.add(id(loop))
        out = []
        targets = {t.id for t in ast.walk(loop.target) if isinstance(t, ast.Name)}
        body = ast.Module(body=list(loop.body) + list(loop.orelse), type_ignores=[])
        # names whose value depends on the element of the current iteration
        stored = set(targets)
        changed = True
        while changed:
            changed = False
            for n in ast.walk(body):
                tg, val = [], None
                if isinstance(n, ast.Assign):
                    tg, val = n.targets, n.value
                elif isinstance(n, (ast.AugAssign, ast.AnnAssign)):
                    tg, val = [n.target], n.value
                elif isinstance(n, ast.NamedExpr):
                    tg, val = [n.target], n.value
                elif isinstance(n, (ast.For, ast.comprehension)):
                    tg, val = [n.target], n.iter
                if val is None or not ({x.id for x in ast.walk(val) if isinstance(x, ast.Name)} & stored):
                    continue
                for t in tg:
                    for x in ast.walk(t):
                        if isinstance(x, ast.Name) and isinstance(x.ctx, ast.Store) and x.id not in stored:
                            stored.add(x.id)
                            changed = True
        for n in ast.walk(body):
            if isinstance(n, ast.Return):
                if n.value is not None and not isinstance(n.value, ast.Constant) and ({x.id for x in ast.walk(n.value) if isinstance(x, ast.Name)} & stored):
                    out.append((n, "value of one element returned from the loop"))
            elif isinstance(n, (ast.Yield, ast.YieldFrom)):
                out.append((n, "yielded per element"))
            elif isinstance(n, ast.Break):
                if enclosing(n, (ast.For, ast.While)) is loop and self._used_after(loop, stored):
                    out.append((n, "loop left at the first matching element and its value is used afterwards"))
            elif isinstance(n, ast.Expr) and isinstance(n.value, ast.Call):
                c = n.value
                nm = call_name(c)
                if self._diagnostic(c) or nm in ORDER_FREE_EFFECTS:
                    continue
                if isinstance(c.func, ast.Attribute) and nm in SEQ_GROW | {"remove", "pop", "clear", "sort", "reverse"}:
                    if nm in SEQ_GROW:
                        out.extend(self.container_sinks(c.func.value, c))
                    elif nm in ("remove", "clear", "sort"):
                        continue
                    else:
                        out.append((c, f".{nm}() per element"))
                    continue
                out.append((c, f"effect {nm}(..) performed per element"))
            elif isinstance(n, ast.AugAssign):
                t = n.target
                if isinstance(n.op, COMMUTATIVE_AUG) or (isinstance(n.op, ast.Sub)):
                    if isinstance(t, ast.Name) and self._sequence_like(t.id):
                        out.extend(self.name_sinks(t.id, n))
                    continue
                out.append((n, "non-commutative accumulation"))
            elif isinstance(n, ast.Assign):
                for t in n.targets:
                    for x in ast.walk(t):
                        if isinstance(x, ast.Attribute) and isinstance(x.ctx, ast.Store):
                            out.append((n, f"attribute .{x.attr} overwritten per element"))
        # a plain local assigned in the body and read after the loop holds the value of the last element
        last = self._used_after(loop, stored - targets, plain_only=True)
        if last:
            out.append((loop, f"`{sorted(last)[0]}` holds the value of the last iteration after the loop"))
        return out

    def _sequence_like(self, name):
        for v in self.sc.values(name):
            if isinstance(v, (ast.List, ast.Tuple, ast.ListComp, ast.JoinedStr)) or (isinstance(v, ast.Constant) and isinstance(v.value, str)) \
                    or (isinstance(v, ast.Call) and call_name(v) in ("list", "tuple", "str")):
                return True
        return False

    def _used_after(self, loop, names, plain_only=False):
        """names bound inside the loop that are read after it before any other binding"""
        end = getattr(loop, "end_lineno", loop.lineno)
        inside = {id(x) for x in ast.walk(loop)}
        hit = set()
        for nm in names:
            binds = [b for b in ast.walk(loop) if isinstance(b, ast.Name) and isinstance(b.ctx, ast.Store) and b.id == nm]
            if plain_only:
                binds = [b for b in binds if isinstance(enclosing_stmt(b), (ast.Assign, ast.AnnAssign)) and
                         not isinstance(getattr(b, "_parent", None), ast.comprehension)]
            if not binds:
                continue
            later = min((b.lineno for b in ast.walk(self.sc.fn) if isinstance(b, ast.Name) and isinstance(b.ctx, ast.Store)
                            and b.id == nm and id(b) not in inside and b.lineno > end), default=None)
            for use in self.sc.loads.get(nm, []):
                if id(use) in inside or use.lineno <= end:
                    continue
                if later is None or use.lineno < later or (use.lineno == later and isinstance(enclosing_stmt(use), ast.AugAssign)):
                    hit.add(nm)
        return hit


def _origin(so, src, sc, depth=3):
    """Where the unordered collection comes from: the expression with singly-defined local names resolved, a name with
    several definitions replaced by the origins of its set-valued definitions, the other local names blanked."""
    if isinstance(src, ast.Name) and src.id in so.tainted_dicts(sc) and not so.unordered(src, sc, 3, {id(src)}) is False and depth:
        vals = [v for v in sc.values(src.id) if so.unordered(v, sc, 3)]
        if not vals:
            return "dict filled per element of " + _origin(so, so.tainted_dicts(sc)[src.id], sc, depth - 1)
    if isinstance(src, ast.Call) and isinstance(src.func, ast.Attribute) and src.func.attr in ("items", "keys", "values") \
            and isinstance(src.func.value, ast.Name) and src.func.value.id in so.tainted_dicts(sc) and depth:
        return "dict filled per element of " + _origin(so, so.tainted_dicts(sc)[src.func.value.id], sc, depth - 1)
    if isinstance(src, ast.Name) and len(sc.values(src.id)) > 1 and depth:
        alts = sorted({_origin(so, v, sc, depth - 1) for v in sc.values(src.id) if so.unordered(v, sc, 3)})
        if alts:
            return " | ".join(alts)
    r = sc.defs.resolve(src, depth=4, loops=True)
    vocab = set()
    for n in ast.walk(r):
        if isinstance(n, ast.Attribute):
            vocab.add("." + n.attr)
        elif isinstance(n, ast.Name) and n.id != "__elem__" and (n.id in sc.params or not sc.is_local(n.id)):
            vocab.add(n.id)
    kind = "set display" if isinstance(r, (ast.Set, ast.SetComp)) else "dict" if isinstance(r, (ast.Dict, ast.DictComp)) else \
        (call_name(r) + "()") if isinstance(r, ast.Call) else type(r).__name__
    return f"{kind} over {' '.join(sorted(vocab))}"


# ---------------------------------------------------------------------- order-permuting differential evaluation
# A function whose ordered read of a set reaches a sink is evaluated (sa.symex, helpers looked into) on model inputs once
# per iteration order of every set; the read is discharged when the permutation reached it (the sequences iterated there
# differ between the runs) and the observable result of every scenario is the same.  This replaces the frozen table: the
# verdict follows the code when it is renamed or moved into a helper, because helpers are evaluated through.

def _unordered_dicts(t):
    """dict arguments of uninterpreted calls are compared as mappings (their insertion order is not a result)"""
    from ..terms import rebuild
    return rebuild(t, lambda x: T("dict", *sorted(x.args, key=repr)) if x.op == "dict" else x)


_okey = Symex.order_key


class OrderSymex(Symex):
    """Symex with the hash-order provenance switched on: a chosen iteration order for sets and a log of what every
    iteration site iterated (the options live in sa.symex)."""

    def __init__(self, *a, order=0, log=None, **kw):
        super().__init__(*a, **kw)
        self.set_order, self.iter_log = order, ({} if log is None else log)
        self.log = self.iter_log


def _idx(name, spin=""):
    o = Obj("indices:Index", name + (f"_{spin}" if spin else ""))
    sp = "occ" if name[0] in "ijklmno" else "virt" if name[0] in "abcdefgh" else "general"
    o.attrs.update(name=name, spin=spin, space=sp, space_and_spin=(sp, spin))
    return o


def _diff_group_objects(ctx, order, log):
    fn = ctx.model.fn("generate_code.optimize_contractions:_group_objects")
    sx = OrderSymex(ctx.model, inline=lambda q: True, what="_group_objects", order=order, log=log, max_paths=64)
    res = []
    for objs, target, size in (((("i", "a"), ("i", "b"), ("a", "c"), ("b", "c")), (), None),
                               ((("i", "j", "a", "b"), ("i", "k"), ("j", "k", "c"), ("a", "c"), ("b", "d")), ("d",), None),
                               ((("i", "j"), ("j", "k"), ("k", "l"), ("l", "i"), ("m", "n")), ("m", "n"), 3),
                               ((("i", "a"), ("i", "a"), ("i", "b"), ("b", "j"), ("j", "a")), (), 4)):
        outs = sx.run(fn, lambda: dict(obj_indices=objs, target_indices=target, max_group_size=size))
        res.append([(o.kind, _okey(o.value) if o.kind == "return" else o.exc) for o in outs])
    return res


def _diff_rename_tensors(ctx, order, log):
    fn = ctx.model.fn("tensor_names:TensorNames.rename_tensors")
    defaults = _defaults(ctx)
    t, p = defaults["gs_amplitude"], defaults["gs_density"]
    present = sorted(set(defaults.values())) + [t + "1", t + "2", t + "2cc", t + "3", p + "2", p + "3", "Zero"]
    res = []
    for conf in ({"gs_amplitude": "T", "gs_density": "R"}, {"gs_amplitude": p, "gs_density": t}, {"eri": "W", "gs_amplitude": "tt"}):
        cfg = dict(defaults)
        cfg.update(conf)
        state = {"names": list(present)}

        def fields_hook(sx_, a, kw):
            out = []
            for nm, d in defaults.items():
                f = Obj(None, f"field:{nm}")
                f.attrs.update(name=nm, default=d)
                out.append(f)
            return out

        def args():
            state["names"] = list(present)
            expr = Obj("expr_container:Expr", "expr")
            expr.attrs["_classes"] = {"Expr", "Container"}

            def rename_tensor(sx_, a, kw):
                a = [x for x in a if not isinstance(x, Obj)]
                old = a[0] if a else kw.get("current")
                new = a[1] if len(a) > 1 else kw.get("new")
                state["names"] = [new if n == old else n for n in state["names"]]
                return expr

            def atoms(sx_, a, kw):
                out = set()
                for n in set(state["names"]):
                    s = Obj(None, f"Symbol({n})")
                    s.attrs["name"] = n
                    out.add(s)
                return out
            sympy = Obj(None, "expr.sympy")
            sympy.attrs["atoms"] = atoms
            expr.attrs.update(sympy=sympy, rename_tensor=rename_tensor)
            me = Obj("tensor_names:TensorNames", "self")
            me.attrs.update(cfg)
            return dict(self=me, expr=expr)
        sx = OrderSymex(ctx.model, inline=lambda q: q.startswith("tensor_names:"), order=order, log=log, what="rename_tensors", max_paths=64,
                        hooks={"fields": fields_hook, "defaults": lambda s_, a_, k_: dict(defaults),
                               "TensorNames.defaults": lambda s_, a_, k_: dict(defaults)})
        outs = sx.run(fn, args)
        res.append(([o.kind for o in outs], list(state["names"])))
    return res


def _diff_evaluate_deltas(ctx, order, log):
    fn = ctx.model.fn("func:evaluate_deltas")
    res = []

    def factor(kind, idx, pk=None):
        o = Obj(None, f"{kind}[{','.join(i.name for i in idx)}]")
        o.attrs["_classes"] = {"KroneckerDelta"} if kind == "delta" else {"AntiSymmetricTensor", "SymbolicTensor"}
        o.attrs["atoms"] = lambda sx_, a, kw, idx=idx: set(idx)
        o.attrs["has"] = lambda sx_, a, kw, idx=idx: any(x is i for i in idx for x in a)
        o.attrs["is_commutative"] = kind not in ("F", "Fd")
        o.__dict__["kind"], o.__dict__["idx"] = kind, list(idx)
        if kind == "delta":
            o.attrs["preferred_and_killable"] = pk
            o.attrs["indices_contain_equal_information"] = True
        return o

    def mul(factors):
        m = Obj(None, "Mul(" + " ".join(f.name for f in factors) + ")")
        m.attrs["_classes"] = {"Mul", "Expr", "Basic"}
        m.attrs["args"] = list(factors)

        def subs(sx_, a, kw):
            a = [x for x in a if x is not m]
            old, new = a[0], a[1]
            out = []
            for f in factors:
                idx = [new if i is old else i for i in f.idx]
                if f.kind == "delta":
                    if idx[0] is idx[1]:
                        continue        # delta_pp = 1
                    out.append(factor("delta", idx, (idx[0], idx[1])))
                else:
                    out.append(factor(f.kind, idx))
            return mul(out)
        m.attrs["subs"] = subs
        return m

    def scen(k):
        i, j, k_, l, a, b, c = (_idx(n) for n in "ijklabc")
        if k == 0:      # f_ij delta_jk t_ka : k is removed
            return mul([factor("f", [i, j]), factor("delta", [j, k_], (j, k_)), factor("t", [k_, a])]), None
        if k == 1:      # two deltas: recursion with the derived target indices
            return mul([factor("V", [i, j, a, b]), factor("delta", [j, k_], (j, k_)), factor("delta", [b, c], (b, c)),
                        factor("t", [k_, c])]), None
        # a delta between two target indices stays
        return mul([factor("f", [i, j]), factor("delta", [j, k_], (j, k_)), factor("delta", [a, b], (a, b)), factor("t", [k_, l])]), None
    for k in range(3):
        sx = OrderSymex(ctx.model, inline=lambda q: q.startswith("func:"), order=order, log=log, what="evaluate_deltas", max_paths=256,
                        hooks={"get_symbols": lambda s_, a_, k_: list(a_[0]) if isinstance(a_[0], (list, tuple)) else NotImplemented})
        outs = sx.run(fn, lambda: dict(zip(("expr", "target_idx"), scen(k))))
        res.append(sorted((o.kind, o.value.name if isinstance(o.value, Obj) else _okey(o.value)) for o in outs))
    # wicks with simplify_kronecker_deltas: the target indices of the input (indices on a single object, collected in a dict in
    # the order of atoms()) are handed to evaluate_deltas for every contracted term
    p_, q_, r_, s_, i_ = (_idx(n) for n in "pqrsi")

    def wicks_args():
        e_in = mul([factor("d", [p_, q_]), factor("X", [r_, s_]), factor("Fd", [p_]), factor("F", [q_])])
        e_in.attrs["doit"] = lambda sx_, a, kw: e_in
        e_in.attrs["expand"] = lambda sx_, a, kw: e_in
        return dict(expr=e_in, rules=None, simplify_kronecker_deltas=True)

    def terms(sx_, a, kw):
        return [mul([factor("d", [p_, q_]), factor("X", [r_, s_]), factor("delta", [p_, q_], (p_, q_)), factor("delta", [q_, i_], (i_, q_))]),
                mul([factor("d", [p_, q_]), factor("X", [r_, s_]), factor("delta", [r_, q_], (r_, q_)), factor("delta", [p_, s_], (s_, p_))])]
    sx = OrderSymex(ctx.model, inline=lambda q: q.startswith("func:"), order=order, log=log,
                    what="wicks", max_paths=512,
                    hooks={"get_symbols": lambda s_2, a_, k_: list(a_[0]) if isinstance(a_[0], (list, tuple)) else NotImplemented,
                           "_contract_operator_string": lambda s_2, a_, k_: sym("contractions"),
                           "Add.make_args": terms, "Mul.make_args": lambda s_2, a_, k_: list(a_[0].attrs["args"]) if isinstance(a_[0], Obj) else NotImplemented})
    outs = sx.run(ctx.model.fn("func:wicks"), wicks_args)
    res.append(sorted((o.kind, repr(canon(o.value)) if o.kind == "return" else str(o.exc)) for o in outs))
    return res


def _diff_spatial(ctx, order, log):
    fn = ctx.model.fn("spatial_orbitals:transform_to_spatial_orbitals")
    res = []
    cache = {}

    def get_symbols(sx_, a, kw):
        names = a[0] if a else kw.get("indices")
        spins = a[1] if len(a) > 1 else kw.get("spins")
        if isinstance(names, str):
            names = _split_names(names)
        if not isinstance(names, (list, tuple)) or not all(isinstance(n, str) for n in names):
            return NotImplemented
        return [cache.setdefault((n, (spins[k] if spins else "")), _idx(n, spins[k] if spins else "")) for k, n in enumerate(names)]

    def term(label, idx):
        t = Obj(None, label)
        sy = Obj(None, label + ".sympy")

        def pairs_of(a):
            m = [x for x in a if isinstance(x, (list, tuple, dict))][0]
            return list(m.items()) if isinstance(m, dict) else list(m)

        def subs(sx_, a, kw):
            cur = list(idx)
            for old, new in pairs_of(a):      # sequential substitution as sympy does it
                cur = [new if c is old else c for c in cur]
            return sym(f"{label}[{','.join(c.name for c in cur)}]")

        def xreplace(sx_, a, kw):
            mapping = pairs_of(a)             # all at once
            cur = [next((n for o, n in mapping if o is c), c) for c in idx]
            return sym(f"{label}[{','.join(c.name for c in cur)}]")
        sy.attrs["subs"] = subs
        sy.attrs["xreplace"] = xreplace
        t.attrs.update(idx=tuple(idx), sympy=sy)
        return t

    def scen():
        cache.clear()
        ia, ja, ib, jb, aa, ab, bb = (cache.setdefault((n, s), _idx(n, s)) for n, s in
                                      (("i", "a"), ("j", "a"), ("i", "b"), ("j", "b"), ("a", "a"), ("a", "b"), ("b", "b")))
        ka = cache.setdefault(("k", "a"), _idx("k", "a"))
        E = Obj("expr_container:Expr", "integrated")
        E.attrs.update(terms=[term("T1", [ia, ja, aa]), term("T2", [ib, jb, ab, ab]), term("T3", [ka, jb, bb, ib])],
                       assumptions={}, provided_target_idx=None)
        return E
    sx = OrderSymex(ctx.model, inline=lambda q: q == "indices:order_substitutions" or q.startswith("spatial_orbitals:"), order=order, log=log, what="transform_to_spatial_orbitals",
                    max_paths=256, hooks={"get_symbols": get_symbols, "integrate_spin": lambda s_, a_, k_: scen(),
                                          "Expr": lambda s_, a_, k_: sym("restricted")})
    outs = sx.run(fn, lambda: dict(expr=sym("input"), target_idx="", target_spin="", restricted=True, expand_eri=False))
    res.append(sorted((o.kind, repr(_unordered_dicts(canon(o.value))) if o.kind == "return" else o.exc) for o in outs))
    return res


def _diff_expand_itmd(ctx, order, log):
    """the mapping of the contracted indices of a cached definition onto fresh generic indices"""
    fn = ctx.model.fn("intermediates:RegisteredIntermediate.expand_itmd")
    res = []
    im = IndexModel()

    def scen():
        im.reset()
        tgt = [_idx(n) for n in "ia"]
        con = [_idx(n) for n in ("j", "k", "l", "b", "c")]
        new_t = [_idx(n) for n in ("m", "d")]
        expr = Obj(None, "definition")

        def subs(sx_, a, kw):
            m = [x for x in a if isinstance(x, (list, tuple, dict))][0]
            cur = tgt + con
            for old, new in (m.items() if isinstance(m, dict) else m):
                cur = [new if x is old else x for x in cur]
            return sym("definition[" + ",".join(x.name for x in cur) + "]")
        expr.attrs["subs"] = subs
        built = Obj(None, "base_expr")
        built.attrs.update(expr=expr, target=tuple(tgt), contracted=tuple(con), _fields=("expr", "target", "contracted"))
        me = Obj("intermediates:RegisteredIntermediate", "self")
        me.attrs["name"] = "t1_3"
        return me, built, new_t
    state = {}

    def args():
        me, built, new_t = scen()
        state["built"], state["new"] = built, new_t
        return dict(self=me, indices="md", return_sympy=True, fully_expand=True)
    hk = im.hooks()
    hk.update({"validate_indices": lambda s_, a_, k_: list(state["new"]), "_build_expanded_itmd": lambda s_, a_, k_: state["built"],
               "Indices": lambda s_, a_, k_: Obj("indices:Indices", "Indices()")})
    sx = OrderSymex(ctx.model, inline=lambda q: q == "indices:order_substitutions" or q.startswith("intermediates:"), order=order, log=log, what="expand_itmd", max_paths=256,
                    hooks=hk)
    outs = sx.run(fn, args)
    res.append(sorted((o.kind, repr(_unordered_dicts(canon(o.value))) if o.kind == "return" else o.exc) for o in outs))
    return res


ORDER_SCENARIOS = (("generate_code.optimize_contractions:_group_objects", _diff_group_objects),
                   ("tensor_names:TensorNames.rename_tensors", _diff_rename_tensors),
                   ("func:evaluate_deltas", _diff_evaluate_deltas),
                   ("spatial_orbitals:transform_to_spatial_orbitals", _diff_spatial),
                   ("intermediates:RegisteredIntermediate.expand_itmd", _diff_expand_itmd))


def order_differential(ctx):
    """(ids of iteration sites reached by the permutation with invariant results -> entry function,
        [(entry, result order 0, result order 1)] of scenarios whose result depends on the order)"""
    reached, variant = {}, []
    for entry, run in ORDER_SCENARIOS:
        logs = [{}, {}]
        r0, r1 = run(ctx, 0, logs[0]), run(ctx, 1, logs[1])
        if r0 != r1:
            variant.append((entry, r0, r1))
            continue
        for nid in set(logs[0]) | set(logs[1]):
            if logs[0].get(nid) != logs[1].get(nid):
                reached[nid] = entry
    return reached, variant


def r19a_sets(ctx):
    rule = "R19a"
    so = SetOrder(ctx)
    reached, variant = order_differential(ctx)
    for entry, r0, r1 in variant:
        d = next(((x, y) for x, y in zip(r0, r1) if x != y), (r0, r1))
        ctx.bad(rule, ctx.model.fn(entry), f"{entry.split(':')[1]} evaluated on model inputs gives {str(d[0])[:200]} with the sets iterated in "
                f"one order and {str(d[1])[:200]} in the reverse order: the result depends on the hash seed", fn=entry,
                key=f"order differential {entry}")
    n_sites = 0
    for ref, fn in ctx.model.all_functions():
        if getattr(fn, "_fn", None) is not None:
            continue
        for src, node, sc in so.sites(fn):
            n_sites += 1
            oref = f"{ref.split(':')[0]}:{sc.fn._qual}"
            origin = _origin(so, src, sc)
            prm = src.id if isinstance(src, ast.Name) and src.id in sc.params and not sc.values(src.id) else None
            sinks = so.through_callers(so.sinks_of_read(src, node, sc), sc.fn, param=prm)
            run_node = node.iter if isinstance(node, ast.comprehension) else node
            entry = reached.get(id(run_node))
            key = f"{oref} {origin}"
            if not sinks:
                ctx.ok(rule, src, f"order of the set `{short(src, 40)}` is not observable: all consumers are order-free", fn=oref, key=key)
            elif entry:
                ctx.ok(rule, src, f"set `{short(src, 40)}` read in order: {entry.split(':')[1]} evaluated with both iteration orders of its "
                       "sets reaches this read with permuted elements and returns the same result", fn=oref, key=key)
            else:
                s, why = sinks[0]
                ctx.bad(rule, src, f"the set `{short(src, 50)}` (origin `{origin}`) is read in iteration order and that order reaches "
                        f"`{short(s, 70)}` ({why}; {len(sinks)} order-sensitive consumer(s)): the result depends on the hash seed",
                        fn=oref, key=f"set order {origin[:60]}")
    ctx.floor(rule, "ordered reads of sets examined", n_sites, 15)
    ctx.floor(rule, "iteration sites reached by the order permutation", len(reached), 4)


# ====================================================================== R19g
# canonical sort key: decision table over a sample of indices (evaluated, not read)

_SAMPLE_NAMES = {"occ": ("i", "j", "o", "i1", "j1", "i2", "k2", "i10", "j3"), "virt": ("a", "b", "h", "a1", "b1", "a2", "c10"),
                 "general": ("p", "q", "p1", "q2", "p10")}


def _index_obj(name, space, spin, tag):
    o = Obj("indices:Index", f"{name}_{spin}#{tag}")
    o.attrs.update(name=name, space=space, spin=spin, dummy_index=sym(f"dummy#{tag}"), space_and_spin=(space, spin))
    return o


def _expected_key(name, space, spin):
    return (space[0], spin, int(name[1:]) if name[1:] else 0, name[0])


def r19g(ctx):
    rule = "R19g"
    fn = ctx.model.fn("indices:sort_idx_canonical")
    sx = Symex(ctx.model, inline=lambda q: True, what="sort_idx_canonical")
    sample = [(n, sp, s) for sp, names in _SAMPLE_NAMES.items() for n in names for s in ("", "a", "b")]
    keys = {}
    for k, (n, sp, s) in enumerate(sample):
        outs = sx.run(fn, lambda: dict(idx=_index_obj(n, sp, s, k)))
        if len(outs) != 1 or outs[0].kind != "return":
            ctx.bad(rule, fn, f"sort_idx_canonical(Index {n}, {sp}, '{s}') does not return one key: {outs}", key=f"key shape {n} {sp} {s}")
            return
        keys[(n, sp, s)] = outs[0].value
    wrong, tied = [], []
    n_pairs = 0
    for x in sample:
        for y in sample:
            ex, ey = _expected_key(*x), _expected_key(*y)
            if not ex < ey:
                continue
            n_pairs += 1
            try:
                lt = keys[x] < keys[y]
            except TypeError:
                tied.append((x, y))
                continue
            if lt is not True:
                wrong.append((x, y))
    ctx.floor(rule, "ordered pairs of sample indices", n_pairs, 500)
    ctx.check(rule, fn, not wrong, f"{n_pairs} pairs of indices are ordered by (space, spin, number, letter)",
              f"canonical key orders {len(wrong)} of {n_pairs} index pairs differently from (space, spin, number, letter), e.g. "
              f"{wrong[0][0] if wrong else ''} is not sorted before {wrong[0][1] if wrong else ''}: keys "
              f"{show(keys[wrong[0][0]]) if wrong else ''} / {show(keys[wrong[0][1]]) if wrong else ''}", key="key prefix")
    ctx.check(rule, fn, not tied, "space, spin, number and letter decide the order before any tie-break",
              f"{len(tied)} pairs of indices with different (space, spin, number, letter) are only separated by the tie-break "
              f"(e.g. {tied[0][0] if tied else ''} / {tied[0][1] if tied else ''}): their order depends on the creation history",
              key="prefix decides")
    # the tie-break part of an Index key and the key of a non-Index are free of hash()/id() on every path
    bad = []
    for arg in (_index_obj("i3", "occ", "", "t"), sym("X")):
        for o in sx.run(fn, lambda: dict(idx=arg)):
            for c in calls([o.value] + list(o.effects)):
                nm = c.args[0] if c.op == "call" else c.args[1]
                if nm in SEED_CALLS:
                    bad.append(show(c))
    ctx.check(rule, fn, not bad, "evaluated key free of hash()/id()", f"the evaluated sort key contains {bad[:2]}: "
              "it depends on PYTHONHASHSEED / object addresses", key="prefix hash free")


# ====================================================================== R19b
# The derivation layer evaluated with a model of the index registry: generic requests hand out fresh index objects, named
# requests hand out one object per name, every call of an uncached wavefunction method is a distinguishable instance.

GS, IS, SM, PR, OP = dx.GS, dx.IS, dx.SM, dx.PR, dx.OP
UNCACHED = (GS + ".psi", GS + ".overlap", GS + ".norm_factor")
PURE_NUMBER_CALLS = {"Rational", "sqrt", "factorial", "sympify", "len", "Integer", "nsimplify"}
TENSOR_CTORS = ("AntiSymmetricTensor", "SymmetricTensor", "Amplitude", "NonSymmetricTensor")


def is_cached(fn):
    return any(d in CACHE_DECOS for d in common.decorators(fn))


def _split_names(s):
    out = []
    for ch in s:
        if ch.isdigit() and out:
            out[-1] += ch
        elif ch != ",":
            out.append(ch)
    return out


class IndexModel:
    """Reference model of ``Indices``: one object per (name, spin); generic requests never repeat a name."""

    def __init__(self):
        self.n = 0
        self.objs = {}

    def reset(self):
        self.n = 0
        self.objs = {}

    def named(self, name, spin=""):
        space = "occ" if name[0] in "ijklmno" else "virt" if name[0] in "abcdefgh" else "general"
        if (name, spin) not in self.objs:
            o = Obj("indices:Index", name + (f"_{spin}" if spin else ""))
            o.attrs.update(name=name, space=space, spin=spin, space_and_spin=(space, spin))
            self.objs[(name, spin)] = o
        return self.objs[(name, spin)]

    def fresh(self, space, spin=""):
        self.n += 1
        name = {"occ": "i", "virt": "a", "general": "p"}[space] + str(100 + self.n)
        return self.named(name, spin)

    def hooks(self):
        def names_arg(a, kw, pname):
            a = [x for x in a if not isinstance(x, T) and not (isinstance(x, Obj) and x.cls != "indices:Index")]
            v = a[0] if a else kw.get(pname)
            sp = a[1] if len(a) > 1 else kw.get("spins")
            return v, sp

        def get_indices(sx, a, kw):
            ind, spins = names_arg(a, kw, "indices")
            if isinstance(ind, str):
                ind = _split_names(ind)
            if not isinstance(ind, (list, tuple)) or not all(isinstance(x, str) for x in ind):
                return NotImplemented
            ret = {}
            for k, nm in enumerate(ind):
                sp = spins[k] if spins else ""
                sx.effects.append(T("named_request", nm))
                o = self.named(nm, sp)
                ret.setdefault((o.attrs["space"], sp), []).append(o)
            return ret

        def get_symbols(sx, a, kw):
            ind, spins = names_arg(a, kw, "indices")
            if isinstance(ind, Obj):
                return [ind]
            if isinstance(ind, (list, tuple)) and ind and all(isinstance(x, Obj) for x in ind):
                return list(ind)
            if isinstance(ind, str):
                ind = _split_names(ind)
            if not isinstance(ind, (list, tuple)) or not all(isinstance(x, str) for x in ind):
                return NotImplemented
            out = []
            for k, nm in enumerate(ind):
                sx.effects.append(T("named_request", nm))
                out.append(self.named(nm, spins[k] if spins else ""))
            return out

        def get_generic_indices(sx, a, kw):
            ret = {}
            for key, n in kw.items():
                if not isinstance(n, int) or not isinstance(key, str):
                    return NotImplemented
                if n == 0:
                    continue
                space, _, spin = key.partition("_")
                if space not in ("occ", "virt", "general"):
                    return NotImplemented
                objs = [self.fresh(space, spin) for _ in range(n)]
                for o in objs:
                    sx.effects.append(T("generic_request", o.name))
                ret[(space, spin)] = objs
            return ret

        def generic_indices_from_space(sx, a, kw):
            s = a[0] if a else kw.get("space_str")
            if not isinstance(s, str):
                return NotImplemented
            r = get_generic_indices(sx, [], {"occ": s.count("h"), "virt": s.count("p")})
            return r.get(("occ", ""), []) + r.get(("virt", ""), [])

        return {"get_indices": get_indices, "Indices.get_indices": get_indices, "get_symbols": get_symbols,
                "get_generic_indices": get_generic_indices, "Indices.get_generic_indices": get_generic_indices,
                "generic_indices_from_space": generic_indices_from_space}


def _taylor(order, min_order, tag):
    """What expand_norm_factor / expand_S_taylor hand out: (coefficient, compositions of the order into e parts >= min_order)."""
    if order < min_order:
        return [(1, [(order,)])]
    return [(sym(f"{tag}{e}"), dx.compositions(order, e, lo=min_order)) for e in range(1, order // min_order + 1)]


class DerivEval:
    def __init__(self, ctx):
        self.ctx = ctx
        self.im = IndexModel()
        self.inst = 0
        self.uncached = [r for r in UNCACHED if not is_cached(ctx.model.fn(r))]

    def _fresh_hook(self, ref):
        fn = self.ctx.model.fn(ref)
        name = ref.split(".")[-1]

        def hook(sx, a, kw):
            b = sx.bind(fn, a, kw, False, True, True)
            b.pop("self", None)
            self.inst += 1
            return T("fresh", name, self.inst, tuple((k, _freeze(v)) for k, v in b.items()))
        return hook

    def sx(self, what, scen, variant="pp"):
        hk = self.im.hooks()
        for ref in self.uncached:
            hk[ref.split(":")[1].split(".", 1)[0] + "." + ref.split(".")[-1]] = self._fresh_hook(ref)

        def tay(tag):
            def h(sx, a, kw):
                a = [x for x in a if not isinstance(x, Obj)]
                order = kw.get("order", a[0] if a else None)
                mo = kw.get("min_order", a[1] if len(a) > 1 else 2)
                if not isinstance(order, int) or not isinstance(mo, int):
                    return NotImplemented
                return _taylor(order, mo, tag)
            return h
        hk["expand_norm_factor"] = tay("c")
        hk["expand_S_taylor"] = tay("s")
        # no call-event tags: two requests of a cached method with equal arguments are the same object here
        sx = dx.make_sx(self.ctx, what, scen, extra_inline={SM + ".block_order", SM + ".max_ptorder_spaces"}, hooks=hk,
                        max_paths=20000, occurrence=lambda name: False)
        base = scen.reset

        def reset(s):
            base(s)
            self.im.reset()
            self.inst = 0
        sx.on_start = reset
        return sx

    def objects(self, scen):
        h, gs, isr = scen.objects()
        sm = Obj(SM, "sm", gs=gs, isr=isr, h=h, indices=Obj("indices:Indices", "sm.indices"))
        pr = Obj(PR, "pr", gs=gs, l_isr=isr, r_isr=isr, l_m=sm, r_m=sm, h=h)
        h.attrs["_indices"] = Obj("indices:Indices", "h.indices")
        return {GS: gs, IS: isr, SM: sm, PR: pr, OP: h}


def _scenarios(tier):
    """(function, arguments) evaluated by R19b; ``thorough`` lists only what is evaluated in addition to ``quick``"""
    I1, I2, I3 = "k5c5", "l6d6", "k5l5c5d5"
    Q, X = [], []
    for o in range(0, 5):
        S = Q if o <= 3 else X
        S.append((GS + ".energy", dict(order=o)))
        S.append((GS + ".overlap", dict(order=o)))
        S.append((GS + ".expectation_value", dict(order=o, n_particles=1)))
        for bk in ("bra", "ket"):
            S.append((IS + ".precursor", dict(order=o, space="ph", braket=bk, indices=I1)))
            if o <= 2:
                (Q if o <= 1 else X).append((IS + ".precursor", dict(order=o, space="pphh", braket=bk, indices=I3)))
            S.append((IS + ".intermediate_state", dict(order=o, space="ph", braket=bk, indices=I1)))
            if o >= 1:
                S.append((GS + ".psi", dict(order=o, braket=bk)))
        S.append((IS + ".overlap_precursor", dict(order=o, block="ph,ph", indices=f"{I1},{I2}")))
        S.append((IS + ".overlap_isr", dict(order=o, block="ph,ph", indices=f"{I1},{I2}")))
        if o >= 1:
            S.append((GS + ".mp_amplitude", dict(order=o, space="ph", indices=I1)))
            S.append((GS + ".mp_amplitude", dict(order=o, space="pphh", indices=I3)))
            S.append((GS + ".amplitude_residual", dict(order=o, space="pphh", indices=I3)))
    for o in range(0, 7):       # order 6 is the first with a product of three overlaps; the path count grows ~50x per order
        Q.append((GS + ".norm_factor", dict(order=o)))
    for o in range(0, 8):
        (Q if o <= 6 else X).append((IS + ".s_root", dict(order=o, block="ph,ph", indices=f"{I1},{I2}")))
    Q.append((IS + ".amplitude_vector", dict(indices=I1, lr="right")))
    Q.append((IS + ".amplitude_vector", dict(indices=I3, lr="left")))
    for o in range(0, 4):
        S = Q if o <= 2 else X
        S.append((SM + ".isr_matrix_block", dict(order=o, block="ph,ph", indices=f"{I1},{I2}", subtract_gs=True)))
        S.append((SM + ".precursor_matrix_block", dict(order=o, block="ph,pphh", indices=f"{I1},l6m6d6e6", subtract_gs=True)))
        S.append((SM + ".mvp_block_order", dict(order=o, space="ph", block="ph,ph", indices=I1, subtract_gs=True)))
        S.append((SM + ".expectation_value_block_order", dict(order=o, block="ph,ph", subtract_gs=True)))
        S.append((SM + ".mvp", dict(adc_order=o, space="ph", indices=I1, order=None, subtract_gs=True)))
        S.append((SM + ".expectation_value", dict(adc_order=o, order=None, subtract_gs=True)))
        S.append((PR + ".expec_block_contribution", dict(order=o, block="ph,ph", n_particles=1, subtract_gs=True)))
        S.append((PR + ".expectation_value", dict(adc_order=o, n_particles=1, order=None, subtract_gs=True)))
        S.append((PR + ".trans_moment_space", dict(order=o, space="ph", n_create=None, n_annihilate=None, lr_isr="left",
                                                  subtract_gs=True)))
        S.append((PR + ".trans_moment", dict(adc_order=o, n_create=None, n_annihilate=None, order=None, lr_isr="left",
                                            subtract_gs=True)))
        S.append((PR + ".operator", dict(order=o, n_create=1, n_annihilate=1, subtract_gs=True)))
    Q.append((OP + ".operator", dict(n_create=1, n_annihilate=1)))
    Q.append((OP + ".operator", dict(n_create=2, n_annihilate=2)))
    X.append((PR + ".expec_block_contribution", dict(order=1, block="ph,pphh", n_particles=1, subtract_gs=True)))
    X.append((SM + ".isr_matrix_block", dict(order=1, block="pphh,ph", indices=f"{I3},{I2}", subtract_gs=False)))
    return Q if tier == "quick" else X


def _carries_indices(f):
    """A factor that stands for an expression with (contracted) indices: contains a call that is not pure arithmetic."""
    if isinstance(f, T) and f.op in ("attr", "item"):
        return True
    for t in subterms(f):
        if t.op == "fresh":
            return True
        if t.op in ("call", "mcall"):
            nm = t.args[0] if t.op == "call" else t.args[1]
            if nm not in PURE_NUMBER_CALLS:
                return True
    return False


def _products(value):
    """Every product that occurs in an evaluated value (also inside the arguments of wicks etc.), fully distributed."""
    v = strip(value, dx.TRANSPARENT_CALLS, dx.TRANSPARENT_MCALLS, dx.TRANSPARENT_ATTRS)
    seen = set()
    for t in subterms(v):
        if t.op in ("mul", "pow") and t not in seen:
            seen.add(t)
            for c, fs in expand_products(t):
                yield fs


def _shared(fs):
    """Index sources that occur more than once in one product: identical index-carrying factors, powers of them and
    instances of uncached wavefunctions that sit in two factors."""
    out = []
    count = {}
    where = {}
    for k, f in enumerate(fs):
        if not isinstance(f, T):
            continue
        if f.op == "pow" and isinstance(f.args[1], int) and f.args[1] >= 2 and _carries_indices(f.args[0]):
            out.append(("power", f))
        if _carries_indices(f):
            count[f] = count.get(f, 0) + 1
        for t in set(x for x in subterms(f) if x.op == "fresh"):
            where.setdefault(t, set()).add(k)
    out.extend(("factor twice", f) for f, c in count.items() if c > 1)
    out.extend(("instance in two factors", t) for t, ks in where.items() if len(ks) > 1 and count.get(t, 0) <= 1)
    return out


def r19b(ctx, tier="quick"):
    rule = "R19b"
    # the wavefunctions / norm factors are requested afresh: no memoising decorator
    for ref in UNCACHED:
        fn = ctx.model.fn(ref)
        m = ref.split(".")[-1]
        ctx.check(rule, fn, not is_cached(fn), f"{m} is not cached",
                  f"GroundState.{m} is cached: repeated factors in one product would share their contracted indices",
                  key=f"{m} uncached")
    de = DerivEval(ctx)
    n_paths = n_prod = 0
    if tier == "quick":
        # every cache of the derivation layer is covered by a scenario (a new cached method is a new sharing site)
        covered = {ref for ref, _ in _scenarios("quick")}
        for mod, cls in ((m.split(":")[0], m.split(":")[1]) for m in (GS, IS, SM, PR, OP)):
            for q, f in ctx.model.module(mod).functions.items():
                if q.startswith(cls + ".") and q.count(".") == 1 and "cached_member" in common.decorators(f) and f"{mod}:{q}" not in covered:
                    raise AnalysisError(f"R19b: the cached derivation method {mod}:{q} is not evaluated by any scenario "
                                        "(a new cache is a new place where contracted indices can be shared)")
    for ref, args in _scenarios(tier):
        fn = ctx.model.fn(ref)
        cls, meth = ref.rsplit(".", 1)
        lab = ref.split(":")[1]
        what = f"{lab}({', '.join(f'{k}={v}' for k, v in args.items() if k in ('order', 'adc_order', 'space', 'block', 'braket'))})"
        scen = dx.Scenario()
        sx = de.sx(what, scen)
        outs = sx.run(fn, lambda: dict(self=de.objects(scen)[cls], **args))
        rets = [o for o in outs if o.kind == "return"]
        if not rets:
            raise AnalysisError(f"R19b: {what} has no returning path ({outs[:2]})")
        supplied = set()
        for v in args.values():
            if isinstance(v, str) and v not in ("bra", "ket", "left", "right") and not set(v) <= set("ph,"):
                supplied.update(_split_names(v))
        shared, foreign, stale, mutable = [], [], [], []
        for o in rets:
            n_paths += 1
            generic = {e.args[0] for e in o.effects if isinstance(e, T) and e.op == "generic_request"}
            for e in o.effects:
                if e.op == "named_request" and e.args[0] not in supplied and e.args[0] not in generic:
                    foreign.append(e.args[0])
            for fs in _products(o.value):
                n_prod += 1
                shared.extend(_shared(fs))
            if meth == "psi":
                # every index of a wavefunction comes from the generic pool of this very call
                for t in subterms(o.value):
                    if t.op == "call" and t.args[0] in TENSOR_CTORS:
                        a = args_of(t)
                        for s in subterms([v for k, v in a.items() if k not in ("name", 0, "bra_ket_sym")]):
                            if s.op == "sym" and s.args[0] not in generic:
                                stale.append(show(s))
            if is_cached(fn):
                vals = o.value if isinstance(o.value, tuple) else (o.value,)
                for v in vals:
                    if isinstance(v, (list, dict, set)) or (isinstance(v, T) and v.op == "call" and v.args[0] in MUTABLE_CTORS):
                        mutable.append(show(v)[:120])
        key = f"{lab} {' '.join(str(v) for v in args.values())}"
        kind = shared[0][0] if shared else ""
        ctx.check(rule, fn, not shared, f"{what}: no product contains an index-carrying factor twice",
                  f"{what}: a product contains the same index-carrying object twice ({kind}): {show(shared[0][1])[:300] if shared else ''}"
                  " - both factors are one object with the same contracted indices", key=f"shared {key}")
        if is_cached(fn):
            ctx.check("R19f", fn, not mutable, f"{lab}: cached result is an immutable sympy object",
                      f"{what} caches and returns the mutable container {mutable[:1]}: a caller that modifies it changes the result "
                      "of every later request", key=f"{lab} immutable")
        if True:
            ctx.check(rule, fn, not foreign, f"{what}: named indices are only requested for the caller-supplied strings / generated names",
                      f"{what} requests the literally named indices {sorted(set(foreign))}: every later call returns an expression over the "
                      "same index objects, which collide with these names in the caller's expression", key=f"named {key}")
        if meth == "psi":
            ctx.check(rule, fn, not stale, f"{what}: all tensor indices are drawn from get_generic_indices by this call",
                      f"{what}: tensor indices {sorted(set(stale))} are not generic indices of this request", key=f"psi generic {key}")
    ctx.floor(rule, "evaluated paths of the derivation layer", n_paths, 300 if tier == "quick" else 100)
    ctx.floor(rule, "products examined for shared index sources", n_prod, 1000 if tier == "quick" else 300)


# ====================================================================== R19e
# History independence of the index registry: all request histories up to a bounded depth are evaluated on the code of
# Indices (concrete state, evaluated by sa.symex) and compared with the two laws the derivations rely on:
#   stability: a named request returns the object that any earlier request handed out for that (name, spin);
#   freshness: a generic request returns objects that no earlier request of the history (named or generic) handed out.

def _registry(ctx, sx):
    cls = ctx.model.cls("indices:Indices")
    mod = ctx.model.module("indices")
    reg = Obj("indices:Indices", "registry")
    sx.frames, sx.module, sx.prefix, sx.decisions, sx.facts, sx.path, sx.effects, sx.steps, sx.depth = [{}], mod, [], [], {}, [], [], 0, 0
    for st in cls.body:
        if isinstance(st, ast.Assign) and len(st.targets) == 1 and isinstance(st.targets[0], ast.Name):
            reg.attrs[st.targets[0].id] = sx.ev(st.value)
        elif isinstance(st, ast.AnnAssign) and isinstance(st.target, ast.Name) and st.value is not None:
            reg.attrs[st.target.id] = sx.ev(st.value)
    outs = sx.run(ctx.model.fn("indices:Indices.__init__"), lambda: dict(self=reg))
    if len(outs) != 1 or outs[0].kind != "return":
        raise AnalysisError(f"R19e: Indices.__init__ does not evaluate to one state: {outs}")
    return reg


def r19e(ctx, depth=3):
    rule = "R19e"
    gi = ctx.model.fn("indices:Indices.get_indices")
    gg = ctx.model.fn("indices:Indices.get_generic_indices")
    counter = [0]

    def new_symbol(sx, a, kw):
        a = [x for x in a if not (isinstance(x, Obj) and x.cls == "indices:Indices")]
        name = a[0] if a else kw.get("name")
        counter[0] += 1
        # a concrete, unique value: the registry code only stores, compares (`is None`) and returns index objects
        return ("Index", name, a[1] if len(a) > 1 else kw.get("space"), a[2] if len(a) > 2 else kw.get("spin", ""), counter[0])
    sx = Symex(ctx.model, inline=lambda q: q.startswith("indices:"), hooks={"_new_symbol": new_symbol, "Indices._new_symbol": new_symbol},
               what="Indices", max_paths=64)
    # the request alphabet: generic requests of one and two occupied indices and explicit requests of names around the
    # first generation of generic names (i3 j3 ...), of an unnumbered name and of a name of the next generation
    ops = [("generic", 1), ("generic", 2), ("named", "i3"), ("named", "j3"), ("named", "k3"), ("named", "i"), ("named", "i4"),
           ("named", "j3k3")]
    import itertools
    n_hist = n_req = 0
    stale, unstable, failed = [], [], []
    for L in range(1, depth + 1):
        for hist in itertools.product(ops, repeat=L):
            reg = _registry(ctx, sx)
            handed = {}     # id(object) -> (name, how)
            by_name = {}
            n_hist += 1
            ok = True
            for kind, arg in hist:
                n_req += 1
                if kind == "generic":
                    outs = sx.run(gg, lambda: dict(self=reg, kwargs={"occ": arg}))
                else:
                    outs = sx.run(gi, lambda: dict(self=reg, indices=arg, spins=None))
                if len(outs) != 1 or outs[0].kind != "return" or not isinstance(outs[0].value, dict):
                    failed.append((hist, outs))
                    ok = False
                    break
                objs = [o for v in outs[0].value.values() for o in v]
                if kind == "generic" and len(objs) != arg:
                    failed.append((hist, f"{len(objs)} objects for a request of {arg}"))
                for o in objs:
                    nm = o[1] if isinstance(o, tuple) and len(o) == 5 and o[0] == "Index" else None
                    if nm is None:
                        failed.append((hist, f"{show(o)} handed out instead of an index"))
                        continue
                    if kind == "generic" and id(o) in handed:
                        stale.append((hist, nm, handed[id(o)]))
                    if kind == "named" and nm in by_name and by_name[nm] is not o:
                        unstable.append((hist, nm))
                    if kind == "generic" and nm in by_name and by_name[nm] is not o:
                        unstable.append((hist, nm))
                    handed.setdefault(id(o), (nm, kind))
                    by_name.setdefault(nm, o)
            if not ok:
                continue

    def hs(h):
        return " ; ".join(f"generic(occ={a})" if k == "generic" else f"get_indices('{a}')" for k, a in h)
    ctx.floor(rule, "request histories evaluated on Indices", n_hist, 500)
    ctx.check(rule, gg, not failed, f"{n_hist} request histories ({n_req} requests) evaluate to index dictionaries",
              f"history `{hs(failed[0][0]) if failed else ''}` does not return the requested indices: {failed[0][1] if failed else ''}",
              key="histories evaluate")
    ctx.check(rule, gg, not stale, "a generic request never hands out an object that an earlier request of the history handed out",
              f"after `{hs(stale[0][0][:-1]) if stale else ''}` the request `{hs(stale[0][0][-1:]) if stale else ''}` hands out the index "
              f"{stale[0][1] if stale else ''}, which was already handed out ({stale[0][2][1] if stale else ''} request): contracted "
              f"indices collide with indices in use ({len(stale)} such histories)", key="generic fresh")
    ctx.check(rule, gi, not unstable, "one object per index name whatever the history",
              f"history `{hs(unstable[0][0]) if unstable else ''}` yields two different objects for the name {unstable[0][1] if unstable else ''}",
              key="named stable")


# ====================================================================== R19c
# Provenance of string literals: no literal that spells a default tensor name reaches a position where a tensor name
# is expected (constructor name, comparison with / lookup by / prefix test of a tensor name, a tensor-name parameter).

NAME_PARAMS = ("t_name", "t_string", "tensor_name")
NAME_MODULES = ("tensor_names", "sympy_objects")      # here a parameter called `name` is a tensor name
MAX_PATTERNS = 64


def _defaults(ctx):
    """field -> default of TensorNames, read from the class body by evaluation of the annotated assignments"""
    cls = ctx.model.cls("tensor_names:TensorNames")
    out = {}
    for n in cls.body:
        if isinstance(n, ast.AnnAssign) and isinstance(n.target, ast.Name) and isinstance(n.value, ast.Constant) \
                and isinstance(n.value.value, str):
            out[n.target.id] = n.value.value
    if len(out) < 8 or "gs_amplitude" not in out or "gs_density" not in out:
        raise AnalysisError("TensorNames defaults not found")
    return out


class NameFlow:
    def __init__(self, ctx):
        self.ctx = ctx
        self.cg = call_graph(ctx)
        self.defaults = _defaults(ctx)
        self.vals = set(self.defaults.values())
        self.t, self.p = self.defaults["gs_amplitude"], self.defaults["gs_density"]
        self._scopes = {}

    def scope(self, node):
        fn = node if isinstance(node, FuncNode) else enclosing(node, FuncNode)
        if fn is None:
            return None
        if id(fn) not in self._scopes:
            self._scopes[id(fn)] = _Scope(fn, self.cg.defs(fn))
        return self._scopes[id(fn)]

    # ---------------------------------------------------------------- literals
    def default_like(self, s):
        if s in self.vals:
            return True
        if s.startswith(self.t) and s != self.t:
            rest = s[len(self.t):]
            rest = rest[:-2] if rest.endswith("cc") else rest
            if rest == "" or rest.isdigit():
                return True
        if s.startswith(self.p) and s[len(self.p):].isdigit():
            return True
        return False

    def flagged(self, pat):
        if all(isinstance(x, str) for x in pat):
            return self.default_like("".join(pat))
        head = pat[0] if pat and isinstance(pat[0], str) else ""
        if not head:
            return False
        if all(x is None for x in pat[1:]) and (head in self.vals or head.rstrip("0123456789") in (self.t, self.p)):
            return True     # default name followed by a computed extension (order, cc, ...)
        return False

    @staticmethod
    def _cat(a, b):
        out = []
        for x in a:
            for y in b:
                z = list(x)
                for part in y:
                    if isinstance(part, str) and z and isinstance(z[-1], str):
                        z[-1] += part
                    elif part is None and z and z[-1] is None:
                        pass
                    else:
                        z.append(part)
                out.append(tuple(z))
                if len(out) > MAX_PATTERNS:
                    return out
        return out

    def lits(self, e, depth=5, seen=None):
        """patterns of the strings an expression may evaluate to: tuples of literal parts and None (unknown)"""
        seen = set() if seen is None else seen
        unknown = [(None,)]
        if e is None or depth < 0 or id(e) in seen:
            return unknown
        seen = seen | {id(e)}
        if isinstance(e, ast.Constant):
            return [(e.value,)] if isinstance(e.value, str) else unknown
        if isinstance(e, ast.JoinedStr):
            acc = [()]
            for v in e.values:
                if isinstance(v, ast.Constant):
                    part = [(str(v.value),)]
                elif isinstance(v, ast.FormattedValue) and v.format_spec is None and v.conversion == -1:
                    part = self.lits(v.value, depth - 1, seen)
                else:
                    part = unknown
                acc = self._cat(acc, part)
            return acc
        if isinstance(e, ast.BinOp) and isinstance(e.op, ast.Add):
            return self._cat(self.lits(e.left, depth - 1, seen), self.lits(e.right, depth - 1, seen))
        if isinstance(e, ast.BinOp) and isinstance(e.op, ast.Mod):
            out = []
            for pat in self.lits(e.left, depth - 1, seen):
                if pat and isinstance(pat[0], str) and "%" in pat[0]:
                    out.append((pat[0].split("%")[0], None))
                else:
                    out.append((None,))
            return out
        if isinstance(e, ast.IfExp):
            return self.lits(e.body, depth - 1, seen) + self.lits(e.orelse, depth - 1, seen)
        if isinstance(e, ast.BoolOp):
            return [p for v in e.values for p in self.lits(v, depth - 1, seen)]
        if isinstance(e, ast.NamedExpr):
            return self.lits(e.value, depth - 1, seen)
        if isinstance(e, ast.Call) and isinstance(e.func, ast.Attribute) and e.func.attr == "format":
            out = []
            for pat in self.lits(e.func.value, depth - 1, seen):
                if pat and isinstance(pat[0], str) and "{" in pat[0]:
                    out.append((pat[0].split("{")[0], None))
                else:
                    out.append((None,))
            return out
        if isinstance(e, ast.Call) and isinstance(e.func, ast.Name) and e.func.id == "str" and len(e.args) == 1:
            return self.lits(e.args[0], depth - 1, seen) if isinstance(e.args[0], ast.Constant) and isinstance(e.args[0].value, str) else unknown
        if isinstance(e, ast.Name):
            sc = self.scope(e)
            while sc is not None:
                b = sc.defs.all_defs(e.id)
                if b:
                    out = []
                    for kind, v in b:
                        if kind == "assign" and v is not None:
                            out.extend(self.lits(v, depth - 1, seen))
                        elif kind == "param":
                            out.extend(self._param_default(sc.fn, e.id, depth, seen))
                        else:
                            out.extend(unknown)
                    return out[:MAX_PATTERNS]
                sc = self.scope(sc.fn._parent) if getattr(sc.fn, "_parent", None) is not None else None
            m = e._module if hasattr(e, "_module") else None
            if m is not None:
                for st in m.tree.body:
                    if isinstance(st, ast.Assign) and any(isinstance(t, ast.Name) and t.id == e.id for t in st.targets):
                        return self.lits(st.value, depth - 1, seen)
                    if isinstance(st, ast.AnnAssign) and isinstance(st.target, ast.Name) and st.target.id == e.id and st.value is not None:
                        return self.lits(st.value, depth - 1, seen)
            return unknown
        return unknown

    def _param_default(self, fn, name, depth, seen):
        a = fn.args
        pos = a.posonlyargs + a.args
        for p, d in zip(pos[len(pos) - len(a.defaults):], a.defaults):
            if p.arg == name:
                return self.lits(d, depth - 1, seen) + [(None,)]
        for p, d in zip(a.kwonlyargs, a.kw_defaults):
            if p.arg == name and d is not None:
                return self.lits(d, depth - 1, seen) + [(None,)]
        return [(None,)]

    def elements(self, e, depth=3):
        """expressions a membership / lookup collection is made of"""
        if isinstance(e, (ast.List, ast.Tuple, ast.Set)):
            return list(e.elts)
        if isinstance(e, ast.Dict):
            return [k for k in e.keys if k is not None]
        if isinstance(e, ast.Call) and call_name(e) in ("set", "frozenset", "tuple", "list", "dict") and len(e.args) == 1:
            return self.elements(e.args[0], depth - 1)
        if isinstance(e, ast.Name) and depth > 0:
            sc = self.scope(e)
            if sc is not None and sc.values(e.id):
                return [x for v in sc.values(e.id) for x in self.elements(v, depth - 1)]
        return []

    def bad_literals(self, e):
        return sorted({"".join(x if isinstance(x, str) else "{..}" for x in pat) for pat in self.lits(e) if self.flagged(pat)})

    # ---------------------------------------------------------------- tensor-name typed expressions
    def is_name(self, e, depth=4, seen=None):
        seen = set() if seen is None else seen
        if e is None or depth < 0 or id(e) in seen:
            return False
        seen = seen | {id(e)}
        if isinstance(e, ast.Attribute):
            return e.attr == "name"
        if isinstance(e, ast.NamedExpr):
            return self.is_name(e.value, depth - 1, seen)
        if isinstance(e, ast.Name):
            sc = self.scope(e)
            while sc is not None:
                b = sc.defs.all_defs(e.id)
                if b:
                    for kind, v in b:
                        if kind == "param" and (sc.fn, e.id) in self.tensor_params:
                            return True
                        if kind == "assign" and v is not None and self.is_name(v, depth - 1, seen):
                            return True
                    return False
                sc = self.scope(sc.fn._parent) if getattr(sc.fn, "_parent", None) is not None else None
        return False

    # ---------------------------------------------------------------- tensor-name parameters (fixpoint)
    def compute_tensor_params(self):
        self.tensor_params = set()
        fns = [fn for _, fn in self.ctx.model.all_functions()]
        params = {id(fn): [a.arg for a in fn.args.posonlyargs + fn.args.args + fn.args.kwonlyargs] for fn in fns}
        for fn in fns:
            for p in params[id(fn)]:
                if p in NAME_PARAMS or (p == "name" and fn._module.name in NAME_MODULES):
                    self.tensor_params.add((fn, p))
        changed = True
        rounds = 0
        while changed and rounds < 6:
            changed = False
            rounds += 1
            for fn in fns:
                ps = [p for p in params[id(fn)] if (fn, p) not in self.tensor_params and p not in ("self", "cls")]
                if not ps:
                    continue
                for n in walk_fn(fn, nested=False):
                    hit = None
                    if isinstance(n, ast.Compare) and len(n.ops) == 1 and isinstance(n.ops[0], (ast.Eq, ast.NotEq)):
                        l, r = n.left, n.comparators[0]
                        for a, b in ((l, r), (r, l)):
                            if isinstance(a, ast.Name) and a.id in ps and self.is_name(b):
                                hit = a.id
                    elif isinstance(n, ast.Call):
                        for pname, arg in self._bound_args(n):
                            if isinstance(arg, ast.Name) and arg.id in ps and pname is True:
                                hit = arg.id
                    if hit and (fn, hit) not in self.tensor_params:
                        self.tensor_params.add((fn, hit))
                        changed = True

    def _bound_args(self, call):
        """(True, argument expression) for every argument that is bound to a tensor-name position of the callee"""
        nm = call_name(call)
        out = []
        if nm in TENSOR_CTORS:
            a = kwarg(call, "name", 0)
            if a is not None:
                out.append((True, a))
            return out
        cands = self.cg.functions_of_expr(call.func, call) if isinstance(call.func, ast.Name) else list(self.cg.by_short.get(nm, []))
        for f in cands:
            if isinstance(f, ast.Lambda):
                continue
            ps = [a.arg for a in f.args.posonlyargs + f.args.args]
            skip = 1 if ps and ps[0] in ("self", "cls") and isinstance(call.func, ast.Attribute) else 0
            for k, a in enumerate(call.args):
                if isinstance(a, ast.Starred):
                    break
                if k + skip < len(ps) and (f, ps[k + skip]) in self.tensor_params:
                    out.append((True, a))
            for kw in call.keywords:
                if kw.arg is not None and (f, kw.arg) in self.tensor_params:
                    out.append((True, kw.value))
        return out


def r19c(ctx):
    rule = "R19c"
    nf = NameFlow(ctx)
    nf.tensor_params = set()
    nf.compute_tensor_params()
    n_ctor = n_cmp = n_arg = 0
    for mname, m in ctx.model.modules.items():
        ctx.model.used_modules.add(mname)
        if mname == "tensor_names":
            continue
        for node in ast.walk(m.tree):
            if isinstance(node, ast.Call):
                nm = call_name(node)
                if nm in TENSOR_CTORS:
                    a0 = kwarg(node, "name", 0)
                    if a0 is not None:
                        n_ctor += 1
                        bad = nf.bad_literals(a0)
                        ctx.check(rule, node, not bad, "tensor name not a hard-coded default",
                                  f"`{short(node, 70)}` is built with the hard-coded default name {bad} instead of tensor_names.*; with "
                                  "another configuration the tensor is no longer recognised", key=f"ctor literal {bad}")
                elif isinstance(node.func, ast.Attribute) and nm in ("startswith", "endswith", "removeprefix", "removesuffix") \
                        and node.args and nf.is_name(node.func.value):
                    n_cmp += 1
                    bad = [b for a in (nf.elements(node.args[0]) or [node.args[0]]) for b in nf.bad_literals(a)]
                    ctx.check(rule, node, not bad, "prefix test of a tensor name not against a hard-coded default",
                              f"`{short(node, 70)}` tests a tensor name against the hard-coded default {bad}", key=f"prefix literal {bad}")
                else:
                    for _, a in nf._bound_args(node):
                        n_arg += 1
                        bad = nf.bad_literals(a)
                        ctx.check(rule, node, not bad, "tensor-name argument not a hard-coded default",
                                  f"`{short(node, 70)}` passes the hard-coded default name {bad} where a tensor name is expected",
                                  key=f"arg literal {bad}")
            elif isinstance(node, ast.Compare):
                sides = [node.left] + list(node.comparators)
                for op, l, r in zip(node.ops, sides, sides[1:]):
                    if isinstance(op, (ast.Eq, ast.NotEq)):
                        pairs = [(l, [r]), (r, [l])]
                    elif isinstance(op, (ast.In, ast.NotIn)):
                        pairs = [(l, nf.elements(r))]
                    else:
                        continue
                    for nm_side, others in pairs:
                        if not others or not nf.is_name(nm_side):
                            continue
                        n_cmp += 1
                        bad = [b for o in others for b in nf.bad_literals(o)]
                        ctx.check(rule, node, not bad, "name comparison not against a hard-coded default",
                                  f"`{short(node, 80)}` compares a tensor name with the hard-coded default {bad}", key=f"cmp literal {bad}")
            elif isinstance(node, ast.Subscript) and isinstance(node.ctx, ast.Load) and nf.is_name(node.slice):
                keys = nf.elements(node.value)
                if keys:
                    n_cmp += 1
                    bad = [b for o in keys for b in nf.bad_literals(o)]
                    ctx.check(rule, node, not bad, "table keyed by tensor names has no hard-coded default key",
                              f"`{short(node, 80)}` looks a tensor name up in a table with the hard-coded default key(s) {bad}",
                              key=f"table literal {bad}")
            elif isinstance(node, ast.match_case) if hasattr(ast, "match_case") else False:
                pass
    ctx.floor(rule, "tensor constructor sites examined", n_ctor, 40)
    ctx.floor(rule, "comparisons / look-ups of tensor names examined", n_cmp, 10)
    ctx.floor(rule, "arguments bound to tensor-name parameters examined", n_arg, 5)
    # the decision procedure itself: positive fixtures
    for s, want in (("V", True), ("t", True), ("t2", True), ("t1cc", True), ("p0", True), ("t2eri", False), ("t2sq", False),
                    ("u", False), ("Zero", False)):
        if nf.default_like(s) is not want:
            raise AnalysisError(f"R19c fixture: default_like({s!r}) != {want}")


# ====================================================================== R19c (registry look-ups) / R19d


def _self_args(fn, mod):
    cls = getattr(fn, "_cls", None)

    def make():
        d = {}
        a = fn.args
        for p in a.posonlyargs + a.args + a.kwonlyargs:
            if p.arg in ("self", "cls") and cls:
                d[p.arg] = Obj(f"{mod}:{cls}", "self")
            else:
                d[p.arg] = sym(p.arg)
        return d
    return make


class _Registry(dict):
    """the registry of intermediates (keyed by default long names); logs every key it is asked for"""

    def __init__(self, entries, sx):
        super().__init__(entries)
        self.sx = sx

    def __contains__(self, k):
        self.sx.effects.append(T("asked", k if isinstance(k, (str, T)) else repr(k)))
        return dict.__contains__(self, k)

    def __getitem__(self, k):
        if not dict.__contains__(self, k):
            self.sx.effects.append(T("asked", k if isinstance(k, (str, T)) else repr(k)))
        return dict.__getitem__(self, k)

    def __deepcopy__(self, memo):
        return self


def _registry_readers(ctx):
    """members of expr_container.Obj that reach the registry of intermediates (`.available`), directly or through self.<member>"""
    m = ctx.model.module("expr_container")
    members = {q.split(".", 1)[1]: f for q, f in m.functions.items() if q.startswith("Obj.") and q.count(".") == 1}
    reach = {n for n, f in members.items() if any(isinstance(x, ast.Attribute) and x.attr == "available" for x in walk_fn(f))}
    changed = True
    while changed:
        changed = False
        for n, f in members.items():
            if n in reach:
                continue
            for x in walk_fn(f):
                if isinstance(x, ast.Attribute) and isinstance(x.value, ast.Name) and x.value.id == "self" and x.attr in reach:
                    reach.add(n)
                    changed = True
                    break
    return {n: members[n] for n in reach}


def r19h(ctx):
    """Look-ups in the registry of intermediates (keyed by default names): every member of Obj that reaches the registry is
    evaluated on tensors that carry the *configured* names of a renamed configuration; the registry must be asked for the
    default long name."""
    rule = "R19c"
    defaults = _defaults(ctx)
    t, p = defaults["gs_amplitude"], defaults["gs_density"]
    readers = _registry_readers(ctx)
    ctx.floor(rule, "members of Obj that reach the registry of intermediates", len(readers), 3)

    def fields_hook(sx_, a, kw):
        out = []
        for nm, d in defaults.items():
            f = Obj(None, f"field:{nm}")
            f.attrs.update(name=nm, default=d)
            out.append(f)
        return out
    n_lookups = 0
    for conf_name, conf in (("renamed", {"gs_amplitude": "T", "gs_density": "rho"}), ("default", {})):
        cfg = dict(defaults)
        cfg.update(conf)
        # (label, configured name, upper, lower, space, default long name)
        tensors = [("second order doubles amplitude", cfg["gs_amplitude"] + "2", 2, 2, "vvoo", f"{t}2_2"),
                   ("complex conjugate first order amplitude", cfg["gs_amplitude"] + "1cc", 2, 2, "oovv", f"{t}2_1cc"),
                   ("second order density, occupied block", cfg["gs_density"] + "2", 1, 1, "oo", f"{p}0_2_oo")]
        for member, fn in sorted(readers.items()):
            for label, name, n_up, n_lo, space, want in tensors:
                tn = Obj("tensor_names:TensorNames", "tensor_names")
                tn.attrs.update(cfg)
                sx = Symex(ctx.model, inline=lambda q: q.startswith("expr_container:Obj.") or q.startswith("tensor_names:"),
                           hooks={"tensor_names": tn, "fields": fields_hook}, what=f"Obj.{member}", max_paths=512)
                itmd = Obj(None, f"<registered {want}>")
                itmd.attrs.update(order=7, allowed_spin_blocks=("registered",), name=want)
                sx.hooks["Intermediates"] = lambda s_, a_, k_, want=want, itmd=itmd: _reg_obj(s_, {want: itmd, "other_1": Obj(None, "<other>")})

                def args():
                    idx = tuple(_idx(c) for c in ("ab" if space[0] == "v" else "ij")[:n_up] + ("ij" if space[0] == "v" else "ab")[:n_lo])
                    base = Obj(None, f"{name}[{space}]")
                    base.attrs.update(_classes={"SymbolicTensor", "AntiSymmetricTensor", "Amplitude"}, name=name, upper=idx[:n_up],
                                      lower=idx[n_up:], idx=idx, is_number=False, bra_ket_sym=0)
                    me = Obj("expr_container:Obj", "self")
                    term = Obj(None, "self.term")
                    term.attrs["target"] = ()
                    me.attrs.update(sympy=base, idx=idx, space=space, term=term, assumptions={}, _sym_tensors=set(), _antisym_tensors=set())
                    d = {}
                    a = fn.args
                    for prm in a.posonlyargs + a.args:
                        if prm.arg == "self":
                            d["self"] = me
                    return d
                outs = sx.run(fn, args)
                asked = [e.args[0] for o in outs if o.kind == "return" for e in o.effects if isinstance(e, T) and e.op == "asked"]
                if not asked:
                    if outs and all(o.kind == "raise" for o in outs):
                        n_lookups += 1
                        ctx.bad(rule, fn, f"Obj.{member} raises {sorted({o.exc for o in outs})} for the {label} named `{name}` ({conf_name} "
                                "configuration) before the registry of intermediates is consulted", fn=f"expr_container:Obj.{member}",
                                key=f"lookup Obj.{member} {conf_name} {want} raises")
                    continue        # this member does not consult the registry for this kind of tensor
                n_lookups += 1
                wrong = sorted({show(k) for k in asked if k != want})
                ctx.check(rule, fn, not wrong, f"Obj.{member}: {label} named `{name}` ({conf_name} configuration) is looked up as `{want}`",
                          f"Obj.{member} asks the registry of intermediates (keyed by default names) for {wrong} when the {label} carries "
                          f"the configured name `{name}` ({conf_name} configuration `{conf}`); the registered name is `{want}`: the tensor is "
                          "no longer recognised as an intermediate as soon as tensor_names.json renames amplitudes/densities",
                          fn=f"expr_container:Obj.{member}", key=f"lookup Obj.{member} {conf_name} {want}")
    ctx.floor(rule, "registry look-ups evaluated", n_lookups, 6)


def _reg_obj(sx, entries):
    r = Obj(None, "Intermediates()")
    r.attrs["available"] = _Registry(entries, sx)
    return r


def _deco_call(cls, name):
    for d in cls.decorator_list:
        f = d.func if isinstance(d, ast.Call) else d
        if (isinstance(f, ast.Name) and f.id == name) or (isinstance(f, ast.Attribute) and f.attr == name):
            return d
    return None


def r19d(ctx):
    rule = "R19d"
    cls = ctx.model.cls("tensor_names:TensorNames")
    mod = ctx.model.module("tensor_names")
    sx = Symex(ctx.model, inline=lambda q: False, what="TensorNames")
    sx.frames, sx.module, sx.prefix, sx.decisions, sx.facts, sx.path, sx.effects, sx.steps, sx.depth = [{}], mod, [], [], {}, [], [], 0, 0
    d = _deco_call(cls, "dataclass")
    opts = {}
    if isinstance(d, ast.Call):
        for k in d.keywords:
            if k.arg is not None:
                opts[k.arg] = sx.ev(k.value)
    ctx.check(rule, cls, d is not None and opts.get("frozen") is True and opts.get("slots") is True,
              "TensorNames is a frozen slotted dataclass", f"TensorNames is declared with dataclass options {opts}: its fields can be "
              "rebound at run time", key="frozen")
    meta = [sx.ev(k.value) for k in cls.keywords if k.arg == "metaclass"]
    mname = [m_.short if isinstance(m_, ClassRef) else m_.name.split(".")[-1] if isinstance(m_, Ext) else None for m_ in meta]
    ctx.check(rule, cls, mname == ["Singleton"],
              "TensorNames is a singleton", "TensorNames lost the Singleton metaclass", key="singleton")
    # the module-level instance, evaluated with every function of the module looked into: TensorNames(**<loaded json>)
    n_bind = sum(1 for st in mod.tree.body for t in (st.targets if isinstance(st, ast.Assign) else [st.target] if isinstance(st, (ast.AnnAssign, ast.AugAssign)) else [])
                 for x in ast.walk(t) if isinstance(x, ast.Name) and x.id == "tensor_names")
    sxi = Symex(ctx.model, inline=lambda q: q.startswith("tensor_names:"), what="tensor_names instance")
    sxi.frames, sxi.module, sxi.prefix, sxi.decisions, sxi.facts, sxi.path, sxi.effects, sxi.steps, sxi.depth = [{}], mod, [], [], {}, [], [], 0, 0
    inst = sxi.global_name(mod, "tensor_names")
    a = args_of(inst) if isinstance(inst, T) and inst.op == "call" and inst.args[0] == "TensorNames" else None
    src = a.get("**") if a else None
    loads = [x for x in calls(src)] if src is not None else []
    from_json = a is not None and set(a) == {"**"} and any((x.args[0] if x.op == "call" else x.args[1]).split(".")[-1] in ("load", "loads") for x in loads)
    ctx.check(rule, mod.tree, n_bind == 1 and a is not None, "one module-level TensorNames instance",
              f"the module level instance evaluates to {show(inst)[:200]} (bound {n_bind} times)", key="instance")
    ctx.check(rule, mod.tree, from_json, "all fields of the instance are taken from the JSON file",
              f"the instance evaluates to {show(inst)[:200]}: not TensorNames(**<loaded json>)", key="from config")
    df = ctx.model.fn("tensor_names:TensorNames.defaults")

    def fields_hook(s, a_, kw_):
        out = []
        for nm in ("eri", "gs_amplitude", "orb_energy"):
            f = Obj(None, "field_" + nm)
            f.attrs.update(name=nm, default=sym("default_" + nm))
            out.append(f)
        return out
    outs = Symex(ctx.model, inline=lambda q: False, what="defaults", hooks={"fields": fields_hook}).run(df, lambda: {})
    want = {nm: sym("default_" + nm) for nm in ("eri", "gs_amplitude", "orb_energy")}
    ok = len(outs) == 1 and outs[0].kind == "return" and outs[0].value == want
    ctx.check(rule, df, ok, "defaults read from the field table", f"defaults() returns {show(outs[0].value) if outs else '?'} for the fields "
              "eri, gs_amplitude, orb_energy; expected their default values by name", key="defaults")
    # no store on the instance anywhere in the package
    n = 0
    for mname, m in ctx.model.modules.items():
        ctx.model.used_modules.add(mname)
        aliases = {loc for loc, origin in m.imports.items() if origin.endswith(":tensor_names") and "tensor_names" in origin.split(":")[0]}
        if mname == "tensor_names":
            aliases.add("tensor_names")

        def is_inst(e):
            return (isinstance(e, ast.Name) and e.id in aliases) or \
                (isinstance(e, ast.Attribute) and e.attr == "tensor_names" and isinstance(e.value, (ast.Name, ast.Attribute)) and
                 (e.value.id if isinstance(e.value, ast.Name) else e.value.attr) == "tensor_names")
        for node in ast.walk(m.tree):
            tgt = []
            if isinstance(node, ast.Assign):
                tgt = node.targets
            elif isinstance(node, (ast.AugAssign, ast.AnnAssign)):
                tgt = [node.target]
            elif isinstance(node, ast.Delete):
                tgt = node.targets
            for t in tgt:
                for x in ast.walk(t):
                    if isinstance(x, ast.Attribute) and isinstance(x.ctx, (ast.Store, ast.Del)) and is_inst(x.value):
                        n += 1
                        ctx.bad(rule, node, f"`{short(node, 60)}` changes a configured tensor name at run time", key=f"store .{x.attr}")
            if isinstance(node, ast.Call) and call_name(node) in ("__setattr__", "setattr", "__delattr__", "delattr") and \
                    any(is_inst(a) for a in node.args[:2]):
                n += 1
                ctx.bad(rule, node, f"`{short(node, 60)}` rebinds a field of the TensorNames instance", key="setattr")
    if not n:
        ctx.ok(rule, None, "no attribute store on tensor_names in the package", fn="package", key="no store")


# ====================================================================== R19i
# The caches themselves: cached_member / cached_property are evaluated on a model of a method that counts its evaluations;
# the sequence of calls is compared with a reference memo keyed by (instance, method, fully bound arguments).

class _Callee(Obj):
    """the decorated function: logs every evaluation and returns a distinguishable result"""

    def __init__(self, name, params=(), defaults=None):
        super().__init__(None, name)
        self.attrs.update(__name__=name, __doc__=None, __qualname__=name, __module__="m", __dict__={}, __wrapped__=None)
        self.__dict__["params"], self.__dict__["defaults"], self.__dict__["log"] = list(params), dict(defaults or {}), []

    def __call__(self, sx, args, kw):
        inst = args[0]
        self.log.append((inst.name if isinstance(inst, Obj) else inst, tuple(args[1:]), tuple(sorted(kw.items()))))
        return ("result", self.name, len(self.log))


def _signature_hook(sx, a, kw):
    """inspect.signature of a _Callee: bind / apply_defaults as Python does"""
    f = a[0]
    names = ["self"] + list(f.params)
    sig = Obj(None, f"signature:{f.name}")
    sig.attrs["parameters"] = {}        # the kinds of the parameters (keyword-only refused) are not the subject here

    def bind(sx2, a2, kw2):
        if len(a2) > len(names):
            raise Raised("TypeError")
        vals = dict(zip(names, a2))
        for k, v in kw2.items():
            if k in vals or k not in names:
                raise Raised("TypeError")
            vals[k] = v
        if any(n not in vals and n not in f.defaults for n in names):
            raise Raised("TypeError")
        ba = Obj(None, "bound_arguments")

        def refresh():
            given = [n for n in names if n in vals]
            # positional-or-keyword parameters are reported positionally up to the first missing one
            pos = []
            for n in names:
                if n not in vals:
                    break
                pos.append(vals[n])
            ba.attrs["args"] = tuple(pos)
            ba.attrs["kwargs"] = {n: vals[n] for n in given[len(pos):]}
            ba.attrs["arguments"] = dict(vals)

        def apply_defaults(sx3, a3, kw3):
            for k, v in f.defaults.items():
                vals.setdefault(k, v)
            refresh()
        refresh()
        ba.attrs["apply_defaults"] = apply_defaults
        return ba
    sig.attrs["bind"] = bind
    return sig


def _cache_attr_hook(sx, obj, attr, node):
    if isinstance(obj, Obj) and not isinstance(obj, _Callee) and attr.startswith("_") and not attr.startswith("__"):
        raise Raised("AttributeError")      # instances start without any private cache attribute
    return NotImplemented


def r19i(ctx):
    rule = "R19i"
    hooks = {"signature": _signature_hook, "inspect.signature": _signature_hook,
             "wraps": lambda s, a, k: (lambda s2, a2, k2: a2[0]), "property": lambda s, a, k: a[0] if a else k.get("fget")}
    sx = Symex(ctx.model, inline=lambda q: q.startswith("misc:"), hooks=hooks, attr_hook=_cache_attr_hook, what="caches", max_paths=64)

    def decorate(ref, callee):
        outs = sx.run(ref, lambda: dict(function=callee))
        if len(outs) != 1 or outs[0].kind != "return" or not isinstance(outs[0].value, Func):
            raise AnalysisError(f"R19i: {ref} does not evaluate to one wrapper function: {outs}")
        return outs[0].value

    def call(w, inst, *a, **k):
        sx.frames, sx.module, sx.prefix, sx.decisions, sx.facts, sx.path, sx.effects, sx.steps, sx.depth = [], None, [], [], {}, [], [], 0, 0
        try:
            return sx.call_value(w, [inst] + list(a), dict(k), None)
        except Raised as e:
            return ("raised", e.name)

    # ---- cached_member
    fn = ctx.model.fn("misc:cached_member")
    f = _Callee("energy", ["order", "space"], {"space": "ph"})
    g = _Callee("overlap", ["order", "space"], {"space": "ph"})
    wf, wg = decorate("misc:cached_member", f), decorate("misc:cached_member", g)
    i1, i2 = Obj(None, "instance1"), Obj(None, "instance2")
    seq = [(wf, f, i1, (1,), {}), (wf, f, i1, (), {"order": 1}), (wf, f, i1, (1, "ph"), {}), (wf, f, i1, (1,), {"space": "ph"}),
           (wf, f, i1, (1, "pphh"), {}), (wf, f, i2, (1,), {}), (wg, g, i1, (1,), {}), (wf, f, i1, (2,), {}), (wf, f, i1, (1,), {}),
           (wg, g, i2, (), {"space": "ph", "order": 1}), (wf, f, i2, (1, "ph"), {}), (wg, g, i1, (1, "ph"), {})]
    memo, wrong_hit, missed, wrong_args = {}, [], [], []
    for w, c, inst, a, k in seq:
        full = dict(zip(c.params, a))
        full.update(k)
        for p, d in c.defaults.items():
            full.setdefault(p, d)
        key = (inst.name, c.name, tuple(full[p] for p in c.params))
        n0 = len(c.log)
        r = call(w, inst, *a, **k)
        evaluated = len(c.log) > n0
        desc = f"{c.name}({', '.join(map(repr, a))}{', ' if a and k else ''}{', '.join(f'{x}={y!r}' for x, y in k.items())}) on {inst.name}"
        if key in memo:
            if evaluated:
                missed.append(desc)
            elif r != memo[key]:
                wrong_hit.append((desc, r, memo[key]))
        else:
            if not evaluated:
                wrong_hit.append((desc, r, "a new evaluation"))
            else:
                got = c.log[-1]
                if got[0] != inst.name or tuple(got[1]) + tuple(v for _, v in got[2]) != key[2] and \
                        dict(zip(c.params, got[1]), **dict(got[2])) != full:
                    wrong_args.append((desc, got))
            memo[key] = r
    ctx.check(rule, fn, not wrong_hit, "cached_member: a result is only reused for the same instance, method and fully bound arguments",
              f"cached_member returns {wrong_hit[0][1] if wrong_hit else ''} for the request {wrong_hit[0][0] if wrong_hit else ''}; expected "
              f"{wrong_hit[0][2] if wrong_hit else ''}: the result depends on which requests preceded it", key="member sound")
    ctx.check(rule, fn, not missed, "cached_member: positional/keyword spelling and omitted defaults address the same entry",
              f"cached_member evaluates the method again for {missed[:2]}: equal requests yield distinct objects", key="member complete")
    ctx.check(rule, fn, not wrong_args, "cached_member: the method is evaluated with the requested arguments",
              f"cached_member evaluates {wrong_args[0] if wrong_args else ''}", key="member arguments")
    # ---- cached_property
    fn = ctx.model.fn("misc:cached_property")
    p, q = _Callee("prefactor"), _Callee("idx")
    gp, gq = decorate("misc:cached_property", p), decorate("misc:cached_property", q)
    j1, j2 = Obj(None, "instance1"), Obj(None, "instance2")
    memo, wrong_hit, missed = {}, [], []
    for w, c, inst in [(gp, p, j1), (gp, p, j1), (gq, q, j1), (gp, p, j2), (gq, q, j1), (gq, q, j2), (gp, p, j2), (gp, p, j1)]:
        key = (inst.name, c.name)
        n0 = len(c.log)
        r = call(w, inst)
        evaluated = len(c.log) > n0
        if key in memo and evaluated:
            missed.append(f"{c.name} of {inst.name}")
        elif key in memo and r != memo[key] or key not in memo and not evaluated:
            wrong_hit.append((f"{c.name} of {inst.name}", r, memo.get(key, "a new evaluation")))
        memo.setdefault(key, r)
    ctx.check(rule, fn, not wrong_hit, "cached_property: a value is only reused for the same instance and property",
              f"cached_property returns {wrong_hit[0][1] if wrong_hit else ''} for {wrong_hit[0][0] if wrong_hit else ''}; expected "
              f"{wrong_hit[0][2] if wrong_hit else ''}", key="property sound")
    ctx.check(rule, fn, not missed, "cached_property: evaluated once per instance", f"cached_property evaluates {missed[:2]} again",
              key="property complete")


# ====================================================================== R19j
# rename_tensors evaluated on a model expression: the tensors of an expression written with default names end up with the
# names map_default_name assigns to them - all at once, for configurations that rename, swap and chain default names.

def _rename_model(names):
    """expression model: a list of tensor names; rename_tensor(old, new) renames every tensor called old; atoms() lists
    the names present at the time of the call (as a set: both iteration orders are evaluated by the caller)"""
    state = {"names": list(names)}

    def make(order):
        expr = Obj("expr_container:Expr", "expr")
        expr.attrs["_classes"] = {"Expr", "Container"}

        def rename_tensor(sx, a, kw):
            a = [x for x in a if not isinstance(x, Obj)]
            old, new = (a + [kw.get("current"), kw.get("new")])[:2] if len(a) < 2 else a[:2]
            if not isinstance(old, str) or not isinstance(new, str):
                raise AnalysisError(f"R19j: rename_tensor called with {old!r}, {new!r}")
            state["names"] = [new if n == old else n for n in state["names"]]
            return expr

        def atoms(sx, a, kw):
            out = []
            for n in sorted(set(state["names"]), reverse=(order == 1)):
                s = Obj(None, f"Symbol({n})")
                s.attrs["name"] = n
                out.append(s)
            return out
        sympy = Obj(None, "expr.sympy")
        sympy.attrs["atoms"] = atoms
        expr.attrs.update(sympy=sympy, rename_tensor=rename_tensor)
        return expr
    return state, make


def r19j(ctx):
    rule = "R19j"
    fn = ctx.model.fn("tensor_names:TensorNames.rename_tensors")
    defaults = _defaults(ctx)
    t, p = defaults["gs_amplitude"], defaults["gs_density"]
    present = sorted(set(defaults.values())) + [t + "1", t + "2cc", t + "cc", p + "2", "Zero", "t2eri_1"]
    configs = {
        "defaults": {},
        "one name changed": {"eri": "W"},
        "two defaults swapped": {"eri": defaults["fock"], "fock": defaults["eri"]},
        "chain of renames": {"eri": defaults["fock"], "fock": "g"},
        "amplitudes renamed": {"gs_amplitude": "T"},
        "amplitudes and densities swapped": {"gs_amplitude": p, "gs_density": t},
        "name taken from a later field": {"coulomb": defaults["sym_orb_denom"], "sym_orb_denom": "Q"},
    }

    def fields_hook(sx, a, kw):
        out = []
        for nm, d in defaults.items():
            f = Obj(None, f"field:{nm}")
            f.attrs.update(name=nm, default=d)
            out.append(f)
        return out
    for what, conf in configs.items():
        cfg = dict(defaults)
        cfg.update(conf)

        def expected(n):
            for base, field in ((t, "gs_amplitude"), (p, "gs_density")):
                ext = n[len(base):]
                core = ext.replace("c", "") if field == "gs_amplitude" else ext
                if n.startswith(base) and (core == "" or core.isdigit()) and (field == "gs_amplitude" or ext == "" or ext.isdigit()):
                    if n == base or ext:
                        return cfg[field] + ext
            for field, d in defaults.items():
                if d == n:
                    return cfg[field]
            return n
        want = [expected(n) for n in present]
        for order in (0, 1):
            state, make = _rename_model(present)
            sx = Symex(ctx.model, inline=lambda q: q.startswith("tensor_names:"), hooks={"fields": fields_hook, "defaults": lambda s_, a_, k_: dict(defaults), "TensorNames.defaults": lambda s_, a_, k_: dict(defaults)}, what="rename_tensors",
                       max_paths=64)

            def args():
                me = Obj("tensor_names:TensorNames", "self")
                me.attrs.update(cfg)
                return dict(self=me, expr=make(order))
            outs = sx.run(fn, args)
            if len(outs) != 1 or outs[0].kind != "return":
                ctx.bad(rule, fn, f"rename_tensors ({what}) does not return on one path: {outs}", key=f"shape {what}")
                break
            got = state["names"]
            wrong = [(a, b, c) for a, b, c in zip(present, got, want) if b != c]
            ctx.check(rule, fn, not wrong, f"{what}: every default name is mapped to its configured name at once",
                      f"configuration `{conf}`: the tensor {wrong[0][0] if wrong else ''} ends up as {wrong[0][1] if wrong else ''}, expected "
                      f"{wrong[0][2] if wrong else ''} ({len(wrong)} of {len(present)} names wrong): renames are chained instead of applied "
                      "simultaneously, the result differs from the default-name result by more than the renaming",
                      key=f"simultaneous {what} {order}")


# ---------------------------------------------------------------------- R19j (bra-ket symmetry of the new name)
# Container invariant: every tensor whose name is listed in the container's sym_tensors / antisym_tensors carries that bra-ket
# symmetry (Expr.__init__, set_sym_tensors, set_antisym_tensors and make_real establish it).  Expr.rename_tensor is evaluated
# on a model expression (terms = tuples of (name, bra_ket_sym) tensors; the Term level is the reference model "rename every
# tensor called current and keep its bra_ket_sym attribute" / "give every tensor the symmetry the container declares for
# its name") and has to preserve the invariant: the tensors that receive a declared name receive the declared symmetry.

def _braket_expected(tensors, sym, antisym):
    return tuple((n, 1 if n in sym else -1 if n in antisym else s) for n, s in tensors)


class _SumModel:
    """model of Expr + its sympy content: a tuple of terms, each a tuple of (tensor name, bra_ket_sym in {0, 1, -1})"""

    def __init__(self, terms, sym=(), antisym=(), real=False):
        self.problems = []
        model = self
        self.expr = Obj("expr_container:Expr", "expr")
        self.expr.attrs.update(_classes={"Expr", "Container"}, _sym_tensors=set(sym), _antisym_tensors=set(antisym), _real=real,
                               _target_idx=None, _expr=self.value(terms))
        self.hooks = {"Expr.terms": lambda sx, a, kw: model.terms(), "Add": lambda sx, a, kw: model.add(a),
                      "Expr.__len__": lambda sx, a, kw: len(model.content())}

    # -- values (the sympy side)
    def value(self, terms):
        terms = tuple(tuple(t) for t in terms)
        v = Obj(None, "sum[" + " + ".join("*".join(f"{n}{'+' if s == 1 else '-' if s == -1 else ''}" for n, s in t) for t in terms) + "]")

        def atoms(sx, a, kw):
            out = []
            for n in sorted({n for t in terms for n, _ in t}):
                sy = Obj(None, f"Symbol({n})")
                sy.attrs["name"] = n
                out.append(sy)
            return out
        v.attrs.update({"$sum": terms, "is_number": False, "atoms": atoms, "$binop": self.binop})
        return v

    def add(self, parts):
        terms = []
        for x in parts:
            if isinstance(x, Obj) and "$sum" in x.attrs:
                terms.extend(x.attrs["$sum"])
            elif x != 0 or isinstance(x, bool):
                raise AnalysisError(f"R19j: the model sum receives the summand {x!r}")
        return self.value(terms)

    def binop(self, sx, op, a, b, node):
        if isinstance(op, ast.Add):
            return self.add([a, b])
        return NotImplemented

    # -- the container side
    def content(self):
        v = self.expr.attrs.get("_expr")
        if not (isinstance(v, Obj) and "$sum" in v.attrs):
            raise AnalysisError(f"R19j: the content of the model expression became {v!r}")
        return v.attrs["$sum"]

    def terms(self):
        out = []
        for k, tensors in enumerate(self.content()):
            term = Obj("expr_container:Term", f"term{k}")

            def rename_tensor(sx, a, kw, tensors=tensors):
                a = [x for x in a if not isinstance(x, Obj)]
                b = dict(zip(("current", "new", "return_sympy"), a))
                b.update(kw)
                cur, new = b.get("current"), b.get("new")
                if not isinstance(cur, str) or not isinstance(new, str) or b.get("return_sympy") is not True:
                    raise AnalysisError(f"R19j: Term.rename_tensor called with {b}")
                # Obj.rename_tensor rebuilds the tensor with the bra_ket_sym attribute it had under the old name
                return self.value([tuple((new if n == cur else n, s) for n, s in tensors)])

            def apply_sym(sx, a, kw, tensors=tensors):
                # Term.sym_tensors / antisym_tensors read the assumptions of the owning container at the time of the call
                at = self.expr.attrs
                return self.value([_braket_expected(tensors, at["_sym_tensors"], at["_antisym_tensors"])])
            term.attrs.update(rename_tensor=rename_tensor, _apply_tensor_braket_sym=apply_sym)
            out.append(term)
        return tuple(out)


def _r19j_braket(ctx):
    rule = "R19j"
    fn = ctx.model.fn("expr_container:Expr.rename_tensor")
    inline_expr = lambda q: q.startswith("expr_container:Expr.")  # noqa: E731

    def consistent(terms, sym, antisym):
        return [tuple(_braket_expected(t, sym, antisym)) for t in terms]

    # (1) Expr.rename_tensor(current, new): shapes x declarations
    shapes = {
        "A - A^T": [[("A", 0)], [("A", 0)]],
        "A*Y + B*Y + C": [[("A", 0), ("Y", 0)], [("B", 0), ("Y", 0)], [("C", 0)]],
        "A*A + B": [[("A", 0), ("A", 0)], [("B", 0)]],
        "A(sym)*B": [[("A", 1), ("B", 0)]],
    }
    decls = {"new symmetric": (lambda new: ({new}, set())), "new antisymmetric": (lambda new: (set(), {new})),
             "new undeclared": (lambda new: ({"Z"}, {"X"})), "new and others declared": (lambda new: ({new, "Y"}, {"C"}))}
    n_eval = 0
    for sname, terms in shapes.items():
        for dname, decl in decls.items():
            for cur, new in (("A", "B"), ("A", "D"), ("B", "A"), ("Q", "B")):
                sym_, anti = decl(new)
                if sname == "A(sym)*B" and (("A" in anti) or (cur == "A" and new in anti)):
                    continue  # a symmetric tensor is not declared antisymmetric
                start = consistent(terms, sym_ - ({"A"} if sname == "A(sym)*B" else set()), anti)
                m = _SumModel(start, sym_, anti)
                sx = Symex(ctx.model, inline=inline_expr, hooks=m.hooks, what="Expr.rename_tensor", max_paths=64)
                outs = sx.run(fn, lambda: dict(self=m.expr, current=cur, new=new))
                key = f"bra-ket {sname} | {dname} | {cur}->{new}"
                if len(outs) != 1 or outs[0].kind != "return":
                    ctx.bad(rule, fn, f"rename_tensor({cur!r}, {new!r}) on {sname} does not return on one path: {outs}", key=key)
                    continue
                got = [tuple(t) for t in m.content()]
                renamed = [tuple((new if n == cur else n, s) for n, s in t) for t in start]
                want = consistent(renamed, sym_, anti)
                n_eval += 1
                ctx.check(rule, fn, sorted(got) == sorted(want) and outs[0].value is m.expr,
                          f"rename_tensor({cur}, {new}) on {sname}, {dname}: renamed tensors carry the declared symmetry",
                          f"Expr.rename_tensor({cur!r}, {new!r}) on the expression {sname} with sym_tensors={sorted(sym_)}, antisym_tensors="
                          f"{sorted(anti)}: the container holds {got} (name, bra_ket_sym), expected {want}: a tensor named {new!r} is left "
                          "without the bra-ket symmetry the container declares for that name (the renamed tensors keep the symmetry "
                          "attribute of the old name), so A - A^T does not cancel although new is listed as symmetric", key=key)
    ctx.floor(rule, "Expr.rename_tensor bra-ket scenarios evaluated", n_eval, 40)

    # (2) TensorNames.rename_tensors on non-default configurations: an expression written with the default names inside a
    # container whose assumptions name the *configured* tensors (real=True puts tensor_names.fock / .eri into sym_tensors,
    # use_symbolic_denominators puts tensor_names.sym_orb_denom into antisym_tensors)
    fn2 = ctx.model.fn("tensor_names:TensorNames.rename_tensors")
    defaults = _defaults(ctx)
    f, v, d = defaults["fock"], defaults["eri"], defaults["sym_orb_denom"]
    configs = {
        "eri and fock renamed": {"eri": "W", "fock": "F"},
        "eri renamed": {"eri": "W"},
        "eri and fock swapped": {"eri": f, "fock": v},
        "chain eri -> fock -> g": {"eri": f, "fock": "g"},
        "denominator renamed": {"sym_orb_denom": "Q", "eri": "W"},
        "defaults": {},
    }

    def fields_hook(sx, a, kw):
        out = []
        for nm, dflt in defaults.items():
            fo = Obj(None, f"field:{nm}")
            fo.attrs.update(name=nm, default=dflt)
            out.append(fo)
        return out
    for what, conf in configs.items():
        cfg = dict(defaults)
        cfg.update(conf)
        sym_, anti = {cfg["fock"], cfg["eri"]}, {cfg["sym_orb_denom"]}
        # V Y - V^T Y + f Y - f^T Y + D V
        written = [[(v, 0), ("Y", 0)], [(v, 0), ("Y", 0)], [(f, 0), ("Y", 0)], [(f, 0), ("Y", 0)], [(d, 0), (v, 0)]]
        start = consistent(written, sym_, anti)
        m = _SumModel(start, sym_, anti, real=True)
        hooks = dict(m.hooks)
        hooks.update({"fields": fields_hook, "defaults": lambda s_, a_, k_: dict(defaults), "TensorNames.defaults": lambda s_, a_, k_: dict(defaults)})
        sx = Symex(ctx.model, inline=lambda q: q.startswith("tensor_names:") or inline_expr(q), hooks=hooks, what="rename_tensors", max_paths=64)

        def args():
            me = Obj("tensor_names:TensorNames", "self")
            me.attrs.update(cfg)
            return dict(self=me, expr=m.expr)
        outs = sx.run(fn2, args)
        key = f"bra-ket rename_tensors {what}"
        if len(outs) != 1 or outs[0].kind != "return":
            ctx.bad(rule, fn2, f"rename_tensors ({what}) does not return on one path: {outs}", key=key)
            continue
        to_cfg = {dflt: cfg[nm] for nm, dflt in defaults.items()}
        want = consistent([tuple((to_cfg.get(n, n), s) for n, s in t) for t in start], sym_, anti)
        got = [tuple(t) for t in m.content()]
        ctx.check(rule, fn2, sorted(got) == sorted(want),
                  f"rename_tensors, {what}: the tensors that receive the configured names carry the symmetry declared for them",
                  f"configuration `{conf}`, real expression V Y - V^T Y + f Y - f^T Y + D V written with the default names, sym_tensors="
                  f"{sorted(sym_)}, antisym_tensors={sorted(anti)}: after rename_tensors the container holds {got} (name, bra_ket_sym), "
                  f"expected {want}: the tensors now called by the configured names lack the bra-ket symmetry the container declares, the "
                  "expression no longer simplifies to 0 - the configuration changes the result by more than the renaming", key=key)


# ====================================================================== R19k
# Orders that depend on the call history: ``Expr.terms`` follows sympy's argument order, which compares Dummy indices by
# their name strings ('i4' < 'o3'), while generic names wrap around (.. n3, o3, i4 ..) as the counters advance.  A choice
# that follows that order (representative of a class of equivalent terms) must not survive into the result: simplify is
# evaluated on a model expression for both orders of two equivalent terms and has to return the same result.

def r19k(ctx):
    rule = "R19k"
    fn = ctx.model.fn("simplify:simplify")

    def run(first):
        # two terms that are equal up to a renaming of contracted indices; ``text`` is the form with the lowest indices
        def term(label, text):
            t = Obj("expr_container:Term", label)
            t.attrs["substitute_contracted"] = lambda s_, a_, k_: text
            t.attrs["subs"] = lambda s_, a_, k_: a_[-1] if a_ and isinstance(a_[-1], (Obj, T)) else sym("?")
            return t
        A, B, C = term("A", "g(i,j)*p(i)*q(j)"), term("B", "g(j,i)*p(j)*q(i)"), term("C", "h(i)")
        terms = [A, B, C] if first == "A" else [B, A, C]
        ex = Obj("expr_container:Expr", "expr")
        ex.attrs.update(_classes={"Expr", "Container"}, terms=terms)
        ex.attrs["expand"] = lambda s_, a_, k_: ex

        def compatible(s_, a_, k_):
            ts = a_[0] if a_ else k_.get("terms")
            if not isinstance(ts, list):
                return NotImplemented
            # the first of the equivalent terms represents the class; the others are mapped onto it
            eq = [k for k, t in enumerate(ts) if t is A or t is B]
            rest = [k for k, t in enumerate(ts) if t is C]
            return {eq[0]: {eq[1]: ts[eq[0]]}, rest[0]: {}}
        sx = Symex(ctx.model, inline=lambda q: False, what="simplify", max_paths=64,
                   hooks={"find_compatible_terms": compatible, "len": lambda s_, a_, k_: len(terms) if a_ and a_[0] is ex else NotImplemented})
        outs = sx.run(fn, lambda: dict(expr=ex))
        return sorted((o.kind, repr(canon(o.value)) if o.kind == "return" else str(o.exc)) for o in outs)
    r1, r2 = run("A"), run("B")
    ctx.check(rule, fn, bool(r1) and all(k == "return" for k, _ in r1), "simplify evaluates on the model expression",
              f"simplify does not return on the model expression: {r1}", key="simplify evaluates")
    ctx.check(rule, fn, r1 == r2, "the representative of equivalent terms does not follow the order of Expr.terms",
              f"simplify returns {r1} when the term g(i,j)p(i)q(j) comes first in Expr.terms and {r2} when its renamed twin "
              "g(j,i)p(j)q(i) comes first; the order of Expr.terms follows the name strings of the generic indices (sympy), which "
              "wrap around with the generic counters: the text of the result depends on the requests that preceded it",
              key="representative follows Expr.terms")


# ====================================================================== R19l
# Cache age: a member cache hands out the stored expression with the generic indices it was built with.  (A) By evaluating
# Term.substitute_contracted on a model term with two groups of contracted indices it is decided whether the lowest names
# are handed out by the rank (= creation age) of the current generic names; (B) a derivation method is evaluated with the
# member caches cold and with one sub-result already cached (its indices are older than everything computed now) and the
# relative age of the index groups that meet in one product is compared.  If the names follow the age (A) and the ages
# depend on the cache state (B), the text of the result depends on which cached results preceded the request.

def _generic_name(k):
    base = "ijklmno"
    return base[k % len(base)] + str(3 + k // len(base))


def _naming_follows_age(ctx):
    """(names the group G receives when it is older than H, ... when it is younger); None if not evaluable"""
    fn = ctx.model.fn("expr_container:Term.substitute_contracted")
    key_fn = ctx.model.fn("indices:sort_idx_canonical")
    out = []
    for g_first in (True, False):
        names = [_generic_name(k) for k in range(3)]
        g_names, h_names = (names[:2], names[2:]) if g_first else (names[1:], names[:1])
        objs = {}

        def get_symbols(s_, a_, k_):
            ns = a_[0] if a_ else k_.get("indices")
            if isinstance(ns, str):
                ns = _split_names(ns)
            if not isinstance(ns, (list, tuple)) or not all(isinstance(n, str) for n in ns):
                return NotImplemented
            return [objs.setdefault(n, _idx(n)) for n in ns]
        kx = Symex(ctx.model, inline=lambda q: True, what="sort_idx_canonical")

        def ckey(o):
            r = kx.run(key_fn, lambda: dict(idx=o))
            if len(r) != 1 or r[0].kind != "return":
                raise AnalysisError(f"R19l: sort key of {o.name}: {r}")
            return tuple(x for x in r[0].value if not isinstance(x, T))

        def args():
            objs.clear()
            G = [objs.setdefault(n, _idx(n)) for n in g_names]
            H = [objs.setdefault(n, _idx(n)) for n in h_names]
            for o in G + H:
                o.attrs["dummy_index"] = sym("dummy:" + o.name)
            me = Obj("expr_container:Term", "term")
            sy = Obj(None, "term.sympy")
            sy.attrs["subs"] = lambda s_, a_, k_: sym("substituted")
            sy.attrs["atoms"] = lambda s_, a_, k_, all_=tuple(G + H): set(all_)
            me.attrs.update(contracted=tuple(sorted(G + H, key=ckey)), target=(), sympy=sy, assumptions={})
            me.__dict__["G"] = G
            return dict(self=me, return_sympy=False, only_build_sub=True)
        sx = Symex(ctx.model, inline=lambda q: q in ("indices:get_lowest_avail_indices", "indices:order_substitutions") or
                   q.startswith("expr_container:Term.") or q.startswith("expr_container:_"), what="substitute_contracted",
                   hooks={"get_symbols": get_symbols}, max_paths=64)
        holder = {}

        def args2():
            d = args()
            holder["G"] = d["self"].G
            return d
        try:
            outs = sx.run(fn, args2)
        except AnalysisError:
            return None     # not evaluable on the model term: the clause is not decided
        if len(outs) != 1 or outs[0].kind != "return" or not isinstance(outs[0].value, list):
            return None
        sub = {id(o): n for o, n in outs[0].value if isinstance(o, Obj) and isinstance(n, Obj)}
        out.append(tuple(sub[id(g)].attrs["name"] if id(g) in sub else g.attrs["name"] for g in holder["G"]))
    return tuple(out)


class _AgedLeaves:
    """member-cache model for the leaves of a derivation: a leaf computed now gets the current time stamp, a leaf found
    in the cache keeps the stamp of its first computation"""

    def __init__(self, prefilled=()):
        self.prefilled = tuple(prefilled)
        self.reset()

    def reset(self):
        self.clock = 100
        self.memo = {k: age for age, k in enumerate(self.prefilled)}

    def leaf(self, name, fn, cached):
        def hook(sx, a, kw):
            b = sx.bind(fn, a, kw, False, True, True)
            b.pop("self", None)
            key = (name, tuple((k, _freeze(v)) for k, v in b.items()))
            self.clock += 1
            if cached:
                age = self.memo.setdefault(key, self.clock)
            else:
                age = self.clock
            return T("leaf", name, key[1], age)
        return hook


def _leaf_orders(value):
    """for every fully distributed product of the value: leaves (name, arguments) in the order of their age"""
    v = strip(value, dx.TRANSPARENT_CALLS + ("wicks",), dx.TRANSPARENT_MCALLS, dx.TRANSPARENT_ATTRS)
    out = {}
    for t in subterms(v):
        if t.op == "mul":
            for c_, fs in expand_products(t):
                # only sub-results that carry generic contracted indices: wavefunctions of order >= 1, norm factors of order >= 2
                leaves = sorted({x for f in fs for x in subterms(f) if x.op == "leaf" and
                                 dict(x.args[1]).get("order", 0) >= (2 if x.args[0] == "norm_factor" else 1)}, key=lambda x: x.args[2])
                if len(leaves) >= 2:
                    ident = frozenset((x.args[0], x.args[1]) for x in leaves)
                    out.setdefault(ident, set()).add(tuple((x.args[0], x.args[1]) for x in leaves))
    return out


def r19l(ctx):
    rule = "R19l"
    fn = ctx.model.fn("misc:cached_member")
    naming = _naming_follows_age(ctx)
    follows = naming is not None and naming[0] != naming[1]
    # (B) intermediate_state(2) cold / with the first order bra precursor of the target indices already cached
    target = IS + ".intermediate_state"
    args = dict(order=2, space="ph", braket="bra", indices="k5c5")
    pre = ("precursor", (("order", 1), ("space", "ph"), ("braket", "bra"), ("indices", "k5c5")))
    results = []
    for prefilled in ((), (pre,)):
        aged = _AgedLeaves(prefilled)
        im = IndexModel()
        hk = im.hooks()
        for ref, nm in ((IS + ".precursor", "precursor"), (GS + ".norm_factor", "norm_factor")):
            f = ctx.model.fn(ref)
            hk[ref.split(":")[1]] = aged.leaf(nm, f, is_cached(f))
        hk["expand_S_taylor"] = lambda s_, a_, k_: _taylor(k_.get("order", [x for x in a_ if not isinstance(x, Obj)][0] if [x for x in a_ if not isinstance(x, Obj)] else None),
                                                          k_.get("min_order", 2), "s")
        scen = dx.Scenario()
        sx = dx.make_sx(ctx, "intermediate_state cold/warm", scen, extra_inline={IS + ".s_root", IS + ".overlap_precursor"}, hooks=hk,
                        max_paths=4096, occurrence=lambda name: False, oracle=dx.nothing_vanishes)
        base = scen.reset

        def reset(s, base=base, aged=aged, im=im):
            base(s)
            aged.reset()
            im.reset()
        sx.on_start = reset
        outs = sx.run(ctx.model.fn(target), lambda: dict(self=DerivEval(ctx).objects(scen)[IS], **args))
        rets = [o for o in outs if o.kind == "return"]
        if len(rets) != 1:
            raise AnalysisError(f"R19l: intermediate_state(2) has {len(rets)} full paths")
        results.append(_leaf_orders(rets[0].value))
    cold, warm = results
    flipped = sorted((sorted(cold[k])[0], sorted(warm[k])[0]) for k in cold if k in warm and cold[k] != warm[k])
    ctx.floor(rule, "products of intermediate_state(2) in which two sub-results with generic indices meet", len(cold), 1)
    show_leaf = lambda l: f"{l[0]}({', '.join(str(v) for _, v in l[1])})"      # noqa: E731
    ex = ""
    if flipped:
        c0, w0 = flipped[0]
        ex = (f"in the product of {' * '.join(show_leaf(l) for l in sorted(c0))} the index groups are created in the order "
              f"[{' < '.join(show_leaf(l) for l in c0)}] with cold caches and [{' < '.join(show_leaf(l) for l in w0)}] when "
              "isr.precursor(1, 'ph', 'bra', <target indices>) was requested before")
    ctx.check(rule, fn, not (follows and flipped), "the text of a derivation result does not depend on the state of the member caches",
              f"Term.substitute_contracted hands out the lowest names by the creation age of the generic indices (a group of two "
              f"indices is named {naming[0] if naming else ''} when it is older and {naming[1] if naming else ''} when it is younger than "
              f"another group) and cached_member returns stored expressions with the indices they were built with: {ex}; {len(flipped)} of "
              f"{len(cold)} products of intermediate_state(2, 'ph', 'bra') change the relative age of their index groups, so the text after "
              "substitute_contracted depends on which cached results preceded the request (the value does not)", key="cache age")


# ====================================================================== R19f
# Objects handed out by a cache are shared by all later callers: alias flow from every use of a cached method/property
# with a mutable result to in-place mutations (mutator methods, item/attribute stores, augmented assignment, passing to
# a repository function that mutates the corresponding parameter).

MUTABLE_CTORS = {"Expr", "LazyTermMap", "dict", "list", "set", "defaultdict", "OrderedDict", "Counter", "deque", "bytearray"}


class Aliases:
    def __init__(self, ctx):
        self.ctx = ctx
        self.cg = call_graph(ctx)
        self._scopes = {}
        self._mut = {}
        self._param_mut = {}

    def scope(self, fn):
        if id(fn) not in self._scopes:
            self._scopes[id(fn)] = _Scope(fn, self.cg.defs(fn))
        return self._scopes[id(fn)]

    def mutable_expr(self, e, sc, depth=4, seen=None):
        """the expression may evaluate to a mutable container built by this function"""
        seen = set() if seen is None else seen
        if e is None or depth < 0 or id(e) in seen:
            return False
        seen.add(id(e))
        if isinstance(e, (ast.Dict, ast.List, ast.Set, ast.DictComp, ast.ListComp, ast.SetComp)):
            return True
        if isinstance(e, ast.Call):
            if call_name(e) in MUTABLE_CTORS:
                return True
            if isinstance(e.func, ast.Attribute) and e.func.attr == "copy":
                return self.mutable_expr(e.func.value, sc, depth - 1, seen)
            return False
        if isinstance(e, ast.IfExp):
            return self.mutable_expr(e.body, sc, depth - 1, seen) or self.mutable_expr(e.orelse, sc, depth - 1, seen)
        if isinstance(e, ast.NamedExpr):
            return self.mutable_expr(e.value, sc, depth - 1, seen)
        if isinstance(e, ast.Name):
            return any(self.mutable_expr(v, sc, depth - 1, seen) for v in sc.values(e.id))
        return False

    def mutable_result(self, fn):
        if id(fn) not in self._mut:
            sc = self.scope(fn)
            self._mut[id(fn)] = any(self.mutable_expr(r.value, sc) for r in walk_fn(fn, nested=False)
                                    if isinstance(r, ast.Return) and r.value is not None)
        return self._mut[id(fn)]

    # -------------------------------------------------------------- mutation sites
    @staticmethod
    def _root(e):
        while isinstance(e, (ast.Subscript,)):
            e = e.value
        return e

    def mutations(self, fn):
        """(expression that is mutated in place, node, description) for every in-place mutation in ``fn``"""
        out = []
        for n in walk_fn(fn, nested=True):
            if isinstance(n, ast.Call) and isinstance(n.func, ast.Attribute) and n.func.attr in MUTATORS:
                out.append((n.func.value, n, f".{n.func.attr}()"))
            elif isinstance(n, (ast.Assign, ast.AugAssign, ast.AnnAssign, ast.Delete)):
                tg = n.targets if isinstance(n, (ast.Assign, ast.Delete)) else [n.target]
                for t in tg:
                    for x in ast.walk(t):
                        if isinstance(x, ast.Subscript) and isinstance(x.ctx, (ast.Store, ast.Del)):
                            out.append((x.value, n, "item store"))
                        elif isinstance(x, ast.Attribute) and isinstance(x.ctx, (ast.Store, ast.Del)) and \
                                not (isinstance(x.value, ast.Name) and x.value.id in ("self", "cls")):
                            out.append((x.value, n, f"store of .{x.attr}"))
                if isinstance(n, ast.AugAssign) and isinstance(n.target, ast.Name):
                    out.append((n.target, n, "augmented assignment"))
            elif isinstance(n, ast.Call):
                for f, pname, arg in self._bound(n):
                    if self.param_mutated(f, pname):
                        out.append((arg, n, f"passed to {f.name}(), which mutates `{pname}`"))
        return out

    def _bound(self, call):
        nm = call_name(call)
        cands = self.cg.functions_of_expr(call.func, call) if isinstance(call.func, ast.Name) else list(self.cg.by_short.get(nm, []))
        for f in cands:
            if isinstance(f, ast.Lambda):
                continue
            ps = [a.arg for a in f.args.posonlyargs + f.args.args]
            skip = 1 if ps and ps[0] in ("self", "cls") and isinstance(call.func, ast.Attribute) else 0
            for k, a in enumerate(call.args):
                if isinstance(a, ast.Starred):
                    break
                if k + skip < len(ps):
                    yield f, ps[k + skip], a
            for kw in call.keywords:
                if kw.arg is not None and kw.arg in ps + [a.arg for a in f.args.kwonlyargs]:
                    yield f, kw.arg, kw.value

    def param_mutated(self, fn, pname, depth=2):
        key = (id(fn), pname)
        if key in self._param_mut:
            return self._param_mut[key]
        self._param_mut[key] = False
        if depth <= 0:
            return False
        sc = self.scope(fn)
        res = False
        for target, node, how in self._direct_mutations(fn):
            r = self._root(target)
            if isinstance(r, ast.Name) and r.id == pname and not sc.values(pname) and how != "augmented assignment":
                res = True
                break
        self._param_mut[key] = res
        return res

    def _direct_mutations(self, fn):
        out = []
        for n in walk_fn(fn, nested=False):
            if isinstance(n, ast.Call) and isinstance(n.func, ast.Attribute) and n.func.attr in MUTATORS:
                out.append((n.func.value, n, f".{n.func.attr}()"))
            elif isinstance(n, (ast.Assign, ast.AugAssign, ast.Delete)):
                tg = n.targets if isinstance(n, (ast.Assign, ast.Delete)) else [n.target]
                for t in tg:
                    for x in ast.walk(t):
                        if isinstance(x, ast.Subscript) and isinstance(x.ctx, (ast.Store, ast.Del)):
                            out.append((x.value, n, "item store"))
        return out

    # -------------------------------------------------------------- aliases
    def is_alias(self, e, sc, cached_call, cached_prop, at_stmt, depth=4):
        """``e`` evaluated at ``at_stmt`` may be the very object handed out by a cache: name of the cached callable or None"""
        if depth < 0 or e is None:
            return None
        if isinstance(e, ast.Call) and isinstance(e.func, ast.Attribute) and e.func.attr in cached_call:
            return e.func.attr
        if isinstance(e, ast.Attribute) and e.attr in cached_prop and isinstance(e.ctx, ast.Load):
            return e.attr
        if isinstance(e, ast.NamedExpr):
            return self.is_alias(e.value, sc, cached_call, cached_prop, at_stmt, depth - 1)
        if isinstance(e, ast.IfExp):
            return self.is_alias(e.body, sc, cached_call, cached_prop, at_stmt, depth - 1) or \
                self.is_alias(e.orelse, sc, cached_call, cached_prop, at_stmt, depth - 1)
        if isinstance(e, ast.Name):
            if e.id in sc.params and not sc.values(e.id):
                return None
            live = reaching_assignments(sc.fn, e.id, at_stmt) if at_stmt is not None else []
            vals = []
            for a in live:
                for t in a.targets:
                    if isinstance(t, ast.Name) and t.id == e.id:
                        vals.append((a.value, a))
            # walrus / annotated bindings are not seen by reaching_assignments: fall back to all bindings
            if not live:
                vals = [(v, enclosing_stmt(v)) for v in sc.values(e.id)]
            for v, st in vals:
                r = self.is_alias(v, sc, cached_call, cached_prop, st, depth - 1)
                if r:
                    return r
        return None


def r19f(ctx):
    rule = "R19f"
    al = Aliases(ctx)
    cached_call, cached_prop = {}, {}
    for ref, fn in ctx.model.all_functions():
        decos = common.decorators(fn)
        if any(d in CACHE_DECOS for d in decos) and al.mutable_result(fn):
            (cached_prop if "cached_property" in decos else cached_call).setdefault(fn.name, []).append(ref)
    ctx.floor(rule, "cached methods with mutable results", len(cached_call) + len(cached_prop), 6)
    n_sites = 0
    for ref, fn in ctx.model.all_functions():
        if getattr(fn, "_fn", None) is not None:
            continue
        sc = al.scope(fn)
        uses = {}
        for n in walk_fn(fn, nested=True):
            src = None
            if isinstance(n, ast.Call) and isinstance(n.func, ast.Attribute) and n.func.attr in cached_call:
                src = n.func.attr
            elif isinstance(n, ast.Attribute) and n.attr in cached_prop and isinstance(n.ctx, ast.Load) and \
                    not (isinstance(getattr(n, "_parent", None), ast.Call) and n._parent.func is n):
                src = n.attr
            if src:
                uses.setdefault(src, []).append(n)
        if not uses:
            continue
        bad = {}
        for target, node, how in al.mutations(fn):
            root = al._root(target)
            st = enclosing_stmt(node)
            inner = enclosing(node, FuncNode)
            s2 = al.scope(inner) if inner is not None and inner is not fn else sc
            src = al.is_alias(root, s2, cached_call, cached_prop, st)
            if src:
                bad.setdefault(src, []).append((node, how))
        for src, nodes in sorted(uses.items()):
            n_sites += 1
            b = bad.get(src, [])
            ctx.check(rule, nodes[0], not b, f"{ref.split(':')[1]}: value of cached `{src}` only read",
                      f"the object handed out by the cache of `{src}` is mutated in place by `{short(b[0][0], 60) if b else ''}` "
                      f"({b[0][1] if b else ''}): every later caller sees the modified value", fn=ref, key=f"{ref} <- {src}")
    ctx.floor(rule, "uses of cached mutable values examined", n_sites, 5)


def run(ctx):
    if ctx.want("R19g"):
        r19g(ctx)
    if ctx.want("R19c"):
        r19c(ctx)
        r19h(ctx)
    if ctx.want("R19d"):
        r19d(ctx)
    if ctx.want("R19e"):
        r19e(ctx)
    if ctx.want("R19e") or ctx.want("R08c"):
        c08.r08c(ctx)
    if ctx.want("R19a"):
        r19a_keys(ctx)
        r19a_sets(ctx)
    if ctx.want("R19b") or ctx.want("R19f"):
        r19b(ctx, "quick")
    if ctx.want("R08d"):
        c08.r08d(ctx)
    if ctx.want("R19f"):
        r19f(ctx)
    if ctx.want("R19i"):
        r19i(ctx)
    if ctx.want("R19j"):
        r19j(ctx)
        _r19j_braket(ctx)
    if ctx.want("R19k"):
        r19k(ctx)
    if ctx.want("R19l"):
        r19l(ctx)


def run_thorough(ctx):
    if ctx.want("R19b") or ctx.want("R19f"):
        r19b(ctx, "thorough")
