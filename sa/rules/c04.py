"""C04 intermediate states are orthonormal (structural clauses)."""
from __future__ import annotations

import ast

from ..abseval import Interp, Rec
from ..model import AnalysisError, U, Defs, calls_in, call_name, walk_fn, kwarg, enclosing
from ..pathcond import conditions
from . import common, deriv
from .c02 import taylor_builder, taylor_consumer

EXPLANATION = (
    "D1/D2 on intermediate_states.py (order linearity of all gen_term_orders splits in precursor, "
    "overlap_precursor, intermediate_state, overlap_isr; bra | operator | ket order of every "
    "Wick product). D3: every sum over indices from generic_indices_from_space(S) is lifted with "
    "1/(n_o! n_v!) computed from n_ov_from_space(S) of the same S (precursor lower-space "
    "projector, intermediate_state). R04a: index chaining of the S*S*... products in s_root "
    "(consecutive pairs, len(taylor)-1 fresh interior strings, final assertion). R04b: "
    "_generate_lower_spaces / validate_space evaluated on all space strings with <= 3 p and <= 3 "
    "h against the class-lowering oracle. R04c: projector structure of precursor (subtracted, "
    "ground-state projection only for pp, state factor outside the Wick product). R02c: Taylor "
    "coefficients of (1+x)^-1/2.")
ASSUMPTIONS = [
    "that the Taylor series of S^(-1/2) orthonormalises is mathematics, not checked",
    "symmetry of the precursor overlap is not decided",
]

IS = "intermediate_states:IntermediateStates."


def d3(ctx):
    rule = "D3"
    deriv.d3_space_sites(ctx, rule, IS + "precursor", 1)
    deriv.d3_space_sites(ctx, rule, IS + "intermediate_state", 1)
    # the lifted sum must be part of the product: prefactor multiplies the projected state
    fn = ctx.model.fn(IS + "precursor")
    augs = [n for n in walk_fn(fn) if isinstance(n, ast.AugAssign) and U(n.target) == "projection"]
    lower_loop = [n for n in walk_fn(fn) if isinstance(n, ast.For) and U(n.iter) == "lower_spaces"]
    ctx.floor(rule, "lower-space loop in precursor", len(lower_loop), 1)
    inside = [a for a in augs if enclosing(a, ast.For) is not None and any(p is lower_loop[0] for p in deriv.parents(a))]
    for a in inside:
        fs = [U(f) for f in deriv.flatten_mult(a.value.func.value if isinstance(a.value, ast.Call) else a.value)]
        ctx.check(rule, a, sorted(fs) == ["i1", "prefactor", "state"], "lower-space projection: prefactor * state * <X|Y>",
                  f"lower-space projection adds `{U(a.value)}`", key="precursor lower product")
    ctx.floor(rule, "lower-space projection terms", len(inside), 1)
    fn = ctx.model.fn(IS + "intermediate_state")
    prods = [n for n in walk_fn(fn) if isinstance(n, ast.Assign) and U(n.targets[0]) == "i1"]
    for p in prods:
        fs = deriv.flatten_mult(p.value)
        names = sorted(call_name(f) if isinstance(f, ast.Call) else U(f) for f in fs)
        ctx.check(rule, p, names == ["precursor", "prefactor", "s_root"], "intermediate state: prefactor * S^-1/2 * precursor",
                  f"intermediate state product is {names}", key="is product")
        for f in fs:
            if isinstance(f, ast.Call) and call_name(f) == "precursor":
                ok = U(kwarg(f, "space", 1)) == "space" and U(kwarg(f, "braket", 2)) == "braket" \
                    and U(kwarg(f, "indices", 3)) == "idx_pre"
                ctx.check(rule, f, ok, "precursor of the same space/side on the summed indices",
                          f"precursor factor `{U(f)[:80]}` does not use (space, braket, idx_pre)", key="is precursor args")
            if isinstance(f, ast.Call) and call_name(f) == "s_root":
                ok = U(kwarg(f, "block", 1)) == "(space, space)" and U(kwarg(f, "indices", 2)) == "s_indices[braket]"
                ctx.check(rule, f, ok, "S^-1/2 of the diagonal block with side-dependent index order",
                          f"s_root factor `{U(f)[:80]}`", key="is sroot args")
    sd = [n for n in walk_fn(fn) if isinstance(n, ast.Dict)]
    ok = any({U(k): U(v) for k, v in zip(d.keys, d.values)} ==
             {"'bra'": "','.join([indices, idx_pre])", "'ket'": "','.join([idx_pre, indices])"} for d in sd)
    ctx.check(rule, fn, ok, "bra: S_{I,K}; ket: S_{K,I}", "index order of S^-1/2 for bra/ket changed", key="is s_indices")
    adds = [n for n in walk_fn(fn) if isinstance(n, ast.AugAssign) and U(n.target) == "res"]
    ctx.check(rule, fn, len(adds) == 1 and U(adds[0].value) == "evaluate_deltas(i1.expand())", "each order split added once",
              "intermediate_state accumulation changed", key="is add")


def r04a(ctx):
    rule = "R04a"
    fnref = IS + "s_root"
    fn, lo, mid, out = taylor_consumer(ctx, rule, fnref, "overlap_precursor")
    c = [c for c in calls_in(fn) if call_name(c) == "expand_S_taylor"]
    ok = len(c) == 1 and U(kwarg(c[0], "order", 0)) == "order" and U(kwarg(c[0], "min_order", 1)) == "2"
    ctx.check(rule, fn, ok, "expansion in S(i>=2)", "s_root calls expand_S_taylor with other arguments", key="sroot taylor call")
    idx0 = [a for a in common.assigns_to(fn, "idx")]
    ctx.check(rule, fn, len(idx0) == 1 and U(idx0[0].value) == "list(indices)", "index list starts as [I, J]",
              "index list of s_root does not start with the two given strings", key="sroot idx init")
    gen_loops = [n for n in walk_fn(fn) if isinstance(n, ast.For) and any(call_name(c) == "generic_indices_from_space"
                                                                          for c in calls_in(n))]
    ctx.floor(rule, "interior index generation in s_root", len(gen_loops), 1)
    g = gen_loops[0]
    ctx.check(rule, g, U(g.iter).replace(" ", "") == "range(len(taylor_expansion)-1)",
              "len(taylor)-1 interior index strings", f"interior strings generated for `{U(g.iter)}`", key="sroot interior count")
    gc = [c for c in calls_in(g) if call_name(c) == "generic_indices_from_space"][0]
    ctx.check(rule, gc, U(gc.args[0]) == "block[0]", "interior strings of the block's space",
              f"interior strings generated for space `{U(gc.args[0])}`", key="sroot interior space")
    ins = [c for c in calls_in(g) if call_name(c) == "insert"]
    ctx.check(rule, g, len(ins) == 1 and U(ins[0].func.value) == "idx" and U(ins[0].args[0]) == "-1",
              "interior strings inserted before the last string", "interior strings are not inserted before the last one",
              key="sroot insert")
    rel = [a for a in common.assigns_to(fn, "relevant_idx")]
    ok = len(rel) == 1 and U(rel[0].value).replace(" ", "") == f"idx[:len({U(mid.target)})]+[idx[-1]]"
    ctx.check(rule, mid, ok, "k factors use the first k strings and the last", f"relevant index list is `{U(rel[0].value) if rel else None}`",
              key="sroot relevant")
    mul = [n for n in lo.body if isinstance(n, ast.AugAssign)]
    if mul:
        call = mul[0].value
        ok = U(kwarg(call, "indices", 2)).replace(" ", "") == "tuple(relevant_idx[:2])" and U(kwarg(call, "block", 1)) == "block"
        ctx.check(rule, call, ok, "factor uses the current consecutive pair", f"factor indices are `{U(kwarg(call, 'indices', 2))}`",
                  key="sroot pair")
        dels = [s for s in lo.body if isinstance(s, ast.Delete) and U(s.targets[0]) == "relevant_idx[0]"]
        k_mul = lo.body.index(mul[0])
        ok = len(dels) == 1 and lo.body.index(dels[0]) > k_mul
        ctx.check(rule, lo, ok, "pair advanced after each factor", "the index pair is not advanced after each factor", key="sroot advance")
        brk = [s for s in lo.body if isinstance(s, ast.If) and isinstance(s.body[-1], ast.Break)]
        for b in brk:
            ctx.check(rule, b, lo.body.index(b) > lo.body.index(dels[0]) if dels else False,
                      "early exit only after advancing", "loop may exit before the pair is advanced", key="sroot break order")
    asserts = [s for s in mid.body if isinstance(s, ast.Assert)]
    ok = any(U(a.test).replace(" ", "") == "len(relevant_idx)==1andrelevant_idx[0]==indices[1]" for a in asserts)
    ctx.check(rule, mid, ok, "chain ends at the second given string", "final chain assertion removed or changed", key="sroot assert")
    od = [n for n in walk_fn(fn) if isinstance(n, ast.Raise) and ("block[0] == block[1]", False) in conditions(n)]
    ctx.check(rule, fn, bool(od), "off-diagonal blocks refused", "off-diagonal blocks are no longer refused", key="sroot offdiag")
    adds = [s for s in mid.body if isinstance(s, ast.AugAssign) and U(s.target) == "res"]
    ctx.check(rule, mid, len(adds) == 1 and U(adds[0].value) == "evaluate_deltas(i1.expand())", "deltas of products evaluated",
              "product accumulation changed", key="sroot add")


def r04b(ctx):
    rule = "R04b"
    gl = ctx.model.fn(IS + "_generate_lower_spaces")
    vs = ctx.model.fn(IS + "validate_space")
    variants = {"pp": ["ph", "hp"], "ea": ["p"], "ip": ["h"], "dip": ["hh"], "dea": ["pp"]}
    # the variants table in __init__
    init = ctx.model.fn(IS + "__init__")
    tab = None
    for n in walk_fn(init):
        if isinstance(n, ast.Assign) and U(n.targets[0]) == "variants" and isinstance(n.value, ast.Dict):
            tab = ast.literal_eval(n.value)
    ctx.check(rule, init, tab == variants, "minimal spaces per variant", f"variant table is {tab}", key="variants")

    def oracle(s):
        out = []
        while "p" in s and "h" in s:
            s = s.replace("p", "", 1).replace("h", "", 1)
            if s:
                out.append(s)
        return out
    spaces = ["p" * a + "h" * b for a in range(4) for b in range(4) if a + b]
    spaces += ["hp", "hhp", "php"]
    for s in spaces:
        me = Rec("self")
        kind, val = Interp({}, what="_generate_lower_spaces").call(gl, {"self": me, "space_str": s})
        ctx.check(rule, gl, kind == "return" and val == oracle(s), f"lower spaces of {s}: {oracle(s)}",
                  f"_generate_lower_spaces('{s}') gives {val}, expected {oracle(s)}", key=f"lower {s}")
        for var, mins in (tab or variants).items():
            def gen(i, node, a, kw):
                k, v = Interp({}, what="_generate_lower_spaces").call(gl, {"self": me, "space_str": a[0]})
                return v
            me2 = Rec("self", min_space=mins, _generate_lower_spaces=gen)
            kind, val = Interp({}, what="validate_space").call(vs, {"self": me2, "space_str": s})
            want = s in mins or any(x in mins for x in oracle(s))
            ctx.check(rule, vs, kind == "return" and bool(val) == want, f"{var}: {s} valid == {want}",
                      f"validate_space('{s}') for {var}-ADC gives {val}, expected {want}", key=f"valid {var} {s}")


def r04c(ctx):
    """projector structure of precursor"""
    rule = "R04c"
    fn = ctx.model.fn(IS + "precursor")
    subs = [n for n in walk_fn(fn) if isinstance(n, ast.AugAssign) and U(n.target) == "res"]
    ctx.floor(rule, "projection subtractions in precursor", len(subs), 2)
    for s in subs:
        ctx.check(rule, s, isinstance(s.op, ast.Sub) and U(s.value) == "(norm * projection).expand()",
                  "projection subtracted with its norm factor", f"precursor accumulates `{U(s)}`", key="projection subtract")
    pp = [s for s in subs if ("self.variant == 'pp'", True) in conditions(s)]
    ctx.check(rule, fn, len(pp) == 1, "ground-state projection only for pp-ADC",
              "ground-state projection is not restricted to the pp variant", key="gs projection pp")
    lead = [a for a in common.assigns_to(fn, "res") if isinstance(a, ast.Assign)]
    ok = len(lead) == 1 and U(lead[0].value) == "(NO(operators) * max_gs).expand()"
    ctx.check(rule, fn, ok, "leading term NO(C_I)|psi(n)>", f"leading term is `{U(lead[0].value) if lead else None}`", key="leading term")
    mg = [a for a in common.assigns_to(fn, "max_gs")]
    ok = len(mg) == 1 and U(kwarg(mg[0].value, "order", 0)) == "order" and U(kwarg(mg[0].value, "braket", 1)) == "braket"
    ctx.check(rule, fn, ok, "leading wavefunction of the requested order and side", "leading wavefunction changed", key="leading wfn")
    ops = [c for c in calls_in(fn) if call_name(c) == "excitation_operator"]
    ok = len(ops) == 1 and U(kwarg(ops[0], "creation", 0)) == "virtual" and U(kwarg(ops[0], "annihilation", 1)) == "occupied" \
        and U(kwarg(ops[0], "reverse_annihilation", 2)) == "False"
    ctx.check(rule, fn, ok, "excitation operator a+ b+ ... i j (not reversed)", "precursor excitation operator changed", key="exc operator")
    dag = [c for c in calls_in(fn) if call_name(c) == "Dagger"]
    ctx.check(rule, fn, len(dag) == 1 and ("braket == 'bra'", True) in conditions(dag[0]), "bra: adjoint operators",
              "adjoint for bra changed", key="dagger")
    # state factor multiplies the evaluated matrix element: side-consistent
    for a in [n for n in walk_fn(fn) if isinstance(n, ast.Assign) and U(n.targets[0]) == "state"]:
        cs = conditions(a)
        side = "ket" if ("braket == 'ket'", True) in cs else "bra" if ("braket == 'bra'", True) in cs else None
        v = a.value
        bk = None
        if isinstance(v, ast.Call):
            b = kwarg(v, "braket", 1 if call_name(v) == "get_gs_wfn" else 2)
            bk = b.value if isinstance(b, ast.Constant) else None
        ctx.check(rule, a, side is not None and bk == side, f"projected state is a {side} state",
                  f"for a {side} precursor the projected state `{U(v)[:60]}` is a {bk} state", key=f"state side {side}")
        if isinstance(v, ast.Call) and call_name(v) == "intermediate_state":
            ok = U(kwarg(v, "space", 1)) == "lower_space" and U(kwarg(v, "indices", 3)) == "idx_isr"
            ctx.check(rule, a, ok, "projection on the lower intermediate states with the summed indices",
                      f"projected state `{U(v)[:70]}`", key=f"state args {side}")
    for c in calls_in(fn):
        if call_name(c) == "intermediate_state":
            ok = U(kwarg(c, "space", 1)) == "lower_space" and U(kwarg(c, "indices", 3)) == "idx_isr"
            ctx.check(rule, c, ok, "lower state on the summed indices", f"`{U(c)[:70]}`", key="lower state args")
    # pp wrapper: memoised only above order//2
    ov = ctx.model.fn(IS + "overlap_precursor")
    for c in calls_in(ov):
        if call_name(c) == "precursor":
            bk = kwarg(c, "braket", 2).value
            k = 0 if bk == "bra" else 1
            ok = U(kwarg(c, "space", 1)) == f"block[{k}]" and U(kwarg(c, "indices", 3)) == f"indices[{k}]"
            ctx.check(rule, c, ok, f"{bk} precursor from block[{k}]/indices[{k}]", f"`{U(c)[:80]}`", key=f"overlap precursor {bk}")
    oi = ctx.model.fn(IS + "overlap_isr")
    for c in calls_in(oi):
        if call_name(c) == "intermediate_state":
            bk = kwarg(c, "braket", 2).value
            k = 0 if bk == "bra" else 1
            ok = U(kwarg(c, "space", 1)) == f"block[{k}]" and U(kwarg(c, "indices", 3)) == f"indices[{k}]"
            ctx.check(rule, c, ok, f"{bk} state from block[{k}]/indices[{k}]", f"`{U(c)[:80]}`", key=f"overlap isr {bk}")
    for f in (ov, oi):
        adds = [n for n in walk_fn(f) if isinstance(n, ast.AugAssign) and U(n.target) == "res"]
        ctx.check(rule, f, len(adds) == 1 and isinstance(adds[0].op, ast.Add) and U(adds[0].value) == "(norm * overlap).expand()",
                  f"{f.name}: norm * overlap added", f"{f.name}: accumulation changed", key=f"{f.name} add")
        inner = [n for n in walk_fn(f) if isinstance(n, ast.AugAssign) and U(n.target) == "overlap"]
        ctx.check(rule, f, len(inner) == 1 and isinstance(inner[0].op, ast.Add) and U(inner[0].value) == "i1",
                  f"{f.name}: each order split added once", f"{f.name}: inner accumulation changed", key=f"{f.name} inner add")


def run(ctx):
    if ctx.want("D1"):
        deriv.d1(ctx, "D1", "intermediate_states", 9)
    if ctx.want("D2"):
        deriv.d2(ctx, "D2", "intermediate_states", 6)
    if ctx.want("D3"):
        d3(ctx)
    if ctx.want("R04a"):
        r04a(ctx)
    if ctx.want("R04b"):
        r04b(ctx)
    if ctx.want("R04c"):
        r04c(ctx)
    if ctx.want("R02c"):
        taylor_builder(ctx, "R02c", IS + "expand_S_taylor", "-0.5")
        from . import c02 as _c02
        _c02.r02c(ctx)
    # ground-state layer (wavefunctions, norm factors) every expression is built from
    from . import c02
    if ctx.want("D1"):
        deriv.d1(ctx, "D1", "groundstate", 6)
    if ctx.want("D2"):
        deriv.d2(ctx, "D2", "groundstate", 6)
    if ctx.want("D3"):
        c02.d3_psi(ctx)
        c02.d3_operator(ctx)
    if ctx.want("R02a"):
        c02.r02a(ctx)
