"""Check context: obligations, violations, known findings, evidence."""
from __future__ import annotations

import ast
import hashlib
import json
import os
import time

from .model import Model, AnalysisError, U, short, rel, fn_of

VERIF = os.path.dirname(os.path.dirname(os.path.abspath(__file__)))


class Violation:
    def __init__(self, prop, rule, where, fn, construct, reason, key=None):
        self.prop, self.rule, self.where, self.fn = prop, rule, where, fn
        self.construct, self.reason = construct, reason
        # findings are keyed by rule + function + normalised construct
        self.key = key or construct

    def ident(self) -> dict:
        return {"property": self.prop, "rule": self.rule, "function": self.fn,
                "construct": self.key}

    def line(self) -> str:
        return (f"{self.where} {self.fn} rule={self.rule} "
                f"construct=`{self.construct}` :: {self.reason}")


class Ctx:
    """Collects what a run analysed. One instance per property run."""

    def __init__(self, prop: str, tier: str, model: Model, only_rule=None):
        self.prop, self.tier, self.model = prop, tier, model
        self.only_rule = only_rule
        self.violations: list[Violation] = []
        self.obligations = 0
        self.discharged = 0
        self.per_rule: dict[str, dict] = {}
        self.samples: list[dict] = []
        self.sites: set[tuple] = set()
        self.notes: list[str] = []
        self.witness: dict = {}
        self.floors: list[dict] = []

    # ----------------------------------------------------------------- rules
    def want(self, rule: str) -> bool:
        return self.only_rule is None or rule == self.only_rule \
            or rule.startswith(self.only_rule)

    def _r(self, rule):
        return self.per_rule.setdefault(
            rule, {"obligations": 0, "discharged": 0, "sites": 0})

    def ok(self, rule: str, node, fact: str, fn: str | None = None,
           key: str | None = None):
        """One obligation examined and satisfied at ``node``."""
        self.obligations += 1
        self.discharged += 1
        if os.environ.get("VERIF_VERBOSE"):
            print(f"  ok {rule} {rel(node) if node is not None else '-'} :: {fact}")
        r = self._r(rule)
        r["obligations"] += 1
        r["discharged"] += 1
        site = (rule, fn or (fn_of(node) if node is not None else "?"),
                key or (short(node, 120) if node is not None else fact))
        if site not in self.sites:
            self.sites.add(site)
            r["sites"] += 1
        if sum(1 for s in self.samples if s["rule"] == rule) < 3:
            self.samples.append({
                "rule": rule,
                "where": rel(node) if node is not None else "-",
                "function": site[1],
                "construct": short(node, 120) if node is not None else "-",
                "established": fact})

    def bad(self, rule: str, node, reason: str, fn: str | None = None,
            key: str | None = None):
        """One obligation examined and violated at ``node``."""
        self.obligations += 1
        r = self._r(rule)
        r["obligations"] += 1
        f = fn or (fn_of(node) if node is not None else "?")
        self.violations.append(Violation(
            self.prop, rule, rel(node) if node is not None else "-", f,
            short(node, 200) if node is not None else (key or "-"), reason,
            key=key or (short(node, 200) if node is not None else None)))

    def check(self, rule, node, cond: bool, fact: str, reason: str, fn=None,
              key=None):
        if cond:
            self.ok(rule, node, fact, fn, key)
        else:
            self.bad(rule, node, reason, fn, key)
        return cond

    def floor(self, rule: str, what: str, found: int, minimum: int):
        """Fewer instances than confirmed by hand => the analysis is broken."""
        self.floors.append({"rule": rule, "what": what, "found": found,
                            "floor": minimum})
        if found < minimum:
            raise AnalysisError(
                f"rule {rule}: found {found} {what}, expected at least "
                f"{minimum} (anchor moved or shape not recognised)")

    def note(self, text: str):
        self.notes.append(text)


# ---------------------------------------------------------------------------
# known findings


def load_known() -> list[dict]:
    p = os.path.join(VERIF, "known_findings.json")
    if not os.path.exists(p):
        return []
    with open(p) as f:
        return json.load(f).get("findings", [])


def match_known(v: Violation, known: list[dict]):
    for k in known:
        if k.get("status") != "known":
            continue  # fixed entries suppress nothing
        if v.prop not in k.get("properties", [k.get("property")]):
            continue
        if k.get("rule") != v.rule:
            continue
        if k.get("function") and k["function"] != v.fn:
            continue
        if k.get("construct") and k["construct"] not in v.key:
            continue
        return k
    return None


# ---------------------------------------------------------------------------
# evidence


def write_evidence(ctx: Ctx, wall: float, explanation: str, assumptions,
                   n_known: int, status: str, extra=None):
    os.makedirs(os.path.join(VERIF, "evidence"), exist_ok=True)
    m = ctx.model
    cov = {
        "explanation": explanation,
        "evaluations": ctx.obligations,
        "distinct_nontrivial": len(ctx.sites),
        "rule": ("one evaluation = one obligation: the abstractly evaluated behaviour of one function of the "
                 "current tree in one scenario (abstract input / path / table row) compared with the expected "
                 "behaviour stated by the rule; distinct_nontrivial = distinct (rule, function, scenario key) "
                 "triples that carried at least one obligation (a function that is merely parsed does not count). "
                 "The scenario sets are finite and listed in the rule modules; they are enumerated completely, but "
                 "they bound the property's input space (see assumptions), hence exhaustive = false"),
        "obligations": ctx.obligations,
        "discharged": ctx.discharged,
        "samples": ctx.samples[:40] or [{"note": "no site examined"}],
        "exhaustive": False,
        "per_rule": ctx.per_rule,
        "instance_floors": ctx.floors,
        "units_analysed": {
            "modules_parsed": len(m.modules),
            "functions_indexed": m.n_functions(),
            "modules_consulted": sorted(m.used_modules),
            "source_digest": m.digest,
        },
        "known_findings_reported": n_known,
        "status": status,
        "notes": ctx.notes,
        "witnesses": ctx.witness,
    }
    if extra:
        cov.update(extra)
    ev = {
        "property_id": ctx.prop,
        "tier": ctx.tier,
        "seed": int(os.environ.get("VERIF_SEED", "0") or 0),
        "level": "other",
        "coverage": cov,
        "assumptions": list(assumptions),
        "wall_s": round(wall, 3),
        "violations": len(ctx.violations),
    }
    path = os.path.join(VERIF, "evidence", f"{ctx.prop}.json")
    tmp = path + ".tmp"
    with open(tmp, "w") as f:
        json.dump(ev, f, indent=1, sort_keys=False)
        f.write("\n")
    os.replace(tmp, path)
    return path


def write_replay(v: Violation) -> str:
    d = os.path.join(VERIF, "evidence", "replay")
    os.makedirs(d, exist_ok=True)
    h = hashlib.sha256(json.dumps(v.ident(), sort_keys=True).encode()
                       ).hexdigest()[:10]
    p = os.path.join(d, f"{v.prop}-{v.rule}-{h}.json")
    with open(p, "w") as f:
        json.dump({**v.ident(), "where": v.where, "reason": v.reason,
                   "shown": v.construct,
                   "reproduce": f"./check {v.prop} --rule {v.rule}"},
                  f, indent=1)
        f.write("\n")
    return p
