"""
C19 (tensor-name config): TensorNames.rename_tensors / Expr.rename_tensor lose
the bra-ket symmetry the container knows for the new tensor name.
Run from the worktree root: /venv/bin/python hunt_out/1/demo.py
"""
import json
import os
import shutil
import subprocess
import sys
import tempfile

ROOT = os.getcwd()

CHILD = r'''
import sys
sys.path.insert(0, sys.argv[1])
import adcgen
assert adcgen.__file__.startswith(sys.argv[1]), adcgen.__file__
from adcgen import Expr, AntiSymmetricTensor, Amplitude, get_symbols, simplify
from adcgen import tensor_names as tn
i, j, a, b = get_symbols("ijab")
# an expression written with the DEFAULT tensor names (V: ERI, f: Fock, Y: ADC
# amplitude) that vanishes in a real orbital basis, where V and f are
# bra-ket symmetric
e = (AntiSymmetricTensor("V", (a, b), (i, j)) * Amplitude("Y", (a, b), (i, j))
     - AntiSymmetricTensor("V", (i, j), (a, b)) * Amplitude("Y", (a, b), (i, j))
     + AntiSymmetricTensor("f", (a,), (i,)) * Amplitude("Y", (a,), (i,))
     - AntiSymmetricTensor("f", (i,), (a,)) * Amplitude("Y", (a,), (i,)))
e = Expr(e, real=True)
# documented use: map the default names onto the configured names
e = tn.rename_tensors(e)
e = simplify(e)
print("RESULT", tn.eri, tn.fock, "sym_tensors", e.sym_tensors, "->", e)
print("NTERMS", 0 if e.sympy == 0 else len(e))
'''


def run(pkg_root):
    out = subprocess.run([sys.executable, "-c", CHILD, pkg_root],
                         capture_output=True, text=True)
    if out.returncode:
        print(out.stderr)
        raise SystemExit(2)
    lines = out.stdout.splitlines()
    print("   ", [li for li in lines if li.startswith("RESULT")][0])
    return int([li for li in lines if li.startswith("NTERMS")][0].split()[1])


failed = False

# 1) default configuration (rename_tensors is a no-op)
print("default tensor names:")
n_default = run(ROOT)

# 2) same request with a different tensor-name configuration
tmp = tempfile.mkdtemp(prefix="adcgen_cfg_")
try:
    shutil.copytree(os.path.join(ROOT, "adcgen"), os.path.join(tmp, "adcgen"))
    cfg_file = os.path.join(tmp, "adcgen", "tensor_names.json")
    cfg = json.load(open(cfg_file))
    cfg.update({"eri": "W", "fock": "F"})
    json.dump(cfg, open(cfg_file, "w"))
    print("configured names eri=W, fock=F:")
    n_config = run(tmp)
finally:
    shutil.rmtree(tmp)
if n_default != n_config:
    print(f"DIFFERENT: {n_default} terms with the default names, {n_config} "
          "terms with the configured names (expected: only the names change)")
    failed = True

# 3) the same defect without touching the configuration
sys.path.insert(0, ROOT)
from adcgen import Expr, AntiSymmetricTensor, get_symbols  # noqa E402
i, j, a, b = get_symbols("ijab")
direct = Expr(AntiSymmetricTensor("B", (a, b), (i, j))
              - AntiSymmetricTensor("B", (i, j), (a, b)), sym_tensors=["B"])
renamed = Expr(AntiSymmetricTensor("A", (a, b), (i, j))
               - AntiSymmetricTensor("A", (i, j), (a, b)), sym_tensors=["B"])
renamed.rename_tensor("A", "B")
print(f"Expr(B - B^T, sym_tensors=[B])                    = {direct}")
print(f"Expr(A - A^T, sym_tensors=[B]).rename_tensor(A, B) = {renamed}")
if direct.sympy != renamed.sympy:
    print("DIFFERENT: the renamed tensors ignore the bra-ket symmetry of B")
    failed = True

sys.exit(1 if failed else 0)
