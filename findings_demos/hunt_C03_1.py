"""
Defect: index names that carry a number >= 3 (e.g. the natural naming
i1 i2 i3 / a1 a2 a3 of a triply excited configuration) silently collide with
the automatically generated 'generic' (contracted) indices i3, j3, ..., a3, ...
-> SecularMatrix.isr_matrix_block returns a wrong matrix element.

The zeroth order secular matrix is compared to a brute force evaluation of
    M^(0)_{I,J} = <Phi_I| H_0 - E_0^(0) |Phi_J>,   |Phi_I> = C_I |Phi_0>
in determinant space (3 occupied and 2 virtual spin orbitals, random integer
Fock matrix).

Run from the root of the worktree:  python hunt_out/1/demo.py
exit code 1: defect present, 0: fixed
"""
import sys
import itertools
import random

sys.path.insert(0, ".")

from sympy import Add, Mul, Pow  # noqa E402
from adcgen import (  # noqa E402
    Operators, GroundState, IntermediateStates, SecularMatrix
)
from adcgen.indices import get_symbols, Index  # noqa E402
from adcgen.sympy_objects import KroneckerDelta, AntiSymmetricTensor  # noqa
from adcgen.misc import Inputerror  # noqa E402

NOCC, NVIRT = 3, 2
OCC = list(range(NOCC))
VIRT = list(range(NOCC, NOCC + NVIRT))
N = NOCC + NVIRT
rnd = random.Random(42)
FOCK = [[0] * N for _ in range(N)]
for p in range(N):
    for q in range(p, N):
        if (p < NOCC) == (q < NOCC):  # block diagonal, symmetric
            FOCK[p][q] = FOCK[q][p] = rnd.randint(-9, 9)


# ------------------------- determinant algebra ----------------------------
def apply_ops(ops, det):
    """ops = [('c'|'a', p), ...]; the rightmost operator acts first."""
    sign = 1
    for kind, p in reversed(ops):
        bit = 1 << p
        if bool(det & bit) == (kind == 'c'):
            return 0, None
        if bin(det & (bit - 1)).count("1") % 2:
            sign = -sign
        det ^= bit
    return sign, det


REF = (1 << NOCC) - 1


def excited_det(occ, virt):
    # C_I = a^+_{a1} a^+_{a2} ... a_{i1} a_{i2} ...   (adcgen convention)
    ops = [('c', a) for a in virt] + [('a', i) for i in occ]
    sign, det = apply_ops(ops, REF)
    return ({det: sign} if sign else {})


def h0_minus_e0(state):
    e0 = sum(FOCK[i][i] for i in OCC)
    res = {}
    for det, c in state.items():
        res[det] = res.get(det, 0) - e0 * c
        for p in range(N):
            for q in range(N):
                if not FOCK[p][q]:
                    continue
                sign, new = apply_ops([('c', p), ('a', q)], det)
                if sign:
                    res[new] = res.get(new, 0) + sign * FOCK[p][q] * c
    return res


def reference_element(occ_i, virt_i, occ_j, virt_j):
    bra = excited_det(occ_i, virt_i)
    ket = h0_minus_e0(excited_det(occ_j, virt_j))
    return sum(c * ket.get(d, 0) for d, c in bra.items())


# ------------------- evaluation of the adcgen expression ------------------
def space_range(s):
    return OCC if s.space == "occ" else VIRT if s.space == "virt" \
        else list(range(N))


def parse_term(term, target):
    pref, objs = 1, []
    for fct in Mul.make_args(term):
        if fct.is_number:
            pref *= fct
        elif isinstance(fct, Pow):
            objs.extend([fct.args[0]] * int(fct.args[1]))
        else:
            objs.append(fct)
    contracted = sorted(
        {s for o in objs for s in o.atoms(Index) if s not in target}, key=str
    )
    parsed = []
    for o in objs:
        if isinstance(o, KroneckerDelta):
            parsed.append(("delta", o.args[0], o.args[1]))
        elif isinstance(o, AntiSymmetricTensor) and o.name == "f":
            parsed.append(("f", o.upper[0], o.lower[0]))
        else:
            raise NotImplementedError(o)
    return pref, parsed, contracted


def eval_term(parsed_term, assignment):
    pref, objs, contracted = parsed_term
    total = 0
    for vals in itertools.product(*[space_range(s) for s in contracted]):
        asg = dict(assignment)
        asg.update(zip(contracted, vals))
        v = 1
        for kind, p, q in objs:
            if kind == "delta":
                v *= int(asg[p] == asg[q])
            else:
                v *= FOCK[asg[p]][asg[q]]
            if not v:
                break
        total += v
    return pref * total


def check(m, block, indices):
    """compares all elements of the zeroth order block to the reference"""
    bra, ket = indices.split(",")
    try:
        expr = m.isr_matrix_block(0, block, indices)
    except Inputerror as e:
        print(f"M^(0)[{block}]  indices '{indices}': refused: {e}")
        return 1
    bra_sym, ket_sym = get_symbols(bra), get_symbols(ket)
    target = bra_sym + ket_sym
    terms = [parse_term(t, target) for t in Add.make_args(expr.expand())]
    n_wrong, n_tot, example = 0, 0, None
    for vals in itertools.product(*[space_range(s) for s in target]):
        asg = dict(zip(target, vals))
        oi = [asg[s] for s in bra_sym if s.space == "occ"]
        vi = [asg[s] for s in bra_sym if s.space == "virt"]
        oj = [asg[s] for s in ket_sym if s.space == "occ"]
        vj = [asg[s] for s in ket_sym if s.space == "virt"]
        ref = reference_element(oi, vi, oj, vj)
        got = sum(eval_term(t, asg) for t in terms)
        n_tot += 1
        if ref != got:
            n_wrong += 1
            if example is None and len(set(oi)) == len(oi) and \
                    len(set(oj)) == len(oj):
                example = (f"I=(occ {oi}, virt {vi}) J=(occ {oj}, virt {vj}):"
                           f" expected {ref}, adcgen {got}")
    print(f"M^(0)[{block}]  indices '{indices}': {n_wrong} of {n_tot} "
          "elements differ from <Phi_I|H0-E0|Phi_J>")
    if n_wrong:
        print("   e.g.", example)
        txt = str(expr)
        print("   adcgen expression:",
              txt if len(txt) < 700 else txt[:700] + " ... (truncated)")
    return n_wrong


if __name__ == "__main__":
    gs = GroundState(Operators("mp"))
    m = SecularMatrix(IntermediateStates(gs, "ip"))
    bad = 0
    # (1) first call in a fresh process, natural numbering of the
    #     3h-2p configurations of IP-ADC(4)
    bad += check(m, "pphhh,pphhh", "i1i2i3a1a2,j1j2j3b1b2")
    # (2) the same element with letters only is fine
    bad += check(m, "pphhh,pphhh", "ijkab,lmncd")
    # (3) call history: by now generic indices with the number 3 (and
    #     higher) are used as contracted indices in cached results
    bad += check(m, "h,h", "j3,k3")
    bad += check(m, "phh,phh", "j3k3a3,l3m3b3")
    sys.exit(1 if bad else 0)
