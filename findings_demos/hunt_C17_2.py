"""
generate_code refuses every square-root prefactor with
'NotImplementedError: Formatting of prefactor sqrt(2) ... not implemented',
although _format_python_prefactor/_format_cpp_prefactor contain a branch that
formats square roots (sqrt(2) / constants::sq2): the branch tests
'prefactor.args[1] == 0.5', which is False for the exact exponent 1/2 with
sympy >= 1.13 (Rational(1, 2) == 0.5 -> False).

Run from the worktree root:  /venv/bin/python hunt_out/2/demo.py
exit code 1: defect present, 0: fixed
"""
import sys, os, re
sys.path.insert(0, os.getcwd())
import logging
logging.disable(logging.CRITICAL)
import sympy
from sympy import sqrt, Rational, nsimplify

from adcgen import Expr, generate_code
from adcgen.indices import get_symbols
from adcgen.sympy_objects import AntiSymmetricTensor

i, a = get_symbols("ia")
f_ia = AntiSymmetricTensor("f", (i,), (a,))

prefactors = [sqrt(2), -sqrt(2) / 2, sqrt(6) / 3, 3 * sqrt(2) / 4,
              -2 * sqrt(3), Rational(2, 3)]
failed = False
for pref in prefactors:
    for backend in ("einsum", "libtensor"):
        try:
            code = generate_code(Expr(pref * f_ia), "ia", backend=backend)
        except NotImplementedError as exc:
            failed = True
            print(f"{backend:9s} prefactor {pref}: NotImplementedError: {exc}")
            continue
        # evaluate the emitted prefactor with the tensor replaced by 1
        line = code.split("\n")[2].split("#")[0].split("//")[0]
        line = line.replace("hf.fov", "1").replace("f_ov(i|a)", "1")
        line = re.sub(r"constants::sq(\d+)", r"sqrt(\1)", line)
        line = re.sub(r"(?<![\w.])(\d+)\.0(?![\w.])", r"\1", line)
        line = re.sub(r"(?<![\w.])(\d+)(?![\w.])", r"Integer(\1)", line)
        line = line.replace("0.5", "Rational(1, 2)")
        value = eval(line, {"sqrt": sympy.sqrt, "Integer": sympy.Integer,
                            "Rational": sympy.Rational})
        if nsimplify(value - pref) != 0:
            failed = True
            print(f"{backend:9s} prefactor {pref}: emitted '{line.strip()}' "
                  f"= {value}")
if failed:
    print(f"(sympy {sympy.__version__}: Rational(1, 2) == 0.5 is "
          f"{Rational(1, 2) == 0.5})")
    sys.exit(1)
print("OK: all square-root prefactors are emitted correctly")
