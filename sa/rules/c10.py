"""C10 symmetries and decompositions: the functions are evaluated in small concrete worlds (sa.symex)."""
from __future__ import annotations

import itertools

from ..model import AnalysisError
from ..symex import Symex, Obj, ClassRef
from ..terms import T, sym, strip, expand_products, is_num, show

EXPLANATION = (
    "Every function is evaluated abstractly (sa.symex) in small worlds: an expression is a list of abstract terms whose "
    "values live in a tiny exact algebra (products of antisymmetric/symmetric/plain tensors over index labels with integer "
    "coefficients; transpositions applied one after another); every `X is S.Zero` / `X == 0` / `is_number` test of the "
    "analysed code is decided by that algebra (oracle of the evaluator), `permute` stays symbolic and is interpreted by "
    "the world, `simplify`, `factor_eri_parts`, `factor_denom`, `.expand()`, `.copy()`, `.factor()`, `.sympy`, `Expr(..)` "
    "are value preserving, index generators return the requested labels. The verdicts compare what a function returns "
    "with the value it stands for; local names, statement layout, helper functions, loop forms and the spelling of "
    "calls do not enter. R10a (sign pairing): in worlds where P X = +X' under a requested factor -1 (P X = -X' under "
    "+1) exploit_perm_sym must not merge and probe_symmetry must not map anything, and a term that is itself "
    "f-symmetric needs no partner; Term.symmetry reports for every permutation it returns the factor with which the "
    "world maps the term onto itself; denom_eri_sym returns factor*(+1 | -1) | None for P D = D | -D | another bracket and "
    "omits permutations that annihilate D, returns the symmetry of the remainder for a numeric denominator and "
    "forwards the restriction when it determines that symmetry itself; _compare_remainder returns +1 / -1 / None for "
    "equal / negated / incompatible remainders (also when the remainders differ in names of contracted indices). R10b "
    "(lossless decompositions): by_delta_types, by_delta_indices, by_tensor_block, by_tensor_target_block and "
    "by_tensor_target_indices return every term exactly once with coefficient 1 in the part whose key is the key of the "
    "documented rule (labels with exponent multiplicity, sorted, 'none' / 'no_<name>' defaults, spin suffix); "
    "filter_tensor keeps exactly the terms of the documented low / medium / high tables (exponent multiplicity, ignored "
    "amplitudes); exploit_perm_sym: re-expanding the returned parts, sum over parts and their terms t of "
    "(t + sum_(P,f) f P t), gives the value of the input in every world (Klein four group where two permutations reach "
    "the same term, the four terms ia/ja/ib/jb, one deviating prefactor, three-cycles, self-(anti)symmetric and "
    "annihilated terms, unique terms, terms with denominators, numbers, and unsimplified input in which the base term, "
    "its partner or both occur twice or three times up to the name of a contracted index - every input term counted "
    "exactly once) and one term is kept per orbit and multiplicity. R10c (declared "
    "symmetry): every (P, f) recorded by exploit_perm_sym is an item of the symmetry of its single probe tensor; that "
    "tensor has the requested class, the requested upper/lower split with the requested spins and the bra-ket "
    "symmetry (0 without explicit targets); inconsistent requests (bra-ket symmetry without separator, spin "
    "incompatible with the split, foreign target indices or spins, terms with different targets) are refused; "
    "LazyTermMap.evaluate probes the (anti)symmetric tensor that carries all target indices in one slot; Obj.symmetry "
    "is the only_target symmetry of an expression of the object whose target indices are the chosen index set; "
    "Term.symmetry returns exactly the non-trivial elements of the stabiliser of the term that move only the selected "
    "indices (all / contracted / target) inside one (space, spin) class - nothing outside, nothing missing. R10d: "
    "probe_symmetry returns {i: j | P t_i = f t_j, i != j, P valid on t_i, t_i not itself f-symmetric} of the world "
    "(three-cycle worlds distinguish a map from its inverse), stores it under (permutations, factor) and refuses "
    "non-target indices and factors other than +-1; Permutation(p, q) = Permutation(q, p) = the canonically ordered "
    "pair; PermutationProduct keeps the order of the permutations inside a group of linked (space, spin) classes "
    "and orders independent groups canonically (compared with a union-find reference on 15 products).")
ASSUMPTIONS = [
    "bounded: only the worlds listed in the rule module (at most 5 terms, at most 8 index labels) are evaluated",
    "simplify / factor_eri_parts / factor_denom are value preserving and simplify is a complete zero test (C07)",
    "the prefilter keys of exploit_perm_sym / LazyTermMap._prescan_terms (object descriptions) never separate terms "
    "that are related by a permutation of target indices: related terms of a world share the description",
    "Term.permute applies the transpositions one after another (C09)",
    "the guards that skip annihilating permutations in exploit_perm_sym / probe_symmetry are not required: without "
    "them the returned value is the same (0 never matches a non-zero term)",
    "LazyTermMap.evaluate: that every symmetry item is looked up through __getitem__ is not decided",
    "Term.symmetry completeness is decided for permutations inside one (space, spin) class and for products that permute "
    "every permutable class at once; products over a proper subset of three or more classes are not enumerated by the "
    "library (P_ij P_ab of Y^ab_ij Z^pq is a symmetry that is not reported) and are not required",
    "LazyTermMap.__getitem__ (cache lookup through re-ordered / inverted permutation products) is not checked",
]

ZERO = sym("S.Zero")
ONE = sym("one")
VALUE_CALLS = ("simplify", "Expr", "sympify")
VALUE_MCALLS = ("expand", "copy", "factor", "doit")
VALUE_ATTRS = ("sympy",)


# ------------------------------------------------------------------------------------------ the exact algebra
class Uninterpreted(Exception):
    pass


def F(name, upper="", lower="", kind="anti"):
    """One tensor factor: kind 'anti' (antisymmetric within upper and within lower), 'sym', 'plain'."""
    return (name, kind, tuple(upper), tuple(lower))


def _sort_sign(xs):
    xs = list(xs)
    sign = 1
    for i in range(len(xs)):
        for j in range(len(xs) - 1 - i):
            if xs[j] > xs[j + 1]:
                xs[j], xs[j + 1] = xs[j + 1], xs[j]
                sign = -sign
    return sign, tuple(xs)


def mono_canon(mono):
    """(sign, canonical monomial) or (0, None)."""
    sign, out = 1, []
    for name, kind, up, lo in mono:
        if kind == "anti":
            if len(set(up)) != len(up) or len(set(lo)) != len(lo):
                return 0, None
            s1, up = _sort_sign(up)
            s2, lo = _sort_sign(lo)
            sign *= s1 * s2
        elif kind == "sym":
            up, lo = tuple(sorted(up)), tuple(sorted(lo))
        out.append((name, kind, up, lo))
    return sign, tuple(sorted(out))


def mono_permute(mono, perms):
    """Transpositions applied one after another."""
    for p, q in perms:
        sw = {p: q, q: p}
        mono = tuple((n, k, tuple(sw.get(x, x) for x in up), tuple(sw.get(x, x) for x in lo)) for n, k, up, lo in mono)
    return mono


def lin_add(a, b, cb=1):
    out = dict(a)
    for k, v in b.items():
        out[k] = out.get(k, 0) + cb * v
        if out[k] == 0:
            del out[k]
    return out


def lin_of(coeff, mono):
    s, c = mono_canon(mono)
    return {c: coeff * s} if s and coeff else {}


class World:
    """Terms t0..tn-1 = coeff * monomial; `invalid`: (i, perms) that annihilate the term."""

    def __init__(self, name, terms, groups=None, denom=False, invalid=(), rename=None):
        self.name, self.terms, self.denom = name, terms, denom
        self.groups = groups or ["g"] * len(terms)
        self.invalid = set(invalid)
        self.alias = {}     # monomials that are equal in value (renamed contracted indices) but counted as separate terms
        self.rename = rename or {}   # names of contracted indices that denote the same summation: {'l': 'k'}

    def _val(self, c, m):
        if self.rename:
            m = tuple((n, k, tuple(self.rename.get(x, x) for x in up), tuple(self.rename.get(x, x) for x in lo)) for n, k, up, lo in m)
        return lin_of(c, m)

    def term(self, i):
        return self._val(*self.terms[i])

    def permuted(self, i, perms):
        perms = tuple(tuple(p) for p in perms)
        if (i, perms) in self.invalid:
            return {}
        c, m = self.terms[i]
        return self._val(c, mono_permute(m, perms))

    def total(self):
        out = {}
        for i in range(len(self.terms)):
            out = lin_add(out, self.term(i))
        return out

    # ---- interpretation of evaluated terms
    def factor_lin(self, f):
        if f == ONE:
            return {"1": 1}
        if isinstance(f, T) and f.op == "sym" and str(f.args[0]).startswith("t") and str(f.args[0])[1:].isdigit():
            return self.term(int(f.args[0][1:]))
        if isinstance(f, T) and f.op == "mcall" and f.args[1] == "permute":
            recv = f.args[0]
            if isinstance(recv, T) and recv.op == "sym" and str(recv.args[0])[1:].isdigit():
                return self.permuted(int(recv.args[0][1:]), [perm_labels(p) for p in f.args[2]])
        raise Uninterpreted(show(f))

    def lin(self, x, syntactic=False):
        x = strip(_bound_calls(x), VALUE_CALLS, VALUE_MCALLS, VALUE_ATTRS)
        out = {}
        for c, fs in expand_products(x):
            if not fs:
                out = lin_add(out, {"1": c})
            elif len(fs) == 1:
                out = lin_add(out, self.factor_lin(fs[0]), c)
            else:
                raise Uninterpreted(show(x))
        if self.alias and not syntactic:
            out2 = {}
            for k, v in out.items():
                out2 = lin_add(out2, {self.alias.get(k, k): v})
            out = out2
        return out


def _bound_calls(x):
    """`m = obj.method; m(args)` is `obj.method(args)`."""
    from ..terms import rebuild

    def f(t):
        if t.op == "call" and isinstance(t.args[0], T) and t.args[0].op == "attr":
            return T("mcall", t.args[0].args[0], t.args[0].args[1], t.args[1], t.args[2])
        return t
    return rebuild(x, f)


def perm_labels(p):
    """('i', 'j') of a permutation atom: a 2-letter string or a pair of index records (frozen to symbols)."""
    if isinstance(p, str) and len(p) == 2:
        return (p[0], p[1])
    if isinstance(p, tuple) and len(p) == 2:
        return tuple(x.args[0] if isinstance(x, T) and x.op == "sym" else x.name if isinstance(x, Obj) else x for x in p)
    raise Uninterpreted(f"permutation {p!r}")


def make_oracle(world_of):
    """Decides zero / number tests of the analysed code in the current world."""
    def oracle(sx, atom):
        w = world_of()
        if w is None:
            return None
        try:
            if atom.op == "cmp" and atom.args[0] in ("is", "=="):
                a, b = atom.args[1], atom.args[2]
                for x, y in ((a, b), (b, a)):
                    if y == ZERO or (is_num(y) and y == 0 and isinstance(x, T)):
                        return not w.lin(x)
                if atom.args[0] == "==":
                    for x, y in ((a, b), (b, a)):
                        if isinstance(x, T) and x.op == "call" and x.args[0] == "len" and isinstance(y, int):
                            return max(1, len(w.lin(x.args[1][0], syntactic=True))) == y
                if isinstance(a, T) and isinstance(b, T):
                    try:    # X == -Y spelled without the zero
                        return w.lin(a) == w.lin(b)
                    except Uninterpreted:
                        return None
            if atom.op == "attr" and atom.args[1] == "is_number":
                return set(w.lin(atom.args[0])) <= {"1"}
            if atom.op == "attr" and atom.args[1] == "is_zero":
                return not w.lin(atom.args[0])
            if atom.op == "isinstance" and atom.args[1] == "NonSymmetricTensor":
                return False
        except Uninterpreted as e:
            raise AnalysisError(f"C10 world {w.name}: the test `{show(atom)[:200]}` is outside the algebra ({e})")
        return None
    return oracle


def h_permute(sx, a, kw):
    recv = a[0].term if isinstance(a[0], Obj) else a[0]
    from ..symex import _freeze
    return T("mcall", recv, "permute", tuple(_freeze(p) for p in a[1:]), ())


def h_self(sx, a, kw):
    return a[0]


def h_parts(sx, a, kw):
    """factor_eri_parts / factor_denom: a decomposition whose parts add up to the argument."""
    return [a[0] if a else next(iter(kw.values()))]


def term_objs(n, **common):
    out = []
    for i in range(n):
        o = Obj(None, f"t{i}")
        o.attrs.update(sympy=T("attr", sym(f"t{i}"), "sympy"), **{k: (v(i) if callable(v) else v) for k, v in common.items()})
        o.attrs["permute"] = lambda sx, a, kw, o=o: h_permute(sx, [o] + list(a), kw)
        out.append(o)
    return out


def index(name, space, spin=""):
    o = Obj(None, name)
    o.attrs.update(name=name, space=space, spin=spin, space_and_spin=(space, spin), _str=name + ("_" + spin if spin else ""))
    return o


def h_str(sx, a, kw):
    if len(a) == 1 and isinstance(a[0], Obj) and "_str" in a[0].attrs:
        return a[0].attrs["_str"]
    return NotImplemented


def one_return(ctx, rule, fn, outs, what, key):
    rets = [o for o in outs if o.kind == "return"]
    if len(outs) != 1 or len(rets) != 1:
        ctx.bad(rule, fn, f"{what}: expected one returning evaluation, got {[repr(o)[:160] for o in outs][:4]}", key=key)
        return None
    return rets[0]


# ------------------------------------------------------------------------------------------ R10b partitions
def _label(space, spin):
    return space if all(c == "n" for c in spin) else f"{space}_{spin}"


def _partition_scenarios():
    """(function, t_name, builder of term records, expected key of a term description)"""
    I = dict(i=("occ", ""), j=("occ", ""), k=("occ", "a"), a=("virt", ""), b=("virt", "b"), c=("virt", ""))
    # every term: deltas [(space, spin, exponent, idx)], tensors [(name, space, spin, exponent, idx)], target
    TERMS = [
        dict(deltas=[], tensors=[], target="ia"),
        dict(deltas=[("oo", "nn", 1, "ij")], tensors=[("V", "oovv", "nnnn", 1, "ijac")], target="ia"),
        dict(deltas=[("vv", "nb", 2, "ab"), ("oo", "nn", 1, "ij")], tensors=[("V", "ovvv", "nnbn", 2, "iabc"), ("f", "ov", "nn", 1, "ia")],
             target="ib"),
        dict(deltas=[("oo", "nn", 1, "ij"), ("vv", "nb", 1, "ab")], tensors=[("f", "vv", "nn", 1, "ac")], target="ka"),
        dict(deltas=[("oo", "an", 1, "ki")], tensors=[("V", "oovv", "annb", 1, "kjab"), ("V", "oovv", "nnnn", 1, "ijac")], target="kb"),
        dict(deltas=[("oo", "nn", 1, "ji")], tensors=[("V", "vvvv", "nnbn", 1, "acbc"), ("V", "oo", "nn", 1, "ij")], target="ij"),
        # equal keys that are not adjacent in term order: a second copy of term 1, another term without deltas / V
        dict(deltas=[("oo", "nn", 1, "ij")], tensors=[("V", "oovv", "nnnn", 1, "ijac")], target="ia"),
        dict(deltas=[], tensors=[("f", "ov", "nn", 1, "ia")], target="ia"),
        dict(deltas=[("vv", "nb", 1, "ab"), ("oo", "nn", 1, "ij")], tensors=[("f", "vv", "nn", 1, "ac")], target="ka"),
    ]

    def k_delta_types(t, _):
        ls = sorted(_label(sp, s) for sp, s, n, _i in t["deltas"] for _ in range(n))
        return tuple(ls) or ("none",)

    def k_delta_indices(t, _):
        ls = sorted("".join(x + ("_" + I[x][1] if I[x][1] else "") for x in ix) for sp, s, n, ix in t["deltas"] for _ in range(n))
        return tuple(ls) or ("none",)

    def k_tensor_block(t, name):
        ls = sorted(_label(sp, s) for nm, sp, s, n, _i in t["tensors"] if nm == name for _ in range(n))
        return tuple(ls) or ("none",)

    def k_target_block(t, name):
        ls = []
        for nm, sp, s, n, ix in t["tensors"]:
            if nm != name:
                continue
            tg = [x for x in ix if x in t["target"]]
            if not tg:
                ls.append("none")
                continue
            lab = "".join(I[x][0][0] for x in tg)
            if any(I[x][1] for x in tg):
                lab += "_" + "".join(I[x][1] or "n" for x in tg)
            ls.append(lab)
        return tuple(sorted(ls)) or (f"no_{name}",)

    def k_target_indices(t, name):
        ls = []
        for nm, sp, s, n, ix in t["tensors"]:
            if nm != name:
                continue
            ls.append("".join(x for x in ix if x in t["target"]) or "none")
        return tuple(sorted(ls)) or (f"no_{name}",)

    return I, TERMS, [("by_delta_types", None, k_delta_types), ("by_delta_indices", None, k_delta_indices),
                      ("by_tensor_block", "V", k_tensor_block), ("by_tensor_block", "f", k_tensor_block),
                      ("by_tensor_target_block", "V", k_target_block), ("by_tensor_target_block", "f", k_target_block),
                      ("by_tensor_target_block", "Q", k_target_block),
                      ("by_tensor_target_indices", "V", k_target_indices), ("by_tensor_target_indices", "f", k_target_indices),
                      ("by_tensor_target_indices", "Q", k_target_indices)]


def _mk_partition_expr(I, TERMS):
    pool = {n: index(n, sp, s) for n, (sp, s) in I.items()}
    terms = []
    for n, d in enumerate(TERMS):
        t = Obj(None, f"t{n}")
        t.attrs.update(
            deltas=[Obj(None, f"t{n}.d{k}", space=sp, spin=s, exponent=e, idx=tuple(pool[x] for x in ix))
                    for k, (sp, s, e, ix) in enumerate(d["deltas"])],
            tensors=[Obj(None, f"t{n}.o{k}", space=sp, spin=s, exponent=e, idx=tuple(pool[x] for x in ix))
                     for k, (nm, sp, s, e, ix) in enumerate(d["tensors"])],
            target=tuple(pool[x] for x in d["target"]), assumptions={"real": True}, sympy=T("attr", sym(f"t{n}"), "sympy"))
        for o, (nm, *_r) in zip(t.attrs["tensors"], d["tensors"]):
            o.attrs["name"] = nm
        terms.append(t)
    ex = Obj(None, "expr", terms=terms, _classes=("Expr",), assumptions={"real": True}, sympy=sym("expr.sympy"))
    return ex


def _parts_of(value):
    """{term number: coefficient} of an accumulated part; None if something else was added."""
    v = strip(_add_args(value), VALUE_CALLS, VALUE_MCALLS, VALUE_ATTRS)
    out = {}
    for c, fs in expand_products(v):
        if len(fs) == 1 and isinstance(fs[0], T) and fs[0].op == "sym" and str(fs[0].args[0])[1:].isdigit() \
                and str(fs[0].args[0])[0] == "t":
            n = int(fs[0].args[0][1:])
            out[n] = out.get(n, 0) + c
        else:
            return None
    return out


def _sort_inline(q):
    return q.startswith("sort_expr:")


def r10b_partitions(ctx):
    rule = "R10b"
    I, TERMS, scen = _partition_scenarios()
    hooks = {"expand": h_self, "str": h_str}
    n = 0
    for fname, t_name, keyfn in scen:
        fn = ctx.model.fn(f"sort_expr:{fname}")
        sx = Symex(ctx.model, inline=_sort_inline, hooks=hooks, what=fname)
        args = (lambda: dict(expr=_mk_partition_expr(I, TERMS), t_name=t_name)) if t_name is not None else \
            (lambda: dict(expr=_mk_partition_expr(I, TERMS)))
        what = f"{fname}({'' if t_name is None else repr(t_name)})"
        o = one_return(ctx, rule, fn, sx.run(fn, args), what, key=f"{what} shape")
        n += len(TERMS)     # the scenario is evaluated, whatever the verdict (the floor guards the analysis, not the code)
        if o is None:
            continue
        if not isinstance(o.value, dict):
            ctx.bad(rule, fn, f"{what} does not return the dict of parts: {show(o.value)[:200]}", key=f"{what} return")
            continue
        got = {}
        clean = True
        for k, v in o.value.items():
            p = _parts_of(v)
            if p is None:
                clean = False
                ctx.bad(rule, fn, f"{what}: part {k} is not a sum of terms of the expression: {show(v)[:200]}", key=f"{what} part {k}")
                continue
            for i, c in p.items():
                got.setdefault(i, []).append((k, c))
        if not clean:
            continue
        for i, d in enumerate(TERMS):
            want = keyfn(d, t_name)
            g = got.get(i, [])
            ctx.check(rule, fn, g == [(want, 1)], f"{what}: term {i} lands once in the part {want}",
                      f"{what}: term {i} (deltas {d['deltas']}, tensors {d['tensors']}, target {d['target']}) is "
                      + (f"lost (expected in the part {want})" if not g else f"found in {g}, expected once in the part {want}"),
                      key=f"{what} term {i}")
    ctx.floor(rule, "partition placements evaluated", n, 80)
    # input guard of the tensor name
    for fname in ("by_tensor_block", "by_tensor_target_block", "by_tensor_target_indices"):
        fn = ctx.model.fn(f"sort_expr:{fname}")
        sx = Symex(ctx.model, inline=_sort_inline, hooks=hooks, what=fname)
        outs = sx.run(fn, lambda: dict(expr=_mk_partition_expr(I, TERMS), t_name=7))
        ctx.check(rule, fn, bool(outs) and all(o.kind == "raise" for o in outs), f"{fname}: a tensor name that is not a string is refused",
                  f"{fname}: accepts the tensor name 7", key=f"{fname} name guard")


# ------------------------------------------------------------------------------------------ R10b filter_tensor
def r10b_filter(ctx):
    rule = "R10b"
    fn = ctx.model.fn("simplify:filter_tensor")
    TERMS = [[("V", 1)], [("V", 2)], [("V", 1), ("f", 1)], [("f", 1)], [("V", 1), ("t1", 1)], [("V", 2), ("Y", 1)], [],
             [("V", 1), ("V", 1)], [("t1", 1), ("Y", 1)]]
    amp = lambda nm: nm in ("X", "Y") or nm.startswith("t")   # noqa: E731

    def avail(t):
        return [nm for nm, e in t for _ in range(e)]

    def cnt(xs):
        return {x: xs.count(x) for x in xs}

    def want(t, names, strict, ignore):
        av = avail(t)
        if strict == "low":
            return all(x in av for x in names)
        if strict == "medium":
            return all(cnt(av).get(x, 0) == c for x, c in cnt(names).items())
        if ignore:
            req = [x for x in names if amp(x)]
            av = [x for x in av if not (amp(x) and x not in req)]
        return cnt(av) == cnt(names)

    def mk(names, strict, ignore):
        terms = []
        for n, t in enumerate(TERMS):
            o = Obj(None, f"t{n}")
            o.attrs.update(tensors=[Obj(None, f"t{n}.o{k}", exponent=e) for k, (nm, e) in enumerate(t)],
                           sympy=T("attr", sym(f"t{n}"), "sympy"))
            for x, (nm, e) in zip(o.attrs["tensors"], t):
                x.attrs["name"] = nm
            terms.append(o)
        ex = Obj(None, "expr", terms=terms, _classes=("Expr",), assumptions={"real": True})
        return dict(expr=ex, t_strings=list(names), strict=strict, ignore_amplitudes=ignore)

    hooks = {"expand": h_self, "is_adc_amplitude": lambda sx, a, kw: a[0] in ("X", "Y"),
             "is_t_amplitude": lambda sx, a, kw: isinstance(a[0], str) and a[0].startswith("t")}
    n = 0
    for names in (["V"], ["V", "V"], ["V", "f"], ["V", "t1"], ["Y", "V", "V"]):
        for strict in ("low", "medium", "high"):
            for ignore in ((True, False) if strict == "high" else (True,)):
                sx = Symex(ctx.model, inline=lambda q: q.startswith("simplify:"), hooks=hooks, what="filter_tensor")
                what = f"filter_tensor({names}, {strict}{', keep amplitudes' if not ignore else ''})"
                o = one_return(ctx, rule, fn, sx.run(fn, lambda: mk(names, strict, ignore)), what, key=f"{what} shape")
                n += 1     # evaluated, whatever the verdict
                if o is None:
                    continue
                p = _parts_of(o.value)
                exp = {i: 1 for i, t in enumerate(TERMS) if want(t, names, strict, ignore)}
                ctx.check(rule, fn, p == exp, f"{what} keeps exactly the terms {sorted(exp)}",
                          f"{what} returns the terms {p if p is not None else show(o.value)[:200]}, the documented selection is {sorted(exp)} "
                          f"(terms {[TERMS[i] for i in sorted(set(exp) ^ set(p or {}))]} differ)", key=what)
    ctx.floor(rule, "filter_tensor tables", n, 15)
    sx = Symex(ctx.model, inline=lambda q: q.startswith("simplify:"), hooks=hooks, what="filter_tensor")
    outs = sx.run(fn, lambda: mk(["V"], "strictest", True))
    ctx.check(rule, fn, bool(outs) and all(o.kind == "raise" for o in outs), "filter_tensor: unknown strictness refused",
              "filter_tensor accepts an unknown strictness level", key="filter strict guard")


def _add_args(v):
    """`Add(*xs)` is the sum of xs."""
    from ..terms import rebuild, t_add

    def f(x):
        if x.op == "call" and x.args[0] == "Add":
            return t_add(*x.args[1]) if x.args[1] else 0
        return x
    return rebuild(v, f)


# ------------------------------------------------------------------------------------------ exploit_perm_sym
X = lambda u, l: F("X", u, l, "plain")   # noqa: E731
Z = lambda u, l: F("Z", u, l, "plain")   # noqa: E731
ANTI4 = {("ij",): -1, ("ab",): -1, ("ij", "ab"): +1}


def _exploit_worlds():
    """(world, declared symmetry, antisymmetric flag, rule, number of parts terms expected, note)"""
    Y = lambda u, l: F("Y", u, l, "plain")   # noqa: E731
    A, B, C = (lambda n: (lambda l: F(n, "", l, "plain")))("A"), (lambda l: F("B", "", l, "plain")), (lambda l: F("C", "", l, "plain"))
    cyc = {("ij",): 1, ("ik",): 1, ("jk",): 1, ("ij", "ik"): 1, ("ij", "jk"): 1}
    return [
        (World("klein", [(1, (Y("a", "i"), Y("b", "j"))), (-1, (Y("a", "j"), Y("b", "i")))]), ANTI4, True, "R10b", 1,
         "P_ij and P_ab reach the same term"),
        (World("klein-denom", [(1, (Y("a", "i"), Y("b", "j"))), (-1, (Y("a", "j"), Y("b", "i")))], denom=True), ANTI4, True, "R10b", 1,
         "terms with an orbital energy denominator"),
        (World("four", [(1, (X("a", "i"), Z("b", "j"))), (-1, (X("a", "j"), Z("b", "i"))), (-1, (X("b", "i"), Z("a", "j"))),
                        (1, (X("b", "j"), Z("a", "i")))]), ANTI4, True, "R10b", 1, "ia, ja, ib, jb"),
        (World("four-partial", [(1, (X("a", "i"), Z("b", "j"))), (-1, (X("a", "j"), Z("b", "i"))), (5, (X("b", "i"), Z("a", "j"))),
                                (1, (X("b", "j"), Z("a", "i")))]), ANTI4, True, "R10b", 2, "one of four terms with another prefactor"),
        (World("wrong-sign-anti", [(1, (X("a", "i"), Z("b", "j"))), (1, (X("a", "j"), Z("b", "i")))]), {("ij",): -1}, True, "R10a", 2,
         "P X = +X' although the tensor is antisymmetric"),
        (World("wrong-sign-sym", [(1, (X("a", "i"), Z("b", "j"))), (-1, (X("a", "j"), Z("b", "i")))]), {("ij",): +1}, False, "R10a", 2,
         "P X = -X' although the tensor is symmetric"),
        (World("sym", [(1, (X("a", "i"), Z("b", "j"))), (1, (X("a", "j"), Z("b", "i")))]), {("ij",): +1}, False, "R10b", 1,
         "symmetric result tensor"),
        (World("cycle", [(1, (A("i"), B("j"), C("k"))), (1, (A("k"), B("i"), C("j"))), (1, (A("j"), B("k"), C("i")))]), cyc, False, "R10b", 1,
         "terms related by three-cycles only"),
        (World("self", [(1, (F("V", "ab", "ij"),)), (1, (X("a", "i"), Z("b", "j"))), (-1, (X("a", "j"), Z("b", "i")))],
               groups=["gV", "g", "g"], invalid=[(1, (("a", "b"),))]), ANTI4, True, "R10b", 2,
         "a self-antisymmetric unique term, an annihilating permutation"),
        (World("self-sym", [(1, (F("W", "ab", "ij", "sym"),)), (1, (F("W", "ab", "ij", "sym"), F("W", "ab", "ij", "sym"))),
                            (1, (X("a", "i"), Z("b", "j")))]), {("ij",): 1, ("ab",): 1, ("ij", "ab"): 1}, False, "R10b", 3,
         "self-symmetric terms in one class"),
        (World("unrelated", [(1, (X("a", "i"), Z("b", "j"))), (1, (Z("a", "i"), Z("b", "j")))]), ANTI4, True, "R10b", 2, "no relation"),
    ] + _duplicate_worlds()


def _duplicate_worlds():
    """Unsimplified input: terms that are equal up to the name of a contracted index (k / l denote the same summation)."""
    fY = lambda p, q, c: (F("f", p, c, "plain"), F("Y", q, c, "plain"))   # noqa: E731   f^p_c Y^q_c
    A, B, C = (lambda l: F("A", "", l, "plain")), (lambda l: F("B", "", l, "plain")), (lambda l: F("C", "", l, "plain"))
    D = lambda l, c: F("D", c, l, "plain")   # noqa: E731
    rn = {"l": "k"}
    P, S_ = {("ij",): -1}, {("ij",): +1}
    cyc = {("ij",): 1, ("ik",): 1, ("jk",): 1, ("ij", "ik"): 1, ("ij", "jk"): 1}
    out = []
    for denom in (False, True):
        d = " (with denominators)" if denom else ""
        out += [
            (World("duplicate partner" + d, [(1, fY("j", "i", "k")), (-1, fY("i", "j", "k")), (-1, fY("i", "j", "l"))], rename=rn, denom=denom),
             P, True, "R10b", 2, "X - P X - P X' with X' = X up to the contracted name"),
            (World("duplicate base" + d, [(1, fY("j", "i", "k")), (1, fY("j", "i", "l")), (-1, fY("i", "j", "k"))], rename=rn, denom=denom),
             P, True, "R10b", 2, "X + X' - P X"),
            (World("duplicate base and partner" + d, [(1, fY("j", "i", "k")), (-1, fY("i", "j", "k")), (1, fY("j", "i", "l")),
                                                     (-1, fY("i", "j", "l"))], rename=rn, denom=denom),
             P, True, "R10b", 2, "X - P X + X' - P X'"),
            (World("partner first" + d, [(-1, fY("i", "j", "l")), (1, fY("j", "i", "k")), (-1, fY("i", "j", "k"))], rename=rn, denom=denom),
             P, True, "R10b", 2, "- P X' + X - P X"),
        ]
    out += [
        (World("duplicate partner, symmetric", [(1, fY("j", "i", "k")), (1, fY("i", "j", "k")), (1, fY("i", "j", "l"))], rename=rn),
         S_, False, "R10b", 2, "X + P X + P X' under a symmetric result tensor"),
        (World("triplicate partner", [(1, fY("j", "i", "k")), (-1, fY("i", "j", "k")), (-1, fY("i", "j", "l")), (-1, fY("i", "j", "m"))],
               rename={"l": "k", "m": "k"}), P, True, "R10b", 3, "X - P X - P X' - P X''"),
        (World("duplicate in a three-cycle", [(1, (A("i"), B("j"), C("k"), D("", "c"))), (1, (A("k"), B("i"), C("j"), D("", "c"))),
                                             (1, (A("j"), B("k"), C("i"), D("", "c"))), (1, (A("j"), B("k"), C("i"), D("", "d")))],
               rename={"d": "c"}), cyc, False, "R10b", 2, "three cyclic images, one of them twice"),
    ]
    return out


class _ExploitScen:
    LABELS = dict(i=("occ", ""), j=("occ", ""), k=("occ", ""), a=("virt", ""), b=("virt", ""))

    def __init__(self, world, symmetry, target="ijab"):
        self.world, self.symmetry, self.target = world, symmetry, target
        self.reset(None)

    def reset(self, sx):
        self.pool = {}
        self.probes = []
        self.sym_calls = []

    def idx(self, name, spin=""):
        k = (name, spin or "")
        if k not in self.pool:
            sp = self.LABELS[name][0]
            self.pool[k] = index(name, sp, spin or "")
        return self.pool[k]

    def expr(self, number=False):
        from ..terms import t_add, t_mul
        w = self.world
        tg = tuple(self.idx(x) for x in self.target)
        terms = term_objs(len(w.terms), target=tg, assumptions={"real": True})
        val = t_mul(3, ONE) if number else t_add(*[t.attrs["sympy"] for t in terms])
        ex = Obj(None, "expr", terms=terms, _classes=("Expr",), assumptions={"real": True}, provided_target_idx=None, sympy=val)
        self.expr_obj = ex
        return ex

    def hooks(self):
        w = self.world

        def eri_orbenergy(sx, a, kw):
            t = a[0]
            i = int(t.name[1:])
            g = w.groups[i]
            return Obj(None, f"eo({t.name})", denom=Obj(None, "denom", is_number=not w.denom),
                       eri=Obj(None, "eri", objects=[Obj(None, "o", description=lambda sx, a, kw: g)], contracted=[]),
                       denom_description=lambda sx, a, kw: ("d" if w.denom else None))

        def get_symbols(sx, a, kw):
            names = a[0] if a else kw.get("idx")
            spins = a[1] if len(a) > 1 else kw.get("spins")
            if not isinstance(names, str):
                return NotImplemented
            return [self.idx(n, spins[k] if spins else "") for k, n in enumerate(names)]

        def tensor(cls):
            def h(sx, a, kw):
                b = dict(zip(("name", "upper", "lower", "bra_ket_sym"), a))
                b.update(kw)
                rec = Obj(None, "probe", tensor_class=cls, upper=tuple(b.get("upper", ())), lower=tuple(b.get("lower", ())),
                          bra_ket_sym=b.get("bra_ket_sym", 0))
                self.probes.append(rec)
                return rec
            return h

        def expr(sx, a, kw):
            if a and isinstance(a[0], Obj) and "tensor_class" in a[0].attrs:
                rec = a[0]

                def symmetry(sx, a2, kw2):
                    self.sym_calls.append((rec, tuple(a2), dict(kw2)))
                    return dict(self.symmetry)
                t = Obj(None, "probe_term", symmetry=symmetry)
                return Obj(None, "probe_expr", terms=[t])
            return NotImplemented
        return {"expand": h_self, "permute": h_permute, "EriOrbenergy": eri_orbenergy, "get_symbols": get_symbols,
                "sort_idx_canonical": lambda sx, a, kw: (a[0].attrs["space"], a[0].attrs["spin"], a[0].attrs["name"]),
                "AntiSymmetricTensor": tensor("AntiSymmetricTensor"), "SymmetricTensor": tensor("SymmetricTensor"), "Expr": expr,
                "factor_eri_parts": h_parts, "factor_denom": h_parts}


def _run_exploit(ctx, scen, args, what):
    sx = Symex(ctx.model, inline=_sort_inline, hooks=scen.hooks(), what=what, oracle=make_oracle(lambda: scen.world), max_paths=64)
    sx.on_start = scen.reset
    return sx.run("sort_expr:exploit_perm_sym", args)


def r10_exploit(ctx):
    fn = ctx.model.fn("sort_expr:exploit_perm_sym")
    n = 0
    for w, symm, anti, rule, n_kept, note in _exploit_worlds():
        if not ctx.want(rule):
            continue
        scen = _ExploitScen(w, symm, target="ijk" if "cycle" in w.name else "ijab")
        what = f"exploit_perm_sym[{w.name}: {note}]"
        outs = _run_exploit(ctx, scen, lambda: dict(expr=scen.expr(), antisymmetric_result_tensor=anti), what)
        o = one_return(ctx, rule, fn, outs, what, key=f"{w.name} shape")
        n += 1     # evaluated, whatever the verdict
        if o is None or not isinstance(o.value, dict):
            if o is not None:
                ctx.bad(rule, fn, f"{what}: does not return the dict of parts", key=f"{w.name} return")
            continue
        total, kept, ok, foreign = {}, 0, True, []
        for key, val in o.value.items():
            p = _parts_of(val)
            if p is None or any(c != 1 for c in p.values()) or not isinstance(key, tuple):
                ok = False
                ctx.bad(rule, fn, f"{what}: part {show(key)} is not a plain sum of terms: {show(val)[:200]}", key=f"{w.name} part")
                continue
            for i in p:
                kept += 1
                total = lin_add(total, w.term(i))
                for pf in key:
                    perms, f = pf if isinstance(pf, tuple) and len(pf) == 2 else (None, None)
                    if perms not in symm or symm[perms] != f:
                        foreign.append(pf)
                        continue
                    total = lin_add(total, w.permuted(i, perms), f)
        if not ok:
            continue
        if ctx.want("R10c"):
            ctx.check("R10c", fn, not foreign, f"{what}: every recorded (P, f) belongs to the symmetry of the probe tensor",
                      f"{what}: records {foreign[:3]} which is not in the declared symmetry {symm}", key=f"{w.name} declared")
        law = total == w.total()
        ctx.check(rule, fn, law, f"{what}: re-expansion of the parts reproduces the expression",
                  f"{what}: applying the recorded permutations to the returned parts "
                  f"{ {show(k): show(v) for k, v in o.value.items()} } gives a value different from the {len(w.terms)} input terms "
                  f"(difference {_show_lin(lin_add(total, w.total(), -1))})", key=f"{w.name} lossless")
        if law:
            ctx.check(rule, fn, kept == n_kept, f"{what}: {n_kept} term(s) kept (one per orbit)",
                      f"{what}: {kept} terms are kept, the {len(w.terms)} terms form {n_kept} orbit(s) under the declared symmetry",
                      key=f"{w.name} orbits")
    # a number is returned under the empty symmetry
    if ctx.want("R10b"):
        scen = _ExploitScen(World("number", [(1, (X("a", "i"),))]), ANTI4)
        outs = _run_exploit(ctx, scen, lambda: dict(expr=scen.expr(number=True)), "exploit_perm_sym[number]")
        o = one_return(ctx, "R10b", fn, outs, "exploit_perm_sym[number]", key="number shape")
        if o is not None:
            v = o.value
            ok = isinstance(v, dict) and list(v) == [()] and (v[()] is scen.expr_obj or _parts_of(v[()]) == {})
            ctx.check("R10b", fn, ok, "a number is returned unchanged under the empty symmetry",
                      f"exploit_perm_sym of a number returns {show(v)[:200]}", key="number")
        ctx.floor("R10b", "worlds of exploit_perm_sym evaluated", n, 8)


def _show_lin(l):
    def mono(m):
        return "1" if m == "1" else " ".join(f"{n}^{''.join(u)}_{''.join(lo)}" for n, k, u, lo in m)
    return " + ".join(f"{c}*{mono(m)}" for m, c in sorted(l.items(), key=repr)) or "0"


def r10c_exploit(ctx):
    """the probe tensor carries the declared symmetry"""
    rule = "R10c"
    fn = ctx.model.fn("sort_expr:exploit_perm_sym")
    w = World("unrelated", [(1, (X("a", "i"), Z("b", "j"))), (1, (Z("a", "i"), Z("b", "j")))])
    A, S_ = "AntiSymmetricTensor", "SymmetricTensor"
    # (arguments, spins of the targets of the terms, expected (class, upper, lower, bra-ket symmetry) | 'raise')
    cases = [
        (dict(bra_ket_sym=1), "", (A, "ijab", "", 0), "no explicit targets: everything upper, bra-ket symmetry ignored"),
        (dict(target_indices="ij,ab", bra_ket_sym=1), "", (A, "ij", "ab", 1), "split at the separator, bra-ket symmetry forwarded"),
        (dict(target_indices="ij,ab", bra_ket_sym=-1), "", (A, "ij", "ab", -1), "negative bra-ket symmetry forwarded"),
        (dict(target_indices="ia,jb", bra_ket_sym=1), "", (A, "ia", "jb", 1), "split ia,jb"),
        (dict(target_indices="ijab"), "", (A, "ijab", "", 0), "no separator: everything upper"),
        (dict(target_indices="ijab", bra_ket_sym=1), "", "raise", "bra-ket symmetry without a separator"),
        (dict(target_indices="ij,ab", antisymmetric_result_tensor=False), "", (S_, "ij", "ab", 0), "symmetric result tensor"),
        (dict(antisymmetric_result_tensor=False), "", (S_, "ijab", "", 0), "symmetric result tensor, no explicit targets"),
        (dict(target_indices="ij,ab", target_spin="aabb"), "aabb", (A, "ij", "ab", 0), "spin split follows the index split"),
        (dict(target_indices="ij,ab", target_spin="aa,bb"), "aabb", (A, "ij", "ab", 0), "spin given with a separator"),
        (dict(target_indices="ija,b", target_spin="aabb"), "aabb", (A, "ija", "b", 0), "uneven split, spin without a separator"),
        (dict(target_indices="ij,ab", target_spin="aab"), "aabb", "raise", "spin incompatible with the indices"),
        (dict(target_indices="ij,ab", target_spin="a,abb"), "aabb", "raise", "spin split incompatible with the index split"),
        (dict(target_indices="ik,ab"), "", "raise", "requested targets are not the targets of the expression"),
        (dict(target_indices="ij,ab", target_spin="aabb"), "", "raise", "requested spin is not the spin of the targets"),
    ]
    for args, spins, want, note in cases:
        scen = _ExploitScen(w, ANTI4)

        def mk(args=args, spins=spins, scen=scen):
            ex = scen.expr()
            tg = tuple(scen.idx(x, spins[k] if spins else "") for k, x in enumerate("ijab"))
            for t in ex.attrs["terms"]:
                t.attrs["target"] = tg
            return dict(expr=ex, **args)
        what = f"exploit_perm_sym({', '.join(f'{k}={v!r}' for k, v in args.items())})"
        outs = _run_exploit(ctx, scen, mk, what)
        if want == "raise":
            ctx.check(rule, fn, bool(outs) and all(o.kind == "raise" for o in outs), f"{what}: refused ({note})",
                      f"{what}: accepted although {note}", key=f"refuse {note}")
            continue
        o = one_return(ctx, rule, fn, outs, what, key=f"probe shape {note}")
        if o is None:
            continue
        calls = scen.sym_calls
        if len(calls) != 1:
            ctx.bad(rule, fn, f"{what}: the symmetry of {len(calls)} probe tensors is requested, expected exactly one", key=f"probe count {note}")
            continue
        rec, a2, kw2 = calls[0]
        sp = {x: (spins[k] if spins else "") for k, x in enumerate("ijab")}
        got = (rec.attrs["tensor_class"], tuple((x.attrs["name"], x.attrs["spin"]) for x in rec.attrs["upper"]),
               tuple((x.attrs["name"], x.attrs["spin"]) for x in rec.attrs["lower"]), rec.attrs["bra_ket_sym"])
        exp = (want[0], tuple((x, sp[x]) for x in want[1]), tuple((x, sp[x]) for x in want[2]), want[3])
        ctx.check(rule, fn, got == exp and not a2 and not kw2.get("only_contracted"),
                  f"{what}: probe tensor {exp[0]}(upper {want[1]}, lower {want[2] or '-'}, bra-ket {want[3]}) ({note})",
                  f"{what}: the symmetry is taken from {got[0]}(upper {got[1]}, lower {got[2]}, bra_ket_sym {got[3]}), "
                  f"the request declares {exp[0]}(upper {exp[1]}, lower {exp[2]}, bra_ket_sym {exp[3]}) ({note})", key=f"probe {note}")
    # terms with different target indices
    scen = _ExploitScen(w, ANTI4)

    def mk2():
        ex = scen.expr()
        ex.attrs["terms"][1].attrs["target"] = tuple(scen.idx(x) for x in "ikab")
        return dict(expr=ex)
    outs = _run_exploit(ctx, scen, mk2, "exploit_perm_sym[different targets]")
    ctx.check(rule, fn, bool(outs) and all(o.kind == "raise" for o in outs), "terms with different target indices are refused",
              "terms with different target indices are accepted", key="refuse different targets")


# ------------------------------------------------------------------------------------------ Term.symmetry / Obj.symmetry
def _mapping(perms):
    """label -> label of transpositions applied one after another"""
    labels = sorted({x for p in perms for x in p})
    m = {}
    for x in labels:
        y = x
        for p, q in perms:
            y = q if y == p else p if y == q else y
        if y != x:
            m[x] = y
    return tuple(sorted(m.items()))


def _term_worlds():
    """(name, monomial, index classes {label: (space, spin)}, contracted labels, thorough only)"""
    V = lambda u, l: F("V", u, l)   # noqa: E731
    o, v, g = ("occ", ""), ("virt", ""), ("general", "")
    return [
        ("V^ab_ij", (V("ab", "ij"),), dict(i=o, j=o, a=v, b=v), "", False),
        ("V^ab_ij X_k, k with spin", (V("ab", "ij"), F("X", "", "k", "plain")), dict(i=o, j=o, k=("occ", "a"), a=v, b=v), "ij", False),
        ("V^ab_ij X_k", (V("ab", "ij"), F("X", "", "k", "plain")), dict(i=o, j=o, k=o, a=v, b=v), "jk", False),
        ("W_ijk symmetric", (F("W", "", "ijk", "sym"),), dict(i=o, j=o, k=o), "ij", False),
        ("W_ik, k with spin", (F("W", "", "ik", "sym"),), dict(i=o, k=("occ", "a")), "", False),
        ("A_i B_j C_k", (F("A", "", "i", "plain"), F("B", "", "j", "plain"), F("C", "", "k", "plain")), dict(i=o, j=o, k=o), "", False),
        ("V^ab_ij Y_i", (V("ab", "ij"), F("Y", "", "i", "plain")), dict(i=o, j=o, a=v, b=v), "i", False),
        # three and four permutable (space, spin) classes: the factor of a product is the product of all its parts
        ("Y^ab_ij Z^pq (occ, virt, general)", (F("Y", "ab", "ij"), F("Z", "pq", "")), dict(i=o, j=o, a=v, b=v, p=g, q=g), "pq", False),
        ("Y^ab_ij S^pq, S symmetric", (F("Y", "ab", "ij"), F("S", "pq", "", "sym")), dict(i=o, j=o, a=v, b=v, p=g, q=g), "ij", False),
        ("S^ab_ij Z^pq, S symmetric", (F("S", "ab", "ij", "sym"), F("Z", "pq", "")), dict(i=o, j=o, a=v, b=v, p=g, q=g), "", False),
        ("d^ab_ijkl spin split", (F("d", "ab", "ij"), F("d2", "", "kl")),
         dict(i=("occ", "a"), j=("occ", "a"), k=("occ", "b"), l=("occ", "b"), a=("virt", "a"), b=("virt", "a")), "kl", False),
        ("Y^ab_ij Z^pq U_kl (four classes)", (F("Y", "ab", "ij"), F("Z", "pq", ""), F("U", "", "kl")),
         dict(i=o, j=o, a=v, b=v, p=g, q=g, k=("occ", "b"), l=("occ", "b")), "", False),
        ("V^ab_ij V^ab_kl", (V("ab", "ij"), V("ab", "kl")), dict(i=o, j=o, k=o, l=o, a=v, b=v), "ab", False),
        ("V^ab_ij V^cd_kl", (V("ab", "ij"), V("cd", "kl")), dict(i=o, j=o, k=o, l=o, a=v, b=v, c=v, d=v), "klcd", True),
    ]


def _term_inline(q):
    """helpers of the module are evaluated through; the vocabulary (permute, Expr, Permutation, ...) is hooked"""
    return q.startswith("expr_container:")


def r10_term_symmetry(ctx, thorough=False):
    fn = ctx.model.fn("expr_container:Term.symmetry")
    n = 0
    for name, mono, classes, contracted, slow in _term_worlds():
        if slow != thorough:
            continue
        w = World(name, [(1, mono)])
        labels = sorted(classes)
        for sel, flags in (("all", {}), ("contracted", dict(only_contracted=True)), ("target", dict(only_target=True))):
            chosen = [x for x in labels if sel == "all" or (x in contracted) == (sel == "contracted")]
            pool = {}

            def mk(flags=flags, pool=pool):
                pool.clear()
                pool.update({x: index(x, *classes[x]) for x in labels})
                me = Obj("expr_container:Term", "t0")
                me.attrs.update(sympy=T("attr", sym("t0"), "sympy"), idx=tuple(pool[x] for x in labels),
                                contracted=tuple(pool[x] for x in labels if x in contracted),
                                target=tuple(pool[x] for x in labels if x not in contracted))
                return dict(self=me, **flags)
            hooks = {"permute": h_permute, "split_idx_string": lambda sx, a, kw: list(a[0]),
                     "Permutation": lambda sx, a, kw: tuple(sorted(a, key=lambda x: x.attrs["name"])),
                     "PermutationProduct": lambda sx, a, kw: tuple(a[0])}
            sx = Symex(ctx.model, inline=_term_inline, hooks=hooks, what=f"Term.symmetry[{name}]", oracle=make_oracle(lambda: w),
                       max_steps=5000000)
            what = f"Term.symmetry[{name}; {sel} indices]"
            o = one_return(ctx, "R10c", fn, sx.run(fn, mk), what, key=f"{name} {sel} shape")
            n += 1     # evaluated, whatever the verdict
            if o is None:
                continue
            if not isinstance(o.value, dict):
                ctx.bad("R10c", fn, f"{what} does not return a dict: {show(o.value)[:200]}", key=f"{name} {sel} return")
                continue
            # expected: the stabiliser of the monomial among the permutations of the chosen labels inside one class
            groups = {}
            for x in chosen:
                groups.setdefault(classes[x], []).append(x)
            per_group = [[dict(zip(g, p)) for p in itertools.permutations(g)] for g in groups.values()]
            exp = {}
            for combo in itertools.product(*per_group):
                m = {k: v for d in combo for k, v in d.items() if k != v}
                if not m:
                    continue
                img = lin_of(1, tuple((nm, kd, tuple(m.get(x, x) for x in up), tuple(m.get(x, x) for x in lo)) for nm, kd, up, lo in mono))
                if img == w.term(0):
                    exp[tuple(sorted(m.items()))] = 1
                elif img == lin_add({}, w.term(0), -1):
                    exp[tuple(sorted(m.items()))] = -1
            got = {}
            bad_sign, outside = [], []
            for perms, f in o.value.items():
                try:
                    pl = [perm_labels(p) for p in (perms if isinstance(perms, tuple) and perms and isinstance(perms[0], tuple) else [perms])]
                except Uninterpreted:
                    pl = None
                if pl is None:
                    ctx.bad("R10c", fn, f"{what}: key {show(perms)} is not a product of permutations", key=f"{name} {sel} key")
                    continue
                m = _mapping(pl)
                true = w.permuted(0, pl)
                chi = 1 if true == w.term(0) else -1 if true == lin_add({}, w.term(0), -1) else None
                if chi != f:
                    bad_sign.append((pl, f, chi))
                if any(x not in chosen or classes[x] != classes[y] for x, y in m):
                    outside.append(pl)
                got[m] = f
            if ctx.want("R10a"):
                ctx.check("R10a", fn, not bad_sign, f"{what}: every reported factor is the factor of the permuted term",
                          f"{what}: reports {[(''.join(map(''.join, pl)), f) for pl, f, c in bad_sign][:4]}, but the term is mapped onto "
                          f"{[c if c is not None else 'another term' for pl, f, c in bad_sign][:4]} times itself", key=f"{name} {sel} factors")
            if ctx.want("R10c"):
                ctx.check("R10c", fn, not outside, f"{what}: only the selected indices are permuted, inside one (space, spin) class",
                          f"{what}: reports {[''.join(map(''.join, pl)) for pl in outside][:4]} which move indices outside the selection "
                          f"{chosen} or across (space, spin) classes", key=f"{name} {sel} selection")
                # the documented family: permutations inside one class and products that permute every class at once
                permutable = [c for c, g in groups.items() if len(g) > 1]

                def in_family(m):
                    touched = {classes[x] for x, _y in m}
                    return len(touched) == 1 or touched == set(permutable)
                family = {m for m in exp if in_family(m)}
                missing = sorted(family - set(got))
                ctx.check("R10c", fn, not missing or bool(bad_sign) or bool(outside),
                          f"{what}: all {len(family)} symmetries of the term that permute one class or every class are reported",
                          f"{what}: the symmetries {missing[:4]} (index mappings) of the term are not reported", key=f"{name} {sel} complete")
    if not thorough:
        ctx.floor("R10c", "worlds x selections of Term.symmetry", n, 18)
        # contradictory request / number
        hooks = {"permute": h_permute}
        w = World("V", [(1, (F("V", "ab", "ij"),))])
        sx = Symex(ctx.model, inline=_term_inline, hooks=hooks, what="Term.symmetry", oracle=make_oracle(lambda: w))
        me = lambda: Obj("expr_container:Term", "t0", sympy=T("attr", sym("t0"), "sympy"), idx=(), contracted=(), target=())  # noqa: E731
        outs = sx.run(fn, lambda: dict(self=me(), only_contracted=True, only_target=True))
        if ctx.want("R10c"):
            ctx.check("R10c", fn, bool(outs) and all(o.kind == "raise" for o in outs), "Term.symmetry: contradictory restriction refused",
                      "Term.symmetry accepts only_contracted together with only_target", key="Term.symmetry guard")


def r10c_obj_symmetry(ctx):
    rule = "R10c"
    fn = ctx.model.fn("expr_container:Obj.symmetry")
    w = World("obj", [(1, (F("V", "ab", "ij"),))])
    MARK = sym("SYMMETRY_OF_NEW_TERM")
    for sel, flags in (("all", {}), ("contracted", dict(only_contracted=True)), ("target", dict(only_target=True))):
        rec = {}

        def mk(flags=flags, rec=rec):
            rec.clear()
            ix = {x: index(x, "occ" if x in "ijk" else "virt") for x in "ijkab"}
            rec["ix"] = ix
            me = Obj("expr_container:Obj", "t0")
            me.attrs.update(sympy=T("attr", sym("t0"), "sympy"), idx=tuple(ix[x] for x in "ijab"), assumptions={"real": True},
                            term=Obj(None, "term", contracted=tuple(ix[x] for x in "jkb"), target=tuple(ix[x] for x in "ia"),
                                     idx=tuple(ix[x] for x in "ijkab")))
            return dict(self=me, **flags)

        def h_expr(sx, a, kw, rec=rec):
            rec["expr"] = (a[0] if a else kw.get("e"), dict(kw))

            def symmetry(sx, a2, kw2):
                rec["call"] = (tuple(a2), dict(kw2))
                return MARK
            return Obj(None, "new_expr", terms=[Obj(None, "new_term", symmetry=symmetry)])
        sx = Symex(ctx.model, inline=_term_inline, hooks={"Expr": h_expr}, what="Obj.symmetry", oracle=make_oracle(lambda: w))
        what = f"Obj.symmetry[{sel} indices]"
        o = one_return(ctx, rule, fn, sx.run(fn, mk), what, key=f"obj {sel} shape")
        if o is None:
            continue
        want = {"all": "ijab", "contracted": "jkb", "target": "ia"}[sel]
        e0, kw = rec.get("expr", (None, {}))
        tg = kw.get("target_idx")
        got = "".join(x.attrs["name"] for x in tg) if isinstance(tg, (tuple, list)) and all(isinstance(x, Obj) for x in tg) else show(tg)
        a2, kw2 = rec.get("call", ((), {}))
        only_t = kw2.get("only_target", a2[1] if len(a2) > 1 else False)
        only_c = kw2.get("only_contracted", a2[0] if a2 else False)
        ok = o.value == MARK and e0 == T("attr", sym("t0"), "sympy") and got == want and only_t is True and not only_c
        ctx.check(rule, fn, ok, f"{what}: target symmetry of the object with the target indices {want}",
                  f"{what}: returns {show(o.value)[:80]} of an expression of {show(e0)[:60]} with target indices {got} "
                  f"(symmetry called with {a2} {kw2}); expected the only_target symmetry with the target indices {want}", key=f"obj {sel}")
    sx = Symex(ctx.model, inline=_term_inline, hooks={}, what="Obj.symmetry", oracle=make_oracle(lambda: w))
    outs = sx.run(fn, lambda: dict(self=Obj("expr_container:Obj", "t0", sympy=T("attr", sym("t0"), "sympy")), only_contracted=True,
                                   only_target=True))
    ctx.check(rule, fn, bool(outs) and all(o.kind == "raise" for o in outs), "Obj.symmetry: contradictory restriction refused",
              "Obj.symmetry accepts only_contracted together with only_target", key="Obj.symmetry guard")


# ------------------------------------------------------------------------------------------ LazyTermMap
def _sym_inline(q):
    return q.startswith("symmetry:")


def _probe_worlds():
    """(world, permutations, factor, rule, note)"""
    A, B, C = (lambda l: F("A", "", l, "plain")), (lambda l: F("B", "", l, "plain")), (lambda l: F("C", "", l, "plain"))
    pair = [(1, (X("a", "i"), Z("b", "j"))), (-1, (X("a", "j"), Z("b", "i")))]
    four = [(1, (X("a", "i"), Z("b", "j"))), (-1, (X("a", "j"), Z("b", "i"))), (-1, (X("b", "i"), Z("a", "j"))), (1, (X("b", "j"), Z("a", "i")))]
    cyc = [(1, (A("i"), B("j"), C("k"))), (1, (A("k"), B("i"), C("j"))), (1, (A("j"), B("k"), C("i")))]
    return [
        (World("pair", pair), ("ij",), -1, "R10d", "two terms exchanged by P_ij"),
        (World("pair-denom", pair, denom=True), ("ij",), -1, "R10d", "terms with a denominator"),
        (World("four", four), ("ij",), -1, "R10d", "ia/ja/ib/jb under P_ij"),
        (World("four", four), ("ij", "ab"), +1, "R10d", "ia/ja/ib/jb under P_ij P_ab"),
        (World("cycle", cyc), ("ij", "ik"), +1, "R10d", "three-cycle: the map differs from its inverse"),
        (World("cycle", cyc), ("ik", "ij"), +1, "R10d", "the inverse three-cycle"),
        (World("cycle-minus", [cyc[0], (-1, cyc[1][1]), cyc[2]]), ("ij", "ik"), -1, "R10d", "three-cycle with signs"),
        (World("wrong-sign-anti", [pair[0], (1, pair[1][1])]), ("ij",), -1, "R10a", "P X = +X' probed with the factor -1"),
        (World("wrong-sign-sym", pair), ("ij",), +1, "R10a", "P X = -X' probed with the factor +1"),
        (World("sym", [pair[0], (1, pair[1][1])]), ("ij",), +1, "R10d", "P X = +X' probed with the factor +1"),
        (World("twice-antisymmetric", [(1, (F("V", "ab", "ij"),)), (1, (F("V", "ab", "ij"),))]), ("ij",), -1, "R10a",
         "a term with P X = -X listed twice needs no partner under the factor -1"),
        (World("twice-symmetric", [(1, (F("W", "ab", "ij", "sym"),)), (1, (F("W", "ab", "ij", "sym"),))]), ("ij",), +1, "R10a",
         "a term with P X = +X listed twice needs no partner under the factor +1"),
        (World("symmetric-and-negative", [(1, (F("W", "ab", "ij", "sym"),)), (-1, (F("W", "ab", "ij", "sym"),))]), ("ij",), -1, "R10a",
         "P X = +X = -X' under the factor -1"),
        (World("self", [(1, (F("V", "ab", "ij"),)), pair[0], pair[1]], invalid=[(2, (("a", "b"),))]), ("ij",), -1, "R10d",
         "an antisymmetric term next to a pair"),
        (World("self", [(1, (F("V", "ab", "ij"),)), pair[0], pair[1]], invalid=[(2, (("a", "b"),))]), ("ab",), -1, "R10d",
         "a permutation annihilating one term"),
        (World("groups", [pair[0], (1, (F("Q", "ab", "ij", "plain"),)), pair[1], (-1, (F("Q", "ab", "ji", "plain"),)), (1, (F("R", "ab", "ij"),))],
               groups=["g", "q", "g", "q", "r"]), ("ij",), -1, "R10d", "two classes of terms and a unique term"),
    ]


def _expected_map(w, perms, f):
    pl = [tuple(p) for p in perms]
    out = {}
    n = len(w.terms)
    for i in range(n):
        img = w.permuted(i, pl)
        if not img and w.term(i):
            continue
        if img == lin_add({}, w.term(i), f):
            continue
        for j in range(n):
            if j != i and w.groups[j] == w.groups[i] and img == lin_add({}, w.term(j), f):
                out[i] = j
                break
    return out


def _termmap_self(w, labels="ijkab"):
    ix = {x: index(x, "occ" if x in "ijkl" else "virt") for x in labels}
    groups = {}
    for i, g in enumerate(w.groups):
        groups.setdefault(g, []).append(i)
    pres = tuple((w.denom, list(v)) for v in groups.values() if len(v) > 1)
    me = Obj("symmetry:LazyTermMap", "self")
    me.attrs.update(_terms=tuple(term_objs(len(w.terms))), _term_map={}, target_indices=tuple(ix[x] for x in labels),
                    _prescan_terms=lambda sx, a, kw: pres, _expr=Obj(None, "expr", provided_target_idx=None))
    return me, ix


def r10_probe_symmetry(ctx):
    fn = ctx.model.fn("symmetry:LazyTermMap.probe_symmetry")
    hooks = {"permute": h_permute, "factor_eri_parts": h_parts, "factor_denom": h_parts}
    n = 0
    for w, perms, f, rule, note in _probe_worlds():
        if not ctx.want(rule):
            continue
        box = {}

        def mk(w=w, perms=perms, f=f, box=box):
            me, ix = _termmap_self(w)
            box["self"] = me
            box["perms"] = tuple((ix[p[0]], ix[p[1]]) for p in perms)
            return dict(self=me, permutations=box["perms"], sym_factor=f)
        what = f"probe_symmetry[{w.name}: {note}; {' '.join('P_' + p for p in perms)}, factor {f:+d}]"
        sx = Symex(ctx.model, inline=_sym_inline, hooks=hooks, what=what, oracle=make_oracle(lambda w=w: w), max_paths=64)
        o = one_return(ctx, rule, fn, sx.run(fn, mk), what, key=f"{w.name} {perms} {f} shape")
        n += 1     # evaluated, whatever the verdict
        if o is None:
            continue
        exp = _expected_map(w, perms, f)
        ctx.check(rule, fn, o.value == exp, f"{what}: map {exp} = {{i: j | P t_i = {f:+d} t_j}}",
                  f"{what}: returns the map {show(o.value)[:200]}; in this world P t_i = {f:+d} t_j holds exactly for {exp}"
                  + (" (the returned map belongs to the inverse permutation)" if isinstance(o.value, dict) and
                     o.value == {j: i for i, j in exp.items()} and exp else ""), key=f"{w.name} {perms} {f} map")
        if rule == "R10d":
            stored = box["self"].attrs["_term_map"]
            k = (tuple(box["perms"]), f)
            ctx.check(rule, fn, list(stored) == [k] and stored[k] == o.value, f"{what}: stored under (permutations, factor)",
                      f"{what}: the term map cache holds {show(stored)[:200]} instead of the map under (permutations, {f})",
                      key=f"{w.name} {perms} {f} store")
    if ctx.want("R10d"):
        ctx.floor("R10d", "worlds of probe_symmetry evaluated", n, 10)
        w = _probe_worlds()[0][0]

        def mk_bad(kind):
            def mk():
                me, ix = _termmap_self(w)
                if kind == "non-target":
                    return dict(self=me, permutations=((ix["i"], index("m", "occ")),), sym_factor=-1)
                return dict(self=me, permutations=((ix["i"], ix["j"]),), sym_factor=2)
            return mk
        for kind in ("non-target", "factor"):
            sx = Symex(ctx.model, inline=_sym_inline, hooks=hooks, what="probe_symmetry", oracle=make_oracle(lambda: w), max_paths=64)
            outs = sx.run(fn, mk_bad(kind))
            ctx.check("R10d", fn, bool(outs) and all(o.kind == "raise" for o in outs),
                      "permutations of non-target indices refused" if kind == "non-target" else "symmetry factors other than +-1 refused",
                      "probe_symmetry accepts a permutation with a non-target index" if kind == "non-target" else
                      "probe_symmetry accepts the symmetry factor 2", key=f"probe guard {kind}")


def r10c_evaluate(ctx):
    rule = "R10c"
    fn = ctx.model.fn("symmetry:LazyTermMap.evaluate")
    w = _probe_worlds()[0][0]
    for anti in (True, False):
        scen = _ExploitScen(w, {("ij",): -1})
        box = {}

        def mk(anti=anti, box=box):
            me, ix = _termmap_self(w, "ijab")
            me.attrs["_term_map"] = {"marker": 1}
            box["self"], box["ix"] = me, ix
            return dict(self=me, antisymmetric_result_tensor=anti)
        sx = Symex(ctx.model, inline=_sym_inline, hooks=scen.hooks(), what="evaluate")
        sx.on_start = scen.reset
        what = f"LazyTermMap.evaluate({'anti' if anti else ''}symmetric result)"
        o = one_return(ctx, rule, fn, sx.run(fn, mk), what, key=f"evaluate {anti} shape")
        if o is None:
            continue
        if len(scen.sym_calls) != 1:
            ctx.bad(rule, fn, f"{what}: the symmetry of {len(scen.sym_calls)} probe tensors is requested", key=f"evaluate {anti} count")
            continue
        rec, a2, kw2 = scen.sym_calls[0]
        tg = box["self"].attrs["target_indices"]
        slots = sorted([tuple(rec.attrs["upper"]), tuple(rec.attrs["lower"])], key=len)
        ok = rec.attrs["tensor_class"] == ("AntiSymmetricTensor" if anti else "SymmetricTensor") and slots[0] == () and \
            len(slots[1]) == len(tg) and all(x is y for x, y in zip(slots[1], tg)) and rec.attrs["bra_ket_sym"] == 0 and \
            not kw2.get("only_contracted") and not a2
        ctx.check(rule, fn, ok, f"{what}: probes a tensor with all target indices in one slot",
                  f"{what}: probes {rec.attrs['tensor_class']}(upper {show(rec.attrs['upper'])}, lower {show(rec.attrs['lower'])}, "
                  f"bra_ket_sym {rec.attrs['bra_ket_sym']}); expected the {'anti' if anti else ''}symmetric tensor over the target indices "
                  f"{show(tg)}", key=f"evaluate {anti}")
        ctx.check(rule, fn, o.value is box["self"].attrs["_term_map"], f"{what}: returns the term map",
                  f"{what}: returns {show(o.value)[:100]}", key=f"evaluate {anti} return")


# ------------------------------------------------------------------------------------------ Permutation objects
def r10d_permutation(ctx):
    rule = "R10d"
    fn = ctx.model.fn("symmetry:Permutation.__new__")
    key = lambda x: (x.attrs["space"], x.attrs["spin"], x.attrs["name"])   # noqa: E731
    hooks = {"sort_idx_canonical": lambda sx, a, kw: key(a[0])}
    ix = dict(i=("i", "occ", ""), j=("j", "occ", ""), a=("a", "virt", ""), ia=("ia", "occ", "a"), ib=("ib", "occ", "b"), p=("p", "general", ""))
    for x, y in (("i", "j"), ("a", "i"), ("ia", "ib"), ("p", "a"), ("j", "ia")):
        res = []
        for first, second in ((x, y), (y, x)):
            sx = Symex(ctx.model, inline=_sym_inline, hooks=hooks, what="Permutation")
            outs = sx.run(fn, lambda: dict(cls=sym("cls"), p=index(*ix[first]), q=index(*ix[second])))
            o = one_return(ctx, rule, fn, outs, f"Permutation({first}, {second})", key=f"perm {first} {second} shape")
            v = o.value if o is not None else None
            payload = None
            if isinstance(v, T) and v.op == "mcall" and v.args[1] == "__new__" and v.args[2]:
                payload = v.args[2][-1]
            res.append(payload)
        lo, hi = sorted((x, y), key=lambda k: (ix[k][1], ix[k][2], ix[k][0]))
        # records are frozen to their names: rebuild the expected pair through the same naming
        exp = (sym(index(*ix[lo]).name), sym(index(*ix[hi]).name))
        ok = res[0] is not None and res[0] == res[1] and res[0] == exp
        ctx.check(rule, fn, ok, f"Permutation({x}, {y}) = Permutation({y}, {x}) = canonical pair ({lo}, {hi})",
                  f"Permutation({x}, {y}) holds {show(res[0])}, Permutation({y}, {x}) holds {show(res[1])}; both must be the pair "
                  f"({lo}, {hi}) in canonical order", key=f"perm canonical {x} {y}")


def _ref_product(perms, cls_of):
    """Reference: permutations of linked classes keep their order, the groups are ordered by their sorted class names."""
    parent = {}

    def find(x):
        parent.setdefault(x, x)
        while parent[x] != x:
            x = parent[x]
        return x
    for p, q in perms:
        a, b = find(cls_of[p]), find(cls_of[q])
        if a != b:
            parent[a] = b
    comp = {}
    for c in list(parent):
        comp.setdefault(find(c), set()).add(c)
    groups = {}
    for p, q in perms:
        k = "".join(sorted(comp[find(cls_of[p])]))
        groups.setdefault(k, []).append((p, q))
    return [x for k in sorted(groups) for x in groups[k]]


def r10d_product(ctx):
    rule = "R10d"
    fn = ctx.model.fn("symmetry:PermutationProduct.__new__")
    cls_of = dict(i="o", j="o", k="o", a="v", b="v", c="v", p="g", q="g", I="oa", J="oa", K="ob", L="ob")
    full = dict(o=("occ", ""), v=("virt", ""), g=("general", ""), oa=("occ", "a"), ob=("occ", "b"))
    inputs = ["ab ij", "ij ab", "ik ij", "ij ik", "ab ik cb ij", "ik ab ij cb", "ab ia ij", "ij ia ab", "pq ab ia ij", "ab pq ij", "KL ab IJ ij",
              "IJ KL", "KL IJ", "ab ia ij pq bc", "ij"]
    mod = ctx.model.module("symmetry")
    n = 0
    for text in inputs:
        perms = [tuple(w_) for w_ in text.split()]

        def mk(perms=perms):
            pool = {}

            def ix(x):
                if x not in pool:
                    pool[x] = index(x, *full[cls_of[x]])
                return pool[x]
            return dict(cls=ClassRef(mod, "PermutationProduct"), args=tuple((ix(p), ix(q)) for p, q in perms))
        sx = Symex(ctx.model, inline=_sym_inline, hooks={}, what="PermutationProduct")
        o = one_return(ctx, rule, fn, sx.run(fn, mk), f"PermutationProduct({text})", key=f"product {text} shape")
        n += 1     # evaluated, whatever the verdict
        if o is None:
            continue
        v = o.value
        payload = v.args[2][-1] if isinstance(v, T) and v.op == "mcall" and v.args[1] == "__new__" and v.args[2] else None
        try:
            got = [perm_labels(x) for x in payload]
        except (Uninterpreted, TypeError):
            got = None
        exp = _ref_product(perms, cls_of)
        ctx.check(rule, fn, got == exp, f"PermutationProduct({text}) = {' '.join(map(''.join, exp))}",
                  f"PermutationProduct({text}) holds {' '.join(map(''.join, got)) if got is not None else show(v)[:200]}; permutations of linked "
                  f"spaces keep their order and independent groups are ordered canonically: {' '.join(map(''.join, exp))}",
                  key=f"product {text}")
    ctx.floor(rule, "permutation products evaluated", n, 12)


# ------------------------------------------------------------------------------------------ denom_eri_sym, _compare_remainder
def r10a_denom(ctx):
    rule = "R10a"
    fn = ctx.model.fn("eri_orbenergy:EriOrbenergy.denom_eri_sym")
    # D = (e_j - e_k)-like bracket: odd under P_jk, untouched by P_ab / P_bc, changed by P_ij, annihilated by P_jl (declared)
    w = World("denominator", [(1, (F("D", "", "jk"),))], invalid=[(0, (("j", "l"),))])
    eri_sym = {("jk",): 1, ("jk", "ab"): -1, ("ab",): -1, ("bc",): 1, ("ij",): 1, ("ij", "ab"): -1, ("jl",): 1, ("ik", "ij"): -1}
    exp = {("jk",): -1, ("jk", "ab"): 1, ("ab",): -1, ("bc",): 1, ("ij",): None, ("ij", "ab"): None, ("ik", "ij"): None}
    SYM = {("ab",): -1}
    box = {}

    def me(number=False, eri_idx=("a",)):
        box.clear()

        def symmetry(sx, a, kw):
            box["call"] = (tuple(a), dict(kw))
            return dict(SYM)
        from ..terms import t_mul
        d = Obj(None, "t0", sympy=t_mul(2, ONE) if number else T("attr", sym("t0"), "sympy"))
        o = Obj("eri_orbenergy:EriOrbenergy", "self")
        o.attrs.update(denom=d, eri=Obj(None, "eri", idx=tuple(eri_idx), symmetry=symmetry))
        return o
    mk_sx = lambda: Symex(ctx.model, inline=lambda q: q.startswith("eri_orbenergy:"), hooks={"permute": h_permute}, what="denom_eri_sym",   # noqa: E731
                          oracle=make_oracle(lambda: w))
    o = one_return(ctx, rule, fn, mk_sx().run(fn, lambda: dict(self=me(), eri_sym=dict(eri_sym))), "denom_eri_sym", key="denom shape")
    if o is not None:
        v = o.value if isinstance(o.value, dict) else {}
        for perms, f in eri_sym.items():
            name = " ".join("P_" + p for p in perms)
            how = "annihilates D" if perms not in exp else {1: "P D = +D", -1: "P D = -D", 0: "P D is another bracket"}[
                0 if exp[perms] is None else exp[perms] * f]
            if perms not in exp:
                ctx.check(rule, fn, perms not in v, f"denom_eri_sym: {name} ({how}) is omitted",
                          f"denom_eri_sym reports {v.get(perms)} for {name} although the permutation annihilates the denominator",
                          key=f"denom {name}")
            else:
                ctx.check(rule, fn, perms in v and v[perms] == exp[perms] and type(v[perms]) is type(exp[perms]),
                          f"denom_eri_sym: {name} with ERI factor {f:+d}, {how} -> {exp[perms]}",
                          f"denom_eri_sym reports {v.get(perms, 'nothing')} for {name} (ERI factor {f:+d}, {how}); the common symmetry of "
                          f"remainder and denominator is {exp[perms]}", key=f"denom {name}")
    # numeric denominator: the symmetry of the remainder is the answer
    o = one_return(ctx, rule, fn, mk_sx().run(fn, lambda: dict(self=me(number=True), eri_sym=dict(eri_sym))), "denom_eri_sym[number]",
                   key="denom number shape")
    if o is not None:
        ctx.check(rule, fn, o.value == eri_sym, "denom_eri_sym: numeric denominator -> symmetry of the remainder unchanged",
                  f"denom_eri_sym with a numeric denominator returns {show(o.value)[:200]}", key="denom number")
    for number in (True, False):
        o = one_return(ctx, rule, fn, mk_sx().run(fn, lambda: dict(self=me(number=number), kwargs={"only_contracted": True})),
                       "denom_eri_sym[on the fly]", key=f"denom fly shape {number}")
        if o is not None:
            a, kw = box.get("call", ((), {}))
            want = dict(SYM) if number else {("ab",): -1}
            ctx.check(rule, fn, o.value == want and kw == {"only_contracted": True} and not a,
                      "denom_eri_sym: the symmetry of the remainder is determined with the forwarded restriction",
                      f"denom_eri_sym without eri_sym returns {show(o.value)[:120]} from symmetry{a}{kw}", key=f"denom fly {number}")
    outs = mk_sx().run(fn, lambda: dict(self=me(eri_idx=()), kwargs={}))
    ctx.check(rule, fn, bool(outs) and all(o.kind == "raise" for o in outs), "denom_eri_sym: remainder without indices refused",
              "denom_eri_sym accepts a remainder without indices and no given symmetry", key="denom guard")


def r10a_compare_remainder(ctx):
    rule = "R10a"
    ref = "factor_intermediates:_compare_remainder"
    if not ctx.model.has_fn(ref):
        raise AnalysisError("anchor function factor_intermediates:_compare_remainder not found")
    fn = ctx.model.fn(ref)
    R = (X("a", "i"), Z("b", "j"))
    R2 = (X("a", "k"), Z("b", "j"))      # the same remainder with another name of a contracted index
    Q = (Z("a", "i"), Z("b", "j"))
    from ..terms import summands
    # (name, terms t0 = remainder, t1 = reference, relabelling, eri parts split, denominators split, expected)
    cases = [("identical", (1, R), (1, R), False, False, False, 1), ("negated", (-1, R), (1, R), False, False, False, -1),
             ("equal up to contracted names", (1, R2), (1, R), True, False, False, 1),
             ("negated up to contracted names", (-1, R2), (1, R), True, False, False, -1),
             ("another prefactor", (2, R), (1, R), False, False, False, None),
             ("another prefactor up to contracted names", (-3, R2), (1, R), True, False, False, None),
             ("different objects", (1, Q), (1, R), False, True, False, None),
             ("different denominators", (1, R2), (1, R), False, False, True, None)]
    for name, t0, t1, alias, split_eri, split_den, want in cases:
        w = World(name, [t0, t1])
        if alias:
            w.alias = {mono_canon(R2)[1]: mono_canon(R)[1]}

        def mk():
            ix = tuple(index(x, "occ") for x in "ij")
            r = Obj(None, "t0", sympy=T("attr", sym("t0"), "sympy"), terms=[Obj(None, "t0.term", target=ix)])
            q = Obj(None, "t1", sympy=T("attr", sym("t1"), "sympy"), terms=[Obj(None, "t1.term", target=ix)])
            return dict(remainder=r, ref_remainder=q, itmd_indices=(index("a", "virt"), index("b", "virt")))
        hooks = {"factor_eri_parts": (lambda sx, a, kw: summands(a[0])) if split_eri else h_parts,
                 "factor_denom": (lambda sx, a, kw: summands(a[0])) if split_den else h_parts}
        sx = Symex(ctx.model, inline=lambda q: q.startswith("factor_intermediates:"), hooks=hooks, what="_compare_remainder", oracle=make_oracle(lambda w=w: w))
        what = f"_compare_remainder[{name}]"
        o = one_return(ctx, rule, fn, sx.run(fn, mk), what, key=f"remainder {name} shape")
        if o is None:
            continue
        ctx.check(rule, fn, o.value == want and type(o.value) is type(want), f"{what} -> {want}",
                  f"{what} returns {show(o.value)}, the factor that maps the remainder onto the reference is {want}", key=f"remainder {name}")


def run(ctx):
    if ctx.want("R10b"):
        r10b_partitions(ctx)
        r10b_filter(ctx)
    if ctx.want("R10a") or ctx.want("R10b") or ctx.want("R10c"):
        r10_exploit(ctx)
    if ctx.want("R10c"):
        r10c_exploit(ctx)
        r10c_obj_symmetry(ctx)
    if ctx.want("R10a") or ctx.want("R10c"):
        r10_term_symmetry(ctx)
    if ctx.want("R10a") or ctx.want("R10d"):
        r10_probe_symmetry(ctx)
    if ctx.want("R10a"):
        r10a_denom(ctx)
        r10a_compare_remainder(ctx)
    if ctx.want("R10c"):
        r10c_evaluate(ctx)
    if ctx.want("R10d"):
        r10d_permutation(ctx)
        r10d_product(ctx)


def run_thorough(ctx):
    if ctx.want("R10a") or ctx.want("R10c"):
        r10_term_symmetry(ctx, thorough=True)
