"""Entry point: ./check <Cxx> [--tier quick|thorough] [--rule R] [--replay p]

exit 0: every rule instance of the property holds (KNOWN-FINDING lines allowed)
exit 1: VIOLATION property=<id> replay=<path>
exit 2: ANALYSIS-ERROR (anchor vanished / shape not recognised / floor missed)
"""
from __future__ import annotations

import argparse
import importlib
import json
import os
import sys
import time
import traceback

from .core import (Ctx, load_known, match_known, write_evidence, write_replay)
from .model import Model, AnalysisError

REPO = os.environ.get("VERIF_REPO", "/repo")


def run_property(prop: str, tier: str, only_rule=None, repo=REPO,
                 write=True, quiet=False):
    t0 = time.time()
    out = []
    say = out.append
    try:
        mod = importlib.import_module(f"sa.rules.{prop.lower()}")
    except ModuleNotFoundError:
        print(f"ANALYSIS-ERROR property={prop} no rule module")
        return 2
    ctx = None
    try:
        model = Model(repo)
        ctx = Ctx(prop, tier, model, only_rule)
        mod.run(ctx)
        if tier == "thorough" and hasattr(mod, "run_thorough"):
            mod.run_thorough(ctx)
        unknown = [v for v in ctx.violations if match_known(v, load_known()) is None]
        if tier == "thorough" and write and not os.environ.get("VERIF_NO_WITNESS") and not unknown:
            # (the harness is only meaningful on a tree that holds: on a violating tree every preserving edit "alarms")
            # A12: the checker is tested both ways on scratch copies of the current tree
            from .witness import run_witnesses
            w = run_witnesses(prop, repo)
            ctx.witness = {k: w.get(k) for k in ("run", "ok", "skipped", "failed")}
            if w.get("failed"):
                raise AnalysisError("witness harness: the checker misbehaves on "
                                    + ", ".join(f"{x[0]} ({x[1]})" for x in w["failed"]))
    except AnalysisError as e:
        print(f"ANALYSIS-ERROR property={prop} {e}")
        if ctx is not None and write:
            write_evidence(ctx, time.time() - t0, getattr(mod, "EXPLANATION", "-"),
                           getattr(mod, "ASSUMPTIONS", []), 0,
                           f"analysis-error: {e}")
        return 2
    except Exception:
        tb = traceback.format_exc()
        print(f"ANALYSIS-ERROR property={prop} internal error in checker")
        print(tb)
        return 2
    known = load_known()
    n_known = 0
    real = []
    seen_known = set()
    for v in ctx.violations:
        k = match_known(v, known)
        if k is not None:
            kid = k.get("id", "?")
            if kid not in seen_known:
                seen_known.add(kid)
                n_known += 1
                say(f"KNOWN-FINDING: property={prop} {kid} {v.rule} {v.fn} :: {k.get('what', v.reason)} "
                    f"[{k.get('witness', '')}]")
        else:
            real.append(v)
    status = "violated" if real else "holds"
    if write:
        ev = write_evidence(ctx, time.time() - t0, mod.EXPLANATION,
                            mod.ASSUMPTIONS, n_known, status)
    rules = ", ".join(f"{r}:{d['discharged']}/{d['obligations']}"
                      for r, d in sorted(ctx.per_rule.items()))
    say(f"[{prop}] tier={tier} modules={len(model.modules)} "
        f"functions={model.n_functions()} obligations={ctx.obligations} "
        f"discharged={ctx.discharged} sites={len(ctx.sites)} "
        f"wall={time.time() - t0:.2f}s")
    say(f"[{prop}] rules {rules}")
    for v in real:
        p = write_replay(v) if write else "-"
        say(f"VIOLATION property={prop} replay={p}")
        say(f"  {v.line()}")
    if not quiet:
        print("\n".join(out))
    ctx._out = out
    run_property.last_ctx = ctx
    return 1 if real else 0


def main(argv=None):
    ap = argparse.ArgumentParser()
    ap.add_argument("prop")
    ap.add_argument("--tier", default=os.environ.get("VERIF_TIER") or "quick",
                    choices=["quick", "thorough"])
    ap.add_argument("--rule", default=None)
    ap.add_argument("--replay", default=None)
    ap.add_argument("--repo", default=REPO)
    a = ap.parse_args(argv)
    rule = a.rule
    if a.replay:
        with open(a.replay) as f:
            r = json.load(f)
        rule = r.get("rule", rule)
        print(f"replaying {r.get('rule')} at {r.get('function')}: "
              f"{r.get('construct')}")
    props = [a.prop.upper()]
    if a.prop.lower() == "all":
        props = [f"C{i:02d}" for i in range(1, 21)]
    rc = 0
    for p in props:
        rc = max(rc, run_property(p, a.tier, rule, a.repo,
                                  write=(rule is None and not os.environ.get("VERIF_NO_EVIDENCE"))))
    return rc


if __name__ == "__main__":
    sys.exit(main())
