"""C01 Wick evaluation: contraction table, recursion bookkeeping, prefilter
soundness, rule application."""
from __future__ import annotations

import ast
import itertools

from ..abseval import Interp, Rec, Sym, klass
from ..model import (AnalysisError, U, calls_in, call_name, walk_fn, kwarg,
                     names_in, Defs)
from ..pathcond import conditions
from . import common

EXPLANATION = (
    "R01a: complete 36-row decision table of func._contraction extracted from "
    "its if-tree over (operator kind x space)^2 and compared with the oracle "
    "table of the particle/hole contraction (fresh virt/occ index for two "
    "general indices; spin refused). R01b: _contract_operator_string "
    "interpreted on symbolic operator tokens (n=2,4,6,8): every complete "
    "pairing exactly once with sign (-1)^crossings. R01c: "
    "_has_fully_contracted_contribution evaluated over all 729 counter "
    "vectors in {0,1,2}^6: it may answer False only if the creator/"
    "annihilator compatibility graph has no perfect matching. R01d: "
    "Rules.apply drops a term exactly under (name forbidden AND block "
    "forbidden) for some object and adds every other term once; wicks "
    "multiplies the commuting part back and routes every Mul result through "
    "rules.apply.")
ASSUMPTIONS = [
    "sympy's NO.doit(wicks=True)/expand and KroneckerDelta algebra are trusted",
    "decides structural clauses only; the value of the Wick expansion for "
    "every orbital assignment is not decided",
]

ZERO = Sym("Zero")
S = Rec("S", Zero=ZERO, NegativeOne=-1, One=1)


def _op(kind, space, spin="", tag=None):
    idx = Rec("Index", space=space, spin=spin, name=tag or space[0])
    classes = (kind, "FermionicOperator") if kind in ("F", "Fd") else (kind,)
    return Rec("op", _classes=classes, args=[idx],
               state=idx, kind=kind, idx=idx)


def _delta(i, a, kw):
    return Sym("delta", a)


def _index(i, n, a, kw):
    return Rec("FreshIndex", name=a[0] if a else None, kwargs=dict(kw),
               space=("virt" if kw.get("above_fermi") else
                      "occ" if kw.get("below_fermi") else "general"), spin="")


def _flatten_mul(v):
    if isinstance(v, Sym) and v.name == "Mul":
        out = []
        for a in v.args:
            out += _flatten_mul(a)
        return out
    return [v]


def r01a(ctx):
    fn = ctx.model.fn("func:_contraction")
    env = {"F": klass("F"), "Fd": klass("Fd"),
           "FermionicOperator": klass("FermionicOperator"), "S": S,
           "KroneckerDelta": lambda i, n, a, kw: Sym("delta", a),
           "Index": _index}
    spaces = ["occ", "virt", "general"]
    n = 0
    for kp, kq, sp, sq in itertools.product(["F", "Fd"], ["F", "Fd"], spaces, spaces):
        p, q = _op(kp, sp, tag="p"), _op(kq, sq, tag="q")
        kind, val = Interp(env, what="_contraction").call(fn, {"p": p, "q": q})
        n += 1
        label = f"({kp}_{sp}, {kq}_{sq})"
        # oracle
        if (kp, kq) == ("F", "Fd"):
            kill, fresh_kw = "occ", "above_fermi"
            keep = "virt"
        elif (kp, kq) == ("Fd", "F"):
            kill, fresh_kw = "virt", "below_fermi"
            keep = "occ"
        else:
            kill = None
        if kill is None or sp == kill or sq == kill:
            want = "zero"
        elif sp == keep or sq == keep:
            want = "delta"
        else:
            want = "delta*delta(fresh)"
        got = "?"
        if kind == "raise":
            got = f"raise {val}"
        elif val is ZERO:
            got = "zero"
        else:
            fs = _flatten_mul(val)
            ds = [f for f in fs if isinstance(f, Sym) and f.name == "delta"]
            if len(fs) == len(ds) == 1 and {id(x) for x in ds[0].args} == {id(p.idx), id(q.idx)}:
                got = "delta"
            elif len(fs) == len(ds) == 2:
                main = [d for d in ds if {id(x) for x in d.args} == {id(p.idx), id(q.idx)}]
                other = [d for d in ds if d not in main]
                if len(main) == 1 and len(other) == 1:
                    o = other[0].args
                    fresh = [x for x in o if isinstance(x, Rec) and x.tag == "FreshIndex"]
                    old = [x for x in o if x is p.idx or x is q.idx]
                    if len(fresh) == 1 and len(old) == 1:
                        kwf = {k for k, v in fresh[0].attrs["kwargs"].items() if v}
                        if kwf == {fresh_kw}:
                            got = "delta*delta(fresh)"
                        else:
                            got = f"delta*delta(fresh with {sorted(kwf)})"
            if got == "?":
                got = repr(val)
        ctx.check("R01a", fn, got == want,
                  f"{label} -> {got}", f"contraction table row {label}: code gives "
                  f"{got}, the Fermi-vacuum contraction is {want}",
                  key=f"row {label}")
    # spin-labelled operators must be refused, non-operators too
    for which in ("p", "q"):
        p = _op("F", "virt", spin="a" if which == "p" else "")
        q = _op("Fd", "virt", spin="a" if which == "q" else "")
        kind, val = Interp(env, what="_contraction").call(fn, {"p": p, "q": q})
        ctx.check("R01a", fn, kind == "raise" and val == "NotImplementedError",
                  f"spin on {which} refused", f"operator with spin on {which} is "
                  f"not refused ({kind} {val})", key=f"spin {which}")
    for which in ("p", "q"):
        p = _op("F" if which == "q" else "Other", "virt")
        q = _op("Fd" if which == "p" else "Other", "virt")
        kind, val = Interp(env, what="_contraction").call(fn, {"p": p, "q": q})
        ctx.check("R01a", fn, kind == "raise", f"non-operator {which} refused",
                  f"non fermionic operator {which} accepted", key=f"nonop {which}")
    return n


# ------------------------------------------------------------------ R01b


def _expand(v):
    """symbolic result -> list of (sign, tuple of pairs)"""
    if v is ZERO or v == 0:
        return []
    if isinstance(v, int):
        return [(v, ())]
    if isinstance(v, Sym):
        if v.name == "c":
            return [(1, (v.args,))]
        if v.name == "Add":
            out = []
            for a in v.args:
                out += _expand(a)
            return out
        if v.name == "Mul":
            out = [(1, ())]
            for a in v.args:
                ea = _expand(a)
                out = [(s1 * s2, p1 + p2) for s1, p1 in out for s2, p2 in ea]
            return out
    raise AnalysisError(f"R01b: unexpected symbolic shape {v!r}")


def _pairings(items):
    if not items:
        yield ()
        return
    a = items[0]
    for k in range(1, len(items)):
        rest = items[1:k] + items[k + 1:]
        for p in _pairings(rest):
            yield ((a, items[k]),) + p


def _crossings(pairs):
    c = 0
    for (a, b), (x, y) in itertools.combinations(pairs, 2):
        if a < x < b < y or x < a < y < b:
            c += 1
    return c


def r01b(ctx):
    fn = ctx.model.fn("func:_contract_operator_string")
    sizes = [2, 4, 6] if ctx.tier == "quick" else [2, 4, 6, 8]

    def run(ops, zero_pairs=frozenset()):
        def contraction(i, n, a, kw):
            x, y = a
            if (x.attrs["pos"], y.attrs["pos"]) in zero_pairs:
                return ZERO
            return Sym("c", (x.attrs["pos"], y.attrs["pos"]))

        def recurse(i, n, a, kw):
            kind, val = Interp(env, what="_contract_operator_string").call(
                fn, {"op_string": a[0]})
            if kind == "raise":
                raise AnalysisError(f"R01b: recursion raised {val}")
            return val

        def add(i, n, a, kw):
            return Sym("Add", a) if a else ZERO
        env = {"_has_fully_contracted_contribution": lambda i, n, a, kw: True,
               "_contraction": contraction, "S": S, "Add": add,
               "_contract_operator_string": recurse}
        kind, val = Interp(env, what="_contract_operator_string").call(
            fn, {"op_string": ops})
        if kind == "raise":
            raise AnalysisError(f"R01b: evaluation raised {val}")
        return val

    for n in sizes:
        ops = [Rec("op", pos=k) for k in range(n)]
        got = sorted((tuple(sorted(p)), s) for s, p in _expand(run(ops)))
        want = sorted((tuple(sorted(p)), (-1) ** _crossings(p))
                      for p in _pairings(list(range(n))))
        ok = got == want
        reason = ""
        if not ok:
            gd, wd = dict(got), dict(want)
            if len(got) != len(set(p for p, _ in got)):
                reason = "a complete pairing is produced more than once"
            elif set(gd) != set(wd):
                miss = sorted(set(wd) - set(gd))[:2]
                extra = sorted(set(gd) - set(wd))[:2]
                reason = f"pairings missing {miss} / spurious {extra}"
            else:
                bad = [p for p in wd if gd[p] != wd[p]][:2]
                reason = f"wrong sign for pairing(s) {bad} (sign must be (-1)^crossings)"
        ctx.check("R01b", fn, ok, f"n={n}: {len(want)} complete pairings, each once, "
                  "sign (-1)^crossings", f"n={n}: {reason}", key=f"pairings n={n}")
    # the same operator may occur several times in a string (equal objects at different positions):
    # the bookkeeping must go by position, not by value
    for labels in (["A", "B", "A", "B"], ["A", "A", "B", "B", "A", "B"]):
        ops = [Rec("op", pos=k, _eqkey=lab) for k, lab in enumerate(labels)]
        n = len(labels)
        got = sorted((tuple(sorted(p)), s) for s, p in _expand(run(ops)))
        want = sorted((tuple(sorted(p)), (-1) ** _crossings(p)) for p in _pairings(list(range(n))))
        ctx.check("R01b", fn, got == want, f"repeated operators {labels}: pairings by position",
                  f"operator string with repeated (equal) operators {labels}: complete pairings are "
                  f"{[p for p, _ in got][:4]}..., expected every pairing of positions once", key=f"repeated {''.join(labels)}")
    # a vanishing contraction must remove exactly the pairings containing it
    ops = [Rec("op", pos=k) for k in range(4)]
    got = sorted(tuple(sorted(p)) for s, p in _expand(run(ops, frozenset({(0, 2)}))))
    want = sorted(tuple(sorted(p)) for p in _pairings([0, 1, 2, 3]) if (0, 2) not in p)
    ctx.check("R01b", fn, got == want, "zero contraction (0,2) removes exactly its pairings",
              f"with contraction(0,2)=0 the result has pairings {got}, expected {want}",
              key="zero skip")
    # the prefilter answer False must give zero, and the prefilter is consulted
    uses = [c for c in calls_in(fn) if call_name(c) == "_has_fully_contracted_contribution"]
    ctx.check("R01b", fn, len(uses) >= 1, "prefilter consulted",
              "prefilter _has_fully_contracted_contribution no longer consulted",
              key="prefilter use")


# ------------------------------------------------------------------ R01c


def _indices_base(ctx):
    cls = ctx.model.cls("indices:Indices")
    for s in cls.body:
        if isinstance(s, ast.Assign) and any(U(t) == "base" for t in s.targets):
            try:
                d = ast.literal_eval(s.value)
            except Exception:
                raise AnalysisError("Indices.base is not a literal dict")
            return d
    raise AnalysisError("Indices.base not found")


def _has_matching(creators, annihilators):
    if len(creators) != len(annihilators):
        return False

    def compat(c, a):
        return c == a or c == "general" or a == "general"
    for perm in set(itertools.permutations(annihilators)):
        if all(compat(c, a) for c, a in zip(creators, perm)):
            return True
    return False


def r01c(ctx):
    fn = ctx.model.fn("func:_has_fully_contracted_contribution")
    base = _indices_base(ctx)
    ctx.check("R01c", ctx.model.cls("indices:Indices"),
              set(base) == {"occ", "virt", "general"},
              "Indices.base has the three spaces", f"Indices.base keys {sorted(base)}",
              key="base keys")
    env = {"Fd": klass("Fd"), "F": klass("F"),
           "Indices": Rec("Indices", base=base)}
    spaces = ["occ", "virt", "general"]
    bad = 0
    n = 0
    for counts in itertools.product(range(3), repeat=6):
        creators = sum(([s] * c for s, c in zip(spaces, counts[:3])), [])
        annihilators = sum(([s] * c for s, c in zip(spaces, counts[3:])), [])
        ops = [_op("Fd", s) for s in creators] + [_op("F", s) for s in annihilators]
        kind, val = Interp(env, what="_has_fully_contracted_contribution").call(
            fn, {"op_string": ops})
        n += 1
        if kind == "raise":
            raise AnalysisError(f"R01c: prefilter raised {val} on {counts}")
        if not val and _has_matching(creators, annihilators):
            bad += 1
            if bad <= 3:
                ctx.bad("R01c", fn, "prefilter answers False although creators "
                        f"{creators} and annihilators {annihilators} admit a complete "
                        "contraction", key=f"counts {counts}")
        else:
            ctx.ok("R01c", fn, f"counts {counts}: answer {bool(val)} sound")
    # reversed order of the string must not matter for a counting filter
    return n


# ------------------------------------------------------------------ R01d


def r01d(ctx):
    fn = ctx.model.fn("rules:Rules.apply")
    loops = [n for n in walk_fn(fn, nested=False) if isinstance(n, ast.For)]
    loops = [l for l in loops if U(l.iter).endswith(".terms")]
    ctx.floor("R01d", "term loops in Rules.apply", len(loops), 1)
    loop = loops[0]
    term = U(loop.target)
    res, drops = common.loop_conservation(ctx, "R01d", fn, loop, term)
    defs = Defs(fn)
    from ..pathcond import atoms

    def forbidden_test(guard):
        """`any(obj.name in FB and obj.space in FB[obj.name] for obj in term.objects)`"""
        guard = defs.resolve(guard)
        if not (isinstance(guard, ast.Call) and call_name(guard) == "any" and guard.args
                and isinstance(guard.args[0], (ast.GeneratorExp, ast.ListComp))):
            return False
        g = guard.args[0]
        gen = g.generators[0]
        obj = U(gen.target)
        if not (U(gen.iter) == f"{term}.objects" and not gen.ifs and len(g.generators) == 1):
            return False
        at = set(atoms(g.elt, True))
        fb = None
        for t, pol in at:
            if t.startswith(f"{obj}.name in ") and pol:
                fb = t[len(f"{obj}.name in "):]
        need = {(f"{obj}.name in {fb}", True), (f"{obj}.space in {fb}[{obj}.name]", True)}
        return fb is not None and at == need

    def path_is(p, pol):
        # the decisions of the path amount to `forbidden == pol`
        ds = []
        for t, q in p.decisions:
            while isinstance(t, ast.UnaryOp) and isinstance(t.op, ast.Not):
                t, q = t.operand, not q
            ds.append((t, q))
        return len(ds) == 1 and ds[0][1] == pol and forbidden_test(ds[0][0])
    ctx.floor("R01d", "drop paths in Rules.apply", len(drops), 1)
    for p in drops:
        ctx.check("R01d", p.exit_node or loop, path_is(p, True),
                  "term dropped iff an object has a forbidden (name, block)",
                  f"a term is dropped on path [{common.path_desc(p)}]; the only admissible drop "
                  "condition is: some object has its name in the forbidden dict AND its block "
                  "in the forbidden list of that name", key="drop condition")
    adds = [p for p in common.enum_paths(loop.body, common.acc_event(term)) if len(p.events) == 1]
    for p in adds:
        ctx.check("R01d", loop, path_is(p, False), "term kept iff no object is forbidden",
                  f"a term is kept on path [{common.path_desc(p)}] which is not the negation of "
                  "the forbidden-block test", key="keep condition")
    rets = [n for n in walk_fn(fn, nested=False) if isinstance(n, ast.Return)]
    # empty rules: identity
    empties = [r for r in rets if ("self.is_empty", True) in conditions(r)]
    for r in empties:
        ctx.check("R01d", r, U(r.value) == U(fn.args.args[1].arg), "empty rules return the input",
                  "empty rules do not return the input expression", key="empty rules")
    last = rets[-1]
    ctx.check("R01d", last, res is not None and U(last.value) == res,
              "accumulator returned", "the accumulator is not what is returned",
              key="return acc")
    ie = ctx.model.fn("rules:Rules.is_empty")
    r = [n for n in walk_fn(ie) if isinstance(n, ast.Return)]
    ctx.check("R01d", ie, len(r) == 1 and U(r[0].value) in (
        "not bool(self._forbidden_blocks)", "not self._forbidden_blocks"),
        "is_empty == no forbidden blocks", f"is_empty returns `{U(r[0].value) if r else None}`",
        key="is_empty")

    # ---- wicks
    w = ctx.model.fn("func:wicks")
    rets = [n for n in walk_fn(w, nested=False) if isinstance(n, ast.Return)]
    apply_calls = [c for c in calls_in(w) if U(c.func) == "rules.apply"]
    ctx.check("R01d", w, len(apply_calls) == 1 and isinstance(apply_calls[0]._parent, (ast.Attribute, ast.Return)),
              "rules.apply(Expr(result)) is the final return", "rules.apply is not applied to the result",
              key="apply call")
    if apply_calls:
        c = apply_calls[0]
        arg = c.args[0] if c.args else None
        ctx.check("R01d", c, arg is not None and isinstance(arg, ast.Call)
                  and call_name(arg) == "Expr" and U(arg.args[0]) == "result",
                  "rules applied to `result`", f"rules applied to `{U(arg)}`", key="apply arg")
        cs = conditions(c)
        ctx.check("R01d", c, ("rules is None", False) in cs, "apply reached only when rules given",
                  "rules.apply not dominated by `rules is not None`", key="apply guard")
    for r in rets:
        v = U(r.value)
        kind = None
        if v == "S.Zero":
            kind = "zero"
        elif v == "result" and ("rules is None", True) in conditions(r):
            kind = "no rules"
        elif "rules.apply(" in v:
            kind = "rules applied"
        elif isinstance(r.value, ast.Call) and call_name(r.value) == "Add" and "wicks(" in v:
            kind = "sum of recursive results"
        ctx.check("R01d", r, kind is not None, f"return: {kind}",
                  f"`return {v}` leaves wicks without passing the block-exclusion rules (only zero, the recursive sum, and the "
                  "result without rules may bypass rules.apply)", key=f"return {v[:40]}")
    # rules is None -> return result
    for r in rets:
        cs = conditions(r)
        if ("rules is None", True) in cs:
            ctx.check("R01d", r, U(r.value) == "result", "no rules: result returned unchanged",
                      f"no rules: returns `{U(r.value)}`", key="no rules")
    # commuting part split and multiplication back
    appends = [c for c in calls_in(w) if call_name(c) == "append"]
    cpart = [c for c in appends if U(c.func.value) == "c_part"]
    ops = [c for c in appends if U(c.func.value) == "op_string"]
    ctx.floor("R01d", "c_part/op_string appends in wicks", len(cpart) + len(ops), 2)
    for c in cpart:
        a = U(c.args[0])
        ctx.check("R01d", c, (f"{a}.is_commutative", True) in conditions(c),
                  "commuting factors go to c_part", "c_part receives a factor not known to commute",
                  key="c_part guard")
    for c in ops:
        a = U(c.args[0])
        ctx.check("R01d", c, (f"{a}.is_commutative", False) in conditions(c),
                  "non-commuting factors go to op_string", "op_string receives a commuting factor",
                  key="op_string guard")
    contr = [c for c in calls_in(w) if call_name(c) == "_contract_operator_string"]
    ctx.floor("R01d", "_contract_operator_string calls in wicks", len(contr), 1)
    for c in contr:
        ctx.check("R01d", c, U(c.args[0]) == "op_string", "whole operator string contracted",
                  f"contracts `{U(c.args[0])}`", key="contract arg")
    # result = (Mul(*c_part) * result)
    mulback = [n for n in walk_fn(w) if isinstance(n, ast.BinOp) and isinstance(n.op, ast.Mult)
               and {U(n.left), U(n.right)} == {"Mul(*c_part)", "result"}]
    ctx.check("R01d", w, len(mulback) == 1, "commuting part multiplied back once",
              "commuting part is not multiplied back onto the contraction result",
              key="mulback")
    # single operator / NO / FermionicOperator -> zero ; Add branch maps over args
    z = [r for r in rets if U(r.value) == "S.Zero"]
    ok_n1 = any(("n == 1", True) in conditions(r) or ("len(op_string) == 1", True) in conditions(r)
                for r in z)
    ctx.check("R01d", w, ok_n1, "single operator gives zero", "single-operator branch missing",
              key="single op")
    addret = [r for r in rets if ("isinstance(expr, Add)", True) in conditions(r)]
    ok = False
    for r in addret:
        v = r.value
        if isinstance(v, ast.Call) and call_name(v) == "Add" and v.args and isinstance(v.args[0], ast.Starred):
            g = v.args[0].value
            if isinstance(g, (ast.ListComp, ast.GeneratorExp)) and U(g.generators[0].iter) == "expr.args" \
                    and not g.generators[0].ifs and isinstance(g.elt, ast.Call) and call_name(g.elt) == "wicks":
                t = U(g.generators[0].target)
                e = g.elt
                ok = (U(e.args[0]) == t and U(kwarg(e, "rules", 1)) == "rules"
                      and U(kwarg(e, "simplify_kronecker_deltas", 2)) == "simplify_kronecker_deltas")
    ctx.check("R01d", w, ok, "Add: wicks of every argument with the same rules/flags",
              "Add branch does not map wicks(term, rules, simplify flag) over all args",
              key="add branch")
    # delta evaluation only on request, on the result
    ev = [c for c in calls_in(w) if call_name(c) == "evaluate_deltas"]
    for c in ev:
        ctx.check("R01d", c, ("simplify_kronecker_deltas", True) in conditions(c)
                  and U(c.args[0]) == "result" and len(c.args) + len(c.keywords) == 1,
                  "deltas evaluated only on request, Einstein targets",
                  "evaluate_deltas call not guarded by the flag or with wrong arguments",
                  key="delta flag")


def run(ctx):
    if ctx.want("R01a"):
        r01a(ctx)
    if ctx.want("R01b"):
        r01b(ctx)
    if ctx.want("R01c"):
        r01c(ctx)
    if ctx.want("R01d"):
        r01d(ctx)
