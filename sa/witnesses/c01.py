F = "func.py"
WITNESSES = [
    dict(id="c01-table-general", prop="C01", file=F, expect="R01a",
         old="""        elif space_p == "v" or space_q == "v":
            return KroneckerDelta(p_idx, q_idx)
        else:
            return (KroneckerDelta(p_idx, q_idx) *
                    KroneckerDelta(q_idx, Index('a', above_fermi=True)))""",
         new="""        else:
            return KroneckerDelta(p_idx, q_idx)"""),
    dict(id="c01-table-swap-fermi", prop="C01", file=F, expect="R01a",
         old="KroneckerDelta(q_idx, Index('i', below_fermi=True))",
         new="KroneckerDelta(q_idx, Index('i', above_fermi=True))"),
    dict(id="c01-table-and", prop="C01", file=F, expect="R01a",
         old="""        if space_p == "v" or space_q == "v":
            return S.Zero""",
         new="""        if space_p == "v" and space_q == "v":
            return S.Zero"""),
    dict(id="c01-spin-guard", prop="C01", file=F, expect="R01a",
         old="if p.state.spin or q.state.spin:", new="if p.state.spin and q.state.spin:"),
    dict(id="c01-sign-inverted", prop="C01", file=F, expect="R01b",
         old="if not i % 2:  # introduce", new="if i % 2:  # introduce"),
    dict(id="c01-remaining-off", prop="C01", file=F, expect="R01b",
         old="remaining = op_string[1:i] + op_string[i+1:]",
         new="remaining = op_string[1:i] + op_string[i:]"),
    dict(id="c01-range-short", prop="C01", file=F, expect="R01b",
         old="for i in range(1, len(op_string)):", new="for i in range(1, len(op_string) - 1):"),
    dict(id="c01-prefilter-general", prop="C01", file=F, expect="R01c",
         old='n_annihilate = annihilate[space] + annihilate["general"]',
         new='n_annihilate = annihilate[space]'),
    dict(id="c01-prefilter-ge", prop="C01", file=F, expect="R01c",
         old="if n_create - n_annihilate > 0:", new="if n_create - n_annihilate >= 0:"),
    dict(id="c01-rules-name-only", prop="C01", file="rules.py", expect="R01d",
         old="""            if any(obj.name in self._forbidden_blocks
                   and obj.space in self._forbidden_blocks[obj.name]
                   for obj in term.objects):""",
         new="""            if any(obj.name in self._forbidden_blocks
                   for obj in term.objects):"""),
    dict(id="c01-rules-all", prop="C01", file="rules.py", expect="R01d",
         old="            if any(obj.name in self._forbidden_blocks", new="            if all(obj.name in self._forbidden_blocks"),
    dict(id="c01-wicks-cpart-dropped", prop="C01", file=F, expect="R01d",
         old="result = (Mul(*c_part) * result).expand()", new="result = result.expand()"),
    dict(id="c01-f11-revert", prop="C01", file=F, expect="R01d",
         old="    else:  # neither add, Mul, NO or Operator -> maybe a number or a tensor\n        result = expr",
         new="    else:  # neither add, Mul, NO or Operator -> maybe a number or a tensor\n        return expr"),
    dict(id="c01-remove-by-value", prop="C01", file=F, expect="R01b",
         old="            remaining = op_string[1:i] + op_string[i+1:]",
         new="            remaining = list(op_string[1:])\n            remaining.remove(op_string[i])"),
    # behaviour preserving
    dict(id="c01-ok-rename", prop="C01", file=F, expect=None,
         old="""        c = _contraction(op_string[0], op_string[i])
        if c is S.Zero:
            continue
        if not i % 2:  # introduce -1 for swapping operators
            c *= S.NegativeOne""",
         new="""        contr = _contraction(op_string[0], op_string[i])
        if contr is S.Zero:
            continue
        if i % 2 == 0:
            contr = contr * S.NegativeOne
        c = contr"""),
    dict(id="c01-ok-table-reorder", prop="C01", file=F, expect=None,
         old="""        if space_p == "o" or space_q == "o":
            return S.Zero
        elif space_p == "v" or space_q == "v":
            return KroneckerDelta(p_idx, q_idx)""",
         new="""        if "o" in (space_p, space_q):
            return S.Zero
        elif space_q == "v" or space_p == "v":
            return KroneckerDelta(q_idx, p_idx)"""),
    dict(id="c01-ok-rules-loop", prop="C01", file="rules.py", expect=None,
         old="""            if any(obj.name in self._forbidden_blocks
                   and obj.space in self._forbidden_blocks[obj.name]
                   for obj in term.objects):
                continue
            res += term""",
         new="""            forbidden = any(obj.name in self._forbidden_blocks
                            and obj.space in self._forbidden_blocks[obj.name]
                            for obj in term.objects)
            if not forbidden:
                res += term"""),
]
