"""
C19 / defect 1: the text of a simplified result depends on the state of the
global generic-index counters, i.e. on unrelated requests that preceded it.

Run from the worktree root:  /venv/bin/python hunt_out/1/demo.py
exit code 1: the text of the same request differs between call histories
exit code 0: all call histories give the same text
"""
import os
import subprocess
import sys

CHILD = r'''
import sys
import adcgen
from adcgen import (Operators, GroundState, IntermediateStates,
                    SecularMatrix, Expr, Indices)
assert adcgen.__file__.startswith(sys.argv[2]), adcgen.__file__

op = Operators("mp")
gs = GroundState(op)
isr = IntermediateStates(gs, "ip")
m = SecularMatrix(isr)

history = sys.argv[1]
if history == "psi":        # an unrelated wavefunction was requested before
    gs.psi(1, "ket")
elif history == "indices":  # some generic indices were requested before
    Indices().get_generic_indices(occ=3, virt=3)

# the request: 2nd order contribution to the IP-ADC h/h secular matrix block
res = Expr(m.isr_matrix_block(2, "h,h", "i,j"))
# rename the contracted indices to the lowest available names
res.substitute_contracted()
for line in sorted(str(t.sympy) for t in res.terms):
    print(line)
'''

root = os.getcwd()
env = dict(os.environ, PYTHONHASHSEED="0", ADCGEN_LOG_LEVEL="ERROR",
           PYTHONPATH=root)
texts = {}
for history in ("none", "psi", "indices"):
    out = subprocess.run([sys.executable, "-c", CHILD, history, root],
                         capture_output=True, text=True, env=env, cwd=root)
    if out.returncode:
        print(out.stderr)
        sys.exit(2)
    texts[history] = out.stdout.splitlines()

ref = texts["none"]
failed = False
for history, text in texts.items():
    if text == ref:
        print(f"history {history!r}: {len(text)} terms, same text as "
              "without history")
        continue
    failed = True
    print(f"history {history!r}: {len(text)} terms, TEXT DIFFERS from the "
          "run without history:")
    for line in sorted(set(ref) - set(text)):
        print("   only without history:", line)
    for line in sorted(set(text) - set(ref)):
        print(f"   only with history {history!r}:", line)
if failed:
    print("FAIL: m.isr_matrix_block(2, 'h,h', 'i,j') has a different text "
          "(after substitute_contracted) depending on what was requested "
          "before.")
    sys.exit(1)
print("OK: the text does not depend on the call history.")
sys.exit(0)
