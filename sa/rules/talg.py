"""A small exact tensor algebra: the value domain of the C14 rules.

Nothing of the analysed library is executed.  The classes of
adcgen/sympy_objects.py and the container semantics of adcgen/expr_container.py
that remove_tensor / derivative rely on are *modelled* here from their
documented behaviour:

  index          (name, spin); the space follows from the first letter
  tensor         AntiSymmetricTensor / Amplitude (upper, lower sorted with the
                 sign of the permutation, zero for a repeated index in one
                 group), SymmetricTensor (sorted, no sign), bra-ket symmetry
                 +-1 (canonical group first, sign for -1), NonSymmetricTensor
  delta          KroneckerDelta (1 for equal indices, 0 across occ/virt or
                 alpha/beta, sorted arguments, idempotent)
  polynomial     sum of rational multiples of monomials (commuting factors
                 with integer exponents, square roots of integers)

Index permutations act simultaneously on all factors and re-canonicalise every
tensor, which is where signs and vanishing terms come from.
"""
from __future__ import annotations

import itertools
from fractions import Fraction

SPACES = {"occ": "ijklmno", "virt": "abcdefgh", "general": "pqrstuvw"}


class ModelError(Exception):
    """The modelled library would raise ``name``."""

    def __init__(self, name, msg=""):
        super().__init__(f"{name}: {msg}")
        self.name = name


def space_of(name: str) -> str:
    for sp, letters in SPACES.items():
        if name[0] in letters:
            return sp
    raise ModelError("Inputerror", f"no space for index {name}")


def ix(name, spin=""):
    return (name, spin)


def ix_key(i):
    name, spin = i
    return (space_of(name)[0], spin, int(name[1:]) if name[1:] else 0, name[0])


def space_and_spin(i):
    return (space_of(i[0]), i[1])


def lowest_avail(n, used, space):
    """The n lowest names of ``space`` that are not in ``used`` (i, j, ..., i1, j1, ...)."""
    base = SPACES[space]
    pool = list(base)
    suffix = 1
    while len(pool) < len(used) + n:
        pool.extend(s + str(suffix) for s in base)
        suffix += 1
    return [s for s in pool if s not in used][:n]


# ------------------------------------------------------------------ factors

TENSOR_CLASSES = ("AntiSymmetricTensor", "Amplitude", "SymmetricTensor")


def _sort_sign(seq):
    """(sorted list, number of transpositions) or None if an element occurs twice."""
    lst = list(seq)
    swaps = 0
    keys = [ix_key(x) for x in lst]
    if len(set(keys)) != len(keys):
        return None
    for i in range(len(lst)):
        for j in range(len(lst) - 1 - i):
            if ix_key(lst[j]) > ix_key(lst[j + 1]):
                lst[j], lst[j + 1] = lst[j + 1], lst[j]
                swaps += 1
    return lst, swaps


def _need_bra_ket_swap(upper, lower):
    if len(upper) != len(lower):
        raise ModelError("NotImplementedError", "bra-ket symmetry needs as many upper as lower indices")
    su, sl = [space_of(s[0])[0] for s in upper], [space_of(s[0])[0] for s in lower]
    if sl < su:
        return True
    if sl == su:
        pu, pl = [s[1] for s in upper], [s[1] for s in lower]
        if pl < pu:
            return True
        if pl == pu:
            nm = lambda s: (int(s[0][1:]) if s[0][1:] else 0, s[0][0])
            if [nm(s) for s in lower] < [nm(s) for s in upper]:
                return True
    return False


def mk_tensor(cls, name, upper, lower, bks=0):
    """(sign, factor); sign 0 means the tensor vanishes."""
    if cls not in TENSOR_CLASSES:
        raise ModelError("TypeError", f"unknown tensor class {cls}")
    if bks not in (0, 1, -1):
        raise ModelError("Inputerror", f"invalid bra-ket symmetry {bks}")
    sign = 1
    if cls == "SymmetricTensor":
        upper, lower = sorted(upper, key=ix_key), sorted(lower, key=ix_key)
    else:
        u, l = _sort_sign(upper), _sort_sign(lower)
        if u is None or l is None:
            return 0, None
        upper, lower = u[0], l[0]
        if (u[1] + l[1]) % 2:
            sign = -1
    if bks != 0 and _need_bra_ket_swap(upper, lower):
        upper, lower = lower, upper
        if bks == -1:
            sign = -sign
    return sign, ("A", cls, name, tuple(upper), tuple(lower), bks)


def mk_nonsym(name, idx):
    return 1, ("N", name, tuple(idx))


def mk_delta(i, j):
    """(value, factor): value 1 with factor None is the number one."""
    if i == j:
        return 1, None
    si, sj = space_of(i[0])[0], space_of(j[0])[0]
    if si != "g" and sj != "g" and si != sj:
        return 0, None
    if i[1] and j[1] and i[1] != j[1]:
        return 0, None
    a, b = sorted((i, j), key=ix_key)
    return 1, ("D", a, b)


def factor_idx(f):
    """Indices of a factor in the order the library lists them (Amplitude: lower first)."""
    if f[0] == "A":
        return f[4] + f[3] if f[1] == "Amplitude" else f[3] + f[4]
    if f[0] == "N":
        return f[2]
    if f[0] == "D":
        return (f[1], f[2])
    if f[0] == "P":
        # Polynom.idx: the indices of all terms of the polynomial (with multiplicity), sorted canonically
        inner = Poly(dict(f[1]))
        out = []
        for m, _ in inner.monos():
            for s, n in idx_counter(m):
                out.extend([s] * (n + 1))
        return tuple(sorted(out, key=ix_key))
    return ()


def factor_name(f):
    if f[0] == "A":
        return f[2]
    if f[0] == "N":
        return f[1]
    return None


def is_tensor(f):
    return f[0] in ("A", "N")


# --------------------------------------------------------------- polynomials

def _norm_mono(d):
    """dict factor -> exponent  ->  (rational coefficient, canonical monomial)."""
    c = Fraction(1)
    out = {}
    for f, e in d.items():
        if e == 0:
            continue
        if f[0] == "D":
            if e < 0:
                raise ModelError("ModelLimit", "negative power of a delta")
            e = 1
        if f[0] == "S":
            q, e = divmod(e, 2)
            c *= Fraction(f[1]) ** q
            if e == 0:
                continue
        out[f] = e
    return c, tuple(sorted(out.items()))


class Poly:
    """Immutable polynomial: monomial -> Fraction."""
    __slots__ = ("t", "_h")

    def __init__(self, t=None):
        self.t = {m: c for m, c in (t or {}).items() if c != 0}
        self._h = None

    # construction
    @staticmethod
    def num(c):
        return Poly({(): Fraction(c)})

    @staticmethod
    def factor(f, e=1, c=1):
        k, m = _norm_mono({f: e})
        return Poly({m: Fraction(c) * k})

    @staticmethod
    def sqrt(n, e=1):
        """sqrt(n)**e for a positive integer n."""
        out = Poly.num(1)
        p = 2
        while n > 1:
            k = 0
            while n % p == 0:
                n //= p
                k += 1
            if k:
                out = out * Poly.num(Fraction(p) ** ((k // 2) * e))
                if k % 2:
                    out = out * Poly.factor(("S", p), e)
            p += 1
        return out

    @staticmethod
    def unexpanded(p, e=1):
        """The polynomial p kept as ONE factor (p)**e of a product (a sympy Add / Pow(Add, e) inside a Mul)."""
        if len(p.t) < 2:
            return p ** e
        return Poly.factor(("P", tuple(sorted(p.t.items()))), e)

    def expand(self):
        """sympy's expand(): positive powers of polynomial factors are multiplied out (recursively), a polynomial
        denominator (p)**-1 stays one factor."""
        out = Poly()
        for m, c in self.t.items():
            q = Poly.num(c)
            for f, e in m:
                if f[0] == "P":
                    inner = Poly(dict(f[1])).expand()
                    if e > 0:
                        q = q * (inner ** e)
                    elif e == -1:
                        q = q * Poly.unexpanded(inner, e)
                    else:
                        raise ModelError("ModelLimit", "power of a polynomial denominator")
                else:
                    q = q * Poly.factor(f, e)
            out = out + q
        return out

    def has_unexpanded(self):
        return any(f[0] == "P" for m in self.t for f, _ in m)

    def tensors_inside(self):
        """All tensor factors (bases), also those inside polynomial factors."""
        out = set()
        for m in self.t:
            for f, _ in m:
                if f[0] in ("A", "N"):
                    out.add(f)
                elif f[0] == "P":
                    out |= Poly(dict(f[1])).tensors_inside()
        return out

    # algebra
    def __add__(self, o):
        t = dict(self.t)
        for m, c in o.t.items():
            t[m] = t.get(m, 0) + c
        return Poly(t)

    def __neg__(self):
        return Poly({m: -c for m, c in self.t.items()})

    def __sub__(self, o):
        return self + (-o)

    def __mul__(self, o):
        if not isinstance(o, Poly):
            o = Poly.num(o)
        t = {}
        for m1, c1 in self.t.items():
            for m2, c2 in o.t.items():
                d = dict(m1)
                for f, e in m2:
                    d[f] = d.get(f, 0) + e
                k, m = _norm_mono(d)
                t[m] = t.get(m, 0) + c1 * c2 * k
        return Poly(t)

    __rmul__ = __mul__

    def __pow__(self, n):
        if not isinstance(n, int):
            raise ModelError("ModelLimit", f"exponent {n}")
        if n < 0:
            if len(self.t) != 1:
                raise ModelError("ModelLimit", "negative power of a sum")
            (m, c), = self.t.items()
            k, m2 = _norm_mono({f: e * n for f, e in m})
            return Poly({m2: k * Fraction(c) ** n})
        r = Poly.num(1)
        for _ in range(n):
            r = r * self
        return r

    def __eq__(self, o):
        return isinstance(o, Poly) and self.t == o.t

    def __ne__(self, o):
        return not self.__eq__(o)

    def __hash__(self):
        if self._h is None:
            self._h = hash(tuple(sorted(self.t.items())))
        return self._h

    def is_zero(self):
        return not self.t

    def is_number(self):
        return all(m == () for m in self.t)

    def number(self):
        return self.t.get((), Fraction(0))

    def monos(self):
        """Terms in a fixed canonical order: [(monomial, coefficient)]."""
        return sorted(self.t.items())

    def terms(self):
        return [Poly({m: c}) for m, c in self.monos()]

    def __repr__(self):
        if not self.t:
            return "0"
        return " + ".join(f"{c}*{show_mono(m)}" if m else str(c) for m, c in self.monos())

    # index manipulation
    def subst(self, f):
        """Simultaneous index substitution ``f(index) -> index``; every tensor is re-canonicalised."""
        out = Poly()
        for m, c in self.t.items():
            p = Poly.num(c)
            for fac, e in m:
                r = rebuild(fac, f)
                if r.is_zero() and e < 0:
                    raise ModelError("ZeroDivisionError", "vanishing denominator")
                p = p * (r ** e)
                if p.is_zero():
                    break
            out = out + p
        return out

    def permute(self, perms):
        """Transpositions [(p, q), ...] applied one after another."""
        perms = list(perms)
        if not perms:
            return self

        def f(i):
            for p, q in perms:
                i = q if i == p else p if i == q else i
            return i
        return self.subst(f)

    def indices(self):
        out = []
        for m, _ in self.monos():
            for fac, e in m:
                out.extend(factor_idx(fac))
        return out

    # placeholder symbol
    def diff(self, x):
        out = Poly()
        for m, c in self.t.items():
            d = dict(m)
            n = d.get(x, 0)
            if n == 0:
                continue
            d[x] = n - 1
            k, m2 = _norm_mono(d)
            out = out + Poly({m2: c * n * k})
        return out

    def subs_symbol(self, x, val):
        out = Poly()
        for m, c in self.t.items():
            d = dict(m)
            n = d.pop(x, 0)
            k, m2 = _norm_mono(d)
            out = out + Poly({m2: c * k}) * (val ** n)
        return out


def rebuild(fac, f):
    """Polynomial of one factor after the index map f."""
    if fac[0] == "A":
        s, g = mk_tensor(fac[1], fac[2], [f(i) for i in fac[3]], [f(i) for i in fac[4]], fac[5])
        return Poly.factor(g, 1, s) if s else Poly()
    if fac[0] == "N":
        return Poly.factor(("N", fac[1], tuple(f(i) for i in fac[2])))
    if fac[0] == "D":
        v, g = mk_delta(f(fac[1]), f(fac[2]))
        return Poly.num(v) if g is None else Poly.factor(g)
    if fac[0] == "P":
        return Poly.unexpanded(Poly(dict(fac[1])).subst(f))
    return Poly.factor(fac)


def show_ix(i):
    return i[0] + ("_" + i[1] if i[1] else "")


def show_factor(f):
    if f[0] == "A":
        return f"{f[2]}^{{{','.join(map(show_ix, f[3]))}}}_{{{','.join(map(show_ix, f[4]))}}}"
    if f[0] == "N":
        return f"{f[1]}_{{{','.join(map(show_ix, f[2]))}}}"
    if f[0] == "D":
        return f"delta({show_ix(f[1])},{show_ix(f[2])})"
    if f[0] == "S":
        return f"sqrt({f[1]})"
    if f[0] == "P":
        return "(" + repr(Poly(dict(f[1]))) + ")"
    return str(f[1])


def show_mono(m):
    return " ".join(show_factor(f) + (f"**{e}" if e != 1 else "") for f, e in m)


# ------------------------------------------------------------ term structure

def mono_objects(m, c):
    """Objects of a term the way Term.objects lists them: the numeric prefactor (if not 1), then the factors."""
    out = []
    if c != 1 or not m:
        out.append(Poly.num(c))
    for f, e in m:
        out.append(Poly.factor(f, e))
    return out


def idx_counter(m):
    """[(index, n)] as Term._idx_counter: n = occurrences - 1, sorted canonically."""
    cnt = {}
    for f, e in m:
        n = abs(e)
        for s in factor_idx(f):
            cnt[s] = cnt[s] + n if s in cnt else n - 1
    return sorted(cnt.items(), key=lambda t: ix_key(t[0]))


def einstein_target(m):
    return tuple(s for s, n in idx_counter(m) if not n)


def decompose(sigma):
    """Transpositions whose successive application realises the bijection ``sigma`` (dict)."""
    rho = {k: v for k, v in sigma.items() if k != v}
    seq = []
    while rho:
        x = min(rho, key=ix_key)
        y = rho[x]
        seq.append((x, y))
        # rho' = rho o tau
        new = {}
        for k in set(rho) | {x, y}:
            tk = y if k == x else x if k == y else k
            v = rho.get(tk, tk)
            if v != k:
                new[k] = v
        rho = new
    # verify
    for k, v in sigma.items():
        c = k
        for p, q in seq:
            c = q if c == p else p if c == q else c
        assert c == v, (sigma, seq)
    return tuple(seq)


def symmetry(p: Poly, indices=None):
    """All non-trivial index permutations within (space, spin) classes that map the one-term polynomial onto +-itself:
    [(transpositions, sign)] - the model of Term.symmetry()."""
    if p.is_zero() or p.is_number() or len(p.t) != 1:
        return []
    (m, c), = p.t.items()
    if c == 1 and len(m) == 1 and m[0][0][0] == "N" and m[0][1] == 1:
        return []
    if indices is None:
        indices = [s for s, _ in idx_counter(m)]
    classes = {}
    for s in indices:
        classes.setdefault(space_and_spin(s), [])
        if s not in classes[space_and_spin(s)]:
            classes[space_and_spin(s)].append(s)
    groups = [v for v in classes.values() if len(v) >= 2]
    out = []
    for combo in itertools.product(*[list(itertools.permutations(g)) for g in groups]):
        sigma = {}
        for g, img in zip(groups, combo):
            sigma.update(dict(zip(g, img)))
        if all(k == v for k, v in sigma.items()):
            continue
        q = p.subst(lambda i: sigma.get(i, i))
        if q == p:
            out.append((decompose(sigma), 1))
        elif q == -p:
            out.append((decompose(sigma), -1))
    return out


def minimize(indices, targets, mode="lowest"):
    """Model of minimize_tensor_indices: non-target indices get the lowest non-target names of their (space, spin) in
    order of first appearance; returns (indices, transpositions).  ``mode='reversed'`` hands the same names out in
    descending order: still a renaming by transpositions onto low non-target names, but the index groups of the tensor
    end up unsorted (what happens in the library whenever a target index stays on the tensor)."""
    cur = list(indices)
    n_unique = len(set(cur))
    pools = {}
    done = set()
    perms = []
    k = 0
    while k < len(cur):
        s = cur[k]
        k += 1
        if s in done:
            continue
        key = space_and_spin(s)
        tg = targets.get(key, ())
        if s[0] in tg:
            done.add(s)
            continue
        if key not in pools:
            pools[key] = [ix(n, key[1]) for n in lowest_avail(n_unique, list(tg), key[0])]
            if mode == "reversed":
                pools[key].reverse()
        low = pools[key].pop(0)
        done.add(low)
        if low == s:
            continue
        cur = [low if c == s else s if c == low else c for c in cur]
        perms.append((s, low))
    return tuple(cur), tuple(perms)


# ----------------------------------------------- equality of contractions

def eval_deltas(p: Poly, targets):
    """Every delta with a contracted (non-target) index is resolved by substitution."""
    targets = set(targets)
    out = Poly()
    for m, c in p.t.items():
        q = Poly({m: c})
        for _ in range(64):
            if q.is_zero():
                break
            (m2, c2), = q.t.items()
            hit = None
            for f, e in m2:
                if f[0] == "D":
                    if f[2] not in targets:
                        hit = (f, f[2], f[1])
                    elif f[1] not in targets:
                        hit = (f, f[1], f[2])
                    if hit:
                        break
            if hit is None:
                break
            f, old, new = hit
            rest = Poly({tuple(x for x in m2 if x[0] != f): c2})
            q = rest.subst(lambda i: new if i == old else i)
        out = out + q
    return out


def canon_dummies(p: Poly, targets):
    """Contracted indices renamed canonically (brute force over the renamings within each (space, spin) class)."""
    targets = set(targets)
    out = Poly()
    for m, c in p.t.items():
        q = Poly({m: c})
        dummies = {}
        for s, _ in idx_counter(m):
            if s not in targets:
                dummies.setdefault(space_and_spin(s), []).append(s)
        groups = list(dummies.values())
        n = 1
        for g in groups:
            n *= len(list(itertools.permutations(g)))
        if n > 200000:
            raise ModelError("ModelLimit", "too many dummy renamings")
        # canonical names: the lowest names of the class that are no target names
        pools = []
        for g in groups:
            key = space_and_spin(g[0])
            tn = [t[0] for t in targets if space_and_spin(t) == key]
            pools.append([ix(nm, key[1]) for nm in lowest_avail(len(g), tn, key[0])])
        best = None
        orbit = set()
        for combo in itertools.product(*[list(itertools.permutations(pl)) for pl in pools]):
            sigma = {}
            for g, img in zip(groups, combo):
                sigma.update(dict(zip(g, img)))
            r = q.subst(lambda i: sigma.get(i, i))
            orbit.add(r)
            k = repr(sorted(r.t.items()))
            if best is None or k < best[0]:
                best = (k, r)
        if best is not None and -best[1] in orbit:
            continue        # the contraction equals its own negative: it vanishes
        out = out + (best[1] if best else q)
    return out


def contraction_equal(p: Poly, q: Poly, targets):
    a = canon_dummies(eval_deltas(p.expand(), targets), targets)
    b = canon_dummies(eval_deltas(q.expand(), targets), targets)
    return a == b, a, b
