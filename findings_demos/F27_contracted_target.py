"""Pristine adcgen: factor_intermediates changes the value of an expression when
a contracted index of the intermediate definition is a TARGET index of the
expression.  R_k = -1/2 sum_{ijab} t_ikab t_jkab X_ij  (k fixed, not summed) is
returned as  p2^i_j X_ij  which sums over k.  Exit 1 if the values differ."""
import itertools as it
import math
import os
import random
import sys
from fractions import Fraction as Fr
os.environ.setdefault("ADCGEN_LOG_LEVEL", "ERROR")
sys.path.insert(0, os.getcwd())
from sympy import Add, Mul, Pow  # noqa E402
import adcgen  # noqa E402
from adcgen import Expr, Intermediates, factor_intermediates  # noqa E402
from adcgen.indices import Index, get_symbols  # noqa E402
from adcgen.sympy_objects import NonSymmetricTensor, SymbolicTensor  # noqa E402

NO, NV = 2, 3
N, O, VI = NO + NV, range(NO), range(NO, NO + NV)
RANGE = {'o': O, 'v': VI}
rnd = random.Random(1)
EPS = [Fr(-(2 * p + 3)) for p in O] + [Fr(3 * p + 2) for p in range(NV)]
V = {q: Fr(0) for q in it.product(range(N), repeat=4)}  # real <pq||rs>
for (p, q), (r, s) in it.combinations_with_replacement(
        list(it.combinations(range(N), 2)), 2):
    val = Fr(rnd.randint(-5, 5))
    for w, x, s1 in ((p, q, 1), (q, p, -1)):
        for y, z, s2 in ((r, s, 1), (s, r, -1)):
            V[w, x, y, z] = V[y, z, w, x] = s1 * s2 * val
X = {q: Fr(rnd.randint(-3, 3)) for q in it.product(O, O)}


def t(i, j, a, b):  # t2_1 = <ab||ij> / (e_a + e_b - e_i - e_j)
    return V[a, b, i, j] / (EPS[a] + EPS[b] - EPS[i] - EPS[j])


def p2(i, j):  # p0_2_oo = -1/2 sum_kab t_ikab t_jkab
    return -Fr(1, 2) * sum(t(i, k, a, b) * t(j, k, a, b)
                           for k in O for a in VI for b in VI)


def value(ex, asg):  # brute force value of a sympy expr for an assignment
    if ex.is_number:
        return Fr(int(ex.p), int(ex.q))
    if isinstance(ex, SymbolicTensor):
        orbs = tuple(asg[s] for s in ex.idx)
        return {'V': lambda: V[orbs], 'e': lambda: EPS[orbs[0]],
                'X': lambda: X[orbs], 'p2': lambda: p2(*orbs)}[ex.name]()
    if isinstance(ex, Pow):
        return value(ex.args[0], asg) ** int(ex.args[1])
    vals = [value(a, asg) for a in ex.args]
    assert isinstance(ex, (Add, Mul)), ex
    return sum(vals, Fr(0)) if isinstance(ex, Add) else math.prod(vals)


def evaluate(expr, target):  # {target assignment: value}, rest is summed
    res = {}
    for term in Add.make_args(expr.sympy.expand()):
        contr = [s for s in term.atoms(Index) if s not in target]
        for tv in it.product(*(RANGE[s.space[0]] for s in target)):
            for cv in it.product(*(RANGE[s.space[0]] for s in contr)):
                asg = dict(zip(list(target) + contr, tv + cv))
                res[tv] = res.get(tv, Fr(0)) + value(term, asg)
    return res


print("adcgen imported from", adcgen.__file__)
i, j = get_symbols('ij')
p_def = Intermediates().available['p0_2_oo'].expand_itmd(
    indices=(i, j), return_sympy=True)  # registered definition, V and e only
k = next(s for s in p_def.atoms(Index) if s.space == 'occ' and s not in (i, j))
inp = Expr(p_def * NonSymmetricTensor('X', (i, j)), real=True, target_idx=(k,))
out = factor_intermediates(inp.copy(), types_or_names='p0_2_oo')
print(f"input  (target index {k}):\n  {inp}\noutput:\n  {out}")
# hand derived expectation: k is NOT summed in the input
hand = {(kv,): -Fr(1, 2) * sum(t(a, kv, c, d) * t(b, kv, c, d) * X[a, b]
        for a in O for b in O for c in VI for d in VI) for kv in O}
v_in, v_out = evaluate(inp, (k,)), evaluate(out, (k,))
assert v_in == hand, "brute force evaluator disagrees with hand formula"
for key in v_in:
    print(f"  {k}={key[0]}: input value {v_in[key]}, output value "
          f"{v_out[key]}", "" if v_in[key] == v_out[key] else "  <-- DIFFERS")
sys.exit(0 if v_in == v_out else 1)
