F = "func.py"
S = "sympy_objects.py"
WITNESSES = [
    dict(id="c09-drop-target-guard", prop="C09", file=F, expect="R09a",
         old="            if killable not in target_idx:\n                expr = expr.subs(killable, preferred)",
         new="            if True:\n                expr = expr.subs(killable, preferred)"),
    dict(id="c09-drop-equal-info", prop="C09", file=F, expect="R09a",
         old="            elif preferred not in target_idx \\\n                    and d.indices_contain_equal_information:",
         new="            elif preferred not in target_idx:"),
    dict(id="c09-swapped-subs", prop="C09", file=F, expect="R09a",
         old="expr = expr.subs(killable, preferred)", new="expr = expr.subs(preferred, killable)"),
    dict(id="c09-wrong-target-guard", prop="C09", file=F, expect="R09a",
         old="            elif preferred not in target_idx \\", new="            elif killable in target_idx \\"),
    dict(id="c09-pk-table", prop="C09", file=S, expect="R09b",
         old="""        elif spin2:  # na / nb  -> 2 holds more information
            if space1 == space2 or space1 == "g":""",
         new="""        elif spin2:  # na / nb  -> 2 holds more information
            if space1 == space2 or space1 == "g" or space2 == "g":"""),
    dict(id="c09-pk-swap", prop="C09", file=S, expect="R09b",
         old="""            else:  # go / gv
                return (j, i)""", new="""            else:  # go / gv
                return (i, j)"""),
    dict(id="c09-equal-info-or", prop="C09", file=S, expect="R09b",
         old="return i.space == j.space and i.spin == j.spin", new="return i.space == j.space or i.spin == j.spin"),
    dict(id="c09-target-count", prop="C09", file=F, expect="R09c",
         old="target_idx = [s for s, n in indices.items() if not n]", new="target_idx = [s for s, n in indices.items() if n]"),
    dict(id="c09-no-recursion", prop="C09", file=F, expect="R09c",
         old="""                expr = expr.subs(killable, preferred)
                if len(deltas) > 1:
                    return evaluate_deltas(expr, target_idx)
                continue""", new="""                expr = expr.subs(killable, preferred)
                continue"""),
    dict(id="c09-recursion-loses-target", prop="C09", file=F, expect="R09c",
         old="""                expr = expr.subs(preferred, killable)
                if len(deltas) > 1:
                    return evaluate_deltas(expr, target_idx)""",
         new="""                expr = expr.subs(preferred, killable)
                if len(deltas) > 1:
                    return evaluate_deltas(expr)"""),
    # behaviour preserving
    dict(id="c09-ok-subscripts", prop="C09", file=F, expect=None,
         old="""            preferred, killable = idx
            # try to remove killable
            if killable not in target_idx:
                expr = expr.subs(killable, preferred)""",
         new="""            preferred = idx[0]
            killable = idx[1]
            if not (killable in target_idx):
                expr = expr.subs(killable, preferred)"""),
    dict(id="c09-ok-pk-refactor", prop="C09", file=S, expect=None,
         old="""        if spin1 == spin2:  # nn / aa / bb  -> equal information
            if space1 == space2 or space2 == "g":  # oo / vv / gg / og / vg
                return (i, j)
            else:  # go / gv
                return (j, i)""",
         new="""        if spin1 == spin2:  # nn / aa / bb  -> equal information
            if space1 != space2 and space2 != "g":
                return (j, i)
            return (i, j)"""),
]
