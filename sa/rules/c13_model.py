"""Abstract model of the container algebra used by the C13 rules.

The functions of eri_orbenergy.py / expr_container.py / reduce_expr.py are evaluated by ``sa.symex`` over *values*:
terms built from numbers, index symbols, tensor atoms, sums, products and powers.  A container (Expr / Term / Obj /
Polynom) is an abstract record that carries a value (``$value``) and its assumptions; its public surface (``.sympy``,
``.terms``, ``.objects``, ``.prefactor``, ``.idx``, ``.base_and_exponent``, ``.name`` ...) is *derived from the value*
by this model, the way the constructors of the library derive it from the wrapped sympy object.  sympy's automatic
evaluation (numbers folded, like terms collected, powers of equal bases merged) is modelled by ``norm``.

A rule then states the expected behaviour as a *value*: the result of the evaluated function is compared with the
expected expression by exact rational evaluation (``value``) at pseudo-random points, every tensor atom / opaque call
being an independent unknown.  Local names, temporaries, statement order, comprehension vs loop, helper functions of
the analysed code never enter.
"""
from __future__ import annotations

import hashlib
from fractions import Fraction

from ..model import AnalysisError
from ..symex import Symex, Obj
from ..terms import T, sym, t_mul, t_add, t_pow, is_num, canon, show, subterms

NAMES = dict(eri="V", coulomb="v", fock="f", operator="d", gs_amplitude="t", gs_density="p",
             left_adc_amplitude="X", right_adc_amplitude="Y", orb_energy="e", sym_orb_denom="D")

SPACE_ORDER = {"occ": 0, "virt": 1, "general": 2}
TENSOR_CLASSES = {
    "NonSymmetricTensor": {"NonSymmetricTensor", "SymbolicTensor", "Basic"},
    "AntiSymmetricTensor": {"AntiSymmetricTensor", "SymbolicTensor", "Basic"},
    "SymmetricTensor": {"SymmetricTensor", "AntiSymmetricTensor", "SymbolicTensor", "Basic"},
    "Amplitude": {"Amplitude", "AntiSymmetricTensor", "SymbolicTensor", "Basic"},
    "KroneckerDelta": {"KroneckerDelta", "Basic", "Function"},
}

# library functions/methods that stay uninterpreted or are modelled by a hook (everything else is evaluated through)
VOCAB = {
    "_validate_denom", "_validate_num", "factor_and_remove_number", "find_compatible_terms", "find_compatible_denom",
    "minimize_tensor_indices", "get_symbols", "sort_idx_canonical", "Inputerror", "longname", "description",
    "crude_pos", "to_latex_str",
}


# vocabulary with a definition in the repository: hook arguments are bound to the parameter names of that definition,
# so that keyword / positional spelling of the call in the analysed code does not matter
SIG = {
    "evaluate_deltas": ("func:evaluate_deltas", "func"),
    "order_substitutions": ("indices:order_substitutions", "func"),
    "minimize_tensor_indices": ("indices:minimize_tensor_indices", "func"),
    "factor_and_remove_number": ("eri_orbenergy:factor_and_remove_number", "func"),
    "factor_eri_parts": ("reduce_expr:factor_eri_parts", "func"),
    "factor_denom": ("reduce_expr:factor_denom", "func"),
    "find_compatible_eri_parts": ("reduce_expr:find_compatible_eri_parts", "func"),
    "find_compatible_denom": ("reduce_expr:find_compatible_denom", "func"),
    "find_compatible_terms": ("simplify:find_compatible_terms", "func"),
    "EriOrbenergy": ("eri_orbenergy:EriOrbenergy.__init__", "ctor"),
    "Expr": ("expr_container:Expr.__init__", "ctor"),
    "NonSymmetricTensor": ("sympy_objects:NonSymmetricTensor.__new__", "ctor"),
    "SymmetricTensor": ("sympy_objects:SymmetricTensor.__new__", "ctor"),
    "AntiSymmetricTensor": ("sympy_objects:AntiSymmetricTensor.__new__", "ctor"),
    "denom_eri_sym": ("eri_orbenergy:EriOrbenergy.denom_eri_sym", "method"),
    "symmetry": ("expr_container:Term.symmetry", "method"),
    "set_antisym_tensors": ("expr_container:Expr.set_antisym_tensors", "method"),
    "set_sym_tensors": ("expr_container:Expr.set_sym_tensors", "method"),
    "set_target_idx": ("expr_container:Expr.set_target_idx", "method"),
    "substitute_contracted": ("expr_container:Term.substitute_contracted", "method"),
    "expand_itmd": ("intermediates:RegisteredIntermediate.expand_itmd", "method"),
}


def arg(a, kw, pos, name, default=None):
    """Argument of a hooked call by parameter name (after binding) or position."""
    if name in kw:
        return kw[name]
    if pos is not None and pos < len(a):
        return a[pos]
    return default


def named(sx, name, a, kw, recv=False):
    """(positional rest, {parameter name: value}) of a hooked call bound to the repository definition of ``name``."""
    if name not in SIG or "**" in kw:
        return list(a), dict(kw)
    ref, kind = SIG[name]
    if not sx.model.has_fn(ref):
        return list(a), dict(kw)
    fn = sx.model.fn(ref)
    try:
        if kind == "func":
            b = sx.bind(fn, list(a), dict(kw), False, True, True)
            return [], b
        if kind == "ctor":
            b = sx.bind(fn, list(a), dict(kw), True, True, True)
            return [], b
        b = sx.bind(fn, list(a), dict(kw), False, True, True)
        first = fn.args.args[0].arg
        me = b.pop(first, None)
        return [me], b
    except Exception:
        return list(a), dict(kw)


def frac(x):
    x = Fraction(x)
    return int(x) if x.denominator == 1 else x


# ---------------------------------------------------------------------------------------------- values

def tensor(cls, name, upper=(), lower=(), bks=None):
    """Tensor atom.  Indices are index symbols (``sym(name)``)."""
    up, lo = tuple(_isym(i) for i in upper), tuple(_isym(i) for i in lower)
    if cls in ("SymmetricTensor",):
        up, lo = tuple(sorted(up, key=repr)), tuple(sorted(lo, key=repr))
        if bks in (1, -1) and repr(lo) < repr(up) and bks == 1:
            up, lo = lo, up
    if cls == "KroneckerDelta":
        up = tuple(sorted(up, key=repr))
    return T("tensor", cls, name, up, lo, bks)


def _isym(i):
    if isinstance(i, Obj):
        return sym(i.attrs["name"])
    if isinstance(i, str):
        return sym(i)
    return i


def E(i):
    return tensor("NonSymmetricTensor", NAMES["orb_energy"], (i,))


def lin(coeffs):
    """sum_i c_i e_i from {index name: coefficient}."""
    return norm(t_add(*[t_mul(frac(c), E(i)) for i, c in coeffs.items()]))


def norm(t):
    """sympy's automatic evaluation: numbers folded, numeric coefficient distributed over a sum, like terms
    collected, equal bases merged, x**1 -> x, x**0 -> 1, 0*x -> 0."""
    if isinstance(t, Obj):
        t = t.term
    if not isinstance(t, T):
        if isinstance(t, Fraction):
            return frac(t)
        return t
    if t.op == "add":
        acc, order, const = {}, [], 0
        for x in t.args:
            for c, body in _summands(norm(x)):
                if body is None:
                    const += c
                    continue
                k = repr(canon(body))
                if k not in acc:
                    acc[k] = [0, body]
                    order.append(k)
                acc[k][0] += c
        parts = [t_mul(frac(acc[k][0]), acc[k][1]) for k in order if acc[k][0] != 0]
        return t_add(frac(const), *parts)
    if t.op == "mul":
        coeff, bases, order = Fraction(1), {}, []
        stack = [norm(x) for x in t.args]
        flat = []
        for x in stack:
            flat.extend(x.args if isinstance(x, T) and x.op == "mul" else [x])
        for x in flat:
            if is_num(x):
                coeff *= x
                continue
            b, e = (x.args[0], x.args[1]) if isinstance(x, T) and x.op == "pow" and is_num(x.args[1]) else (x, 1)
            k = repr(canon(b))
            if k not in bases:
                bases[k] = [b, 0]
                order.append(k)
            bases[k][1] += e
        if coeff == 0:
            return 0
        fs = []
        for k in order:
            b, e = bases[k]
            if e == 0:
                continue
            fs.append(b if e == 1 else T("pow", b, frac(e)))
        if not fs:
            return frac(coeff)
        if len(fs) == 1 and coeff != 1 and isinstance(fs[0], T) and fs[0].op == "add":
            return norm(t_add(*[t_mul(frac(coeff), y) for y in fs[0].args]))
        return t_mul(frac(coeff), *fs)
    if t.op == "pow":
        b, e = norm(t.args[0]), norm(t.args[1])
        if is_num(e):
            e = frac(e)
            if e == 0:
                return 1
            if e == 1:
                return b
            if is_num(b) and isinstance(e, int):
                return t_pow(frac(b), e)
            if isinstance(b, T) and b.op == "pow" and is_num(b.args[1]) and isinstance(e, int):
                return norm(T("pow", b.args[0], frac(b.args[1] * e)))
            if isinstance(b, T) and b.op == "mul" and isinstance(e, int):
                return norm(t_mul(*[T("pow", f, e) if not is_num(f) else t_pow(f, e) for f in b.args]))
        return T("pow", b, e)
    return t


def _summands(x):
    """(coefficient, body | None) pairs of an already normalised value."""
    if is_num(x):
        return [(Fraction(x), None)] if x != 0 else []
    if isinstance(x, T) and x.op == "add":
        out = []
        for y in x.args:
            out.extend(_summands(y))
        return out
    if isinstance(x, T) and x.op == "mul":
        c = Fraction(1)
        fs = []
        for f in x.args:
            if is_num(f):
                c *= f
            else:
                fs.append(f)
        body = fs[0] if len(fs) == 1 else T("mul", *fs)
        return [(c, body)]
    return [(Fraction(1), x)]


def _atom(key, salt):
    h = int(hashlib.sha256(f"{salt}|{key}".encode()).hexdigest(), 16)
    return Fraction(2 + h % 9967, 1 + (h >> 64) % 61)


def value(t, salt=0, interp=None):
    """Exact rational value of a term; atoms are independent pseudo-random rationals (deterministic in ``salt``)."""
    if isinstance(t, Obj):
        t = t.term
    if is_num(t):
        return Fraction(t)
    if isinstance(t, bool) or t is None:
        raise AnalysisError(f"C13 model: {t!r} is not a value")
    if not isinstance(t, T):
        raise AnalysisError(f"C13 model: {t!r} is not a value")
    if t.op == "add":
        return sum((value(x, salt, interp) for x in t.args), Fraction(0))
    if t.op == "mul":
        r = Fraction(1)
        for x in t.args:
            r *= value(x, salt, interp)
        return r
    if t.op == "pow" and is_num(t.args[1]) and Fraction(t.args[1]).denominator == 1:
        b = value(t.args[0], salt, interp)
        e = int(t.args[1])
        if b == 0 and e < 0:
            raise AnalysisError(f"C13 model: division by zero in {show(t)[:120]}")
        return b ** e
    if interp is not None:
        r = interp(t, salt)
        if r is not None:
            return r
    return _atom(repr(canon(t)), salt)


def same_value(a, b, interp=None):
    try:
        return all(value(a, s, interp) == value(b, s, interp) for s in (1, 2, 3))
    except (TypeError, ZeroDivisionError) as e:
        raise AnalysisError(f"C13 model: cannot evaluate {show(a)[:100]} / {show(b)[:100]}: {e}")


def raw(v):
    """The wrapped value of a container record (containers are their values)."""
    if isinstance(v, Obj) and "$value" in v.attrs:
        return v.attrs["$value"]
    return v


def substitute(t, mapping):
    """Simultaneous replacement of index symbols {name: name}."""
    if isinstance(t, T):
        if t.op == "sym":
            return sym(mapping[t.args[0]]) if t.args[0] in mapping else t
        if t.op == "tensor":
            cls, name, up, lo, bks = t.args
            return tensor(cls, name, substitute(up, mapping), substitute(lo, mapping), bks)
        return T(t.op, *[substitute(x, mapping) for x in t.args])
    if isinstance(t, tuple):
        return tuple(substitute(x, mapping) for x in t)
    return t


def indices_of(t):
    """Index names in a value, with multiplicity (exponents counted |n| times), in order of occurrence."""
    out = []

    def walk(x, mult):
        if isinstance(x, T):
            if x.op == "tensor":
                for s in x.args[2] + x.args[3]:
                    out.extend([s.args[0]] * mult)
            elif x.op == "pow" and is_num(x.args[1]) and Fraction(x.args[1]).denominator == 1:
                walk(x.args[0], mult * abs(int(x.args[1])))
            elif x.op in ("add", "mul", "pow"):
                for y in x.args:
                    walk(y, mult)
    walk(t, 1)
    return out


def linear_form(t):
    """{index name: coefficient} of a sum of orbital energies, or None."""
    t = norm(t)
    out = {}
    for c, body in _summands(t):
        if body is None:
            return None
        if not (isinstance(body, T) and body.op == "tensor" and body.args[1] == NAMES["orb_energy"]
                and len(body.args[2]) == 1):
            return None
        k = body.args[2][0].args[0]
        out[k] = out.get(k, 0) + c
    return {k: frac(c) for k, c in out.items()}


# ---------------------------------------------------------------------------------------------- records

class World:
    """Indices, containers and the hooks of one scenario."""

    def __init__(self, indices, symmetry=None):
        """indices: {name: space}  (space in occ / virt / general, optional ':a' / ':b' spin suffix)."""
        self.spec = dict(indices)
        self.index = {}
        self.n = 0
        self.log = []          # (what, payload) effects recorded by hooks
        self.symmetry = symmetry or {}
        self.extra_hooks = {}
        self.rebuild()

    def rebuild(self):
        self.index = {}
        for name, sp in self.spec.items():
            space, _, spin = sp.partition(":")
            o = Obj(None, name)
            o.attrs.update({"name": name, "space": space, "spin": spin, "space_and_spin": (space, spin),
                            "$id": True, "$kind": "index", "_classes": {"Index", "Basic", "Symbol"}})
            self.index[name] = o
        self.log = []
        self.n = 0

    def reset(self, sx=None):
        self.rebuild()

    def idx(self, *names):
        return tuple(self.index[n] for n in names)

    def sort_idx(self, names):
        return sorted(names, key=lambda n: (SPACE_ORDER.get(self.index[n].attrs["space"], 9), len(n), n)
                      if n in self.index else (9, len(n), n))

    # ----- containers
    def _rec(self, kind, val, classes, **attrs):
        self.n += 1
        a = {"$value": norm(val), "$kind": kind, "$binop": self.binop, "$id": True, "_classes": set(classes)}
        a.update(attrs)
        o = Obj(None, f"<{kind}#{self.n}>")
        o.attrs.update(a)
        return o

    def expr(self, val, **assumptions):
        ass = {"real": False, "sym_tensors": (), "antisym_tensors": (), "target_idx": None}
        for k, v in assumptions.items():
            if k in ("sym_tensors", "antisym_tensors") and v is not None:
                v = tuple(sorted(v))
            ass[k] = v
        return self._rec("expr", raw(val), {"Expr", "Container"}, **{"$ass": ass})

    def term(self, parent, val, pos=0):
        return self._rec("term", val, {"Term", "Container"}, **{"$parent": parent, "$pos": pos})

    def obj(self, parent_term, val, pos=0):
        v = norm(val)
        base = v.args[0] if isinstance(v, T) and v.op == "pow" else v
        if isinstance(base, T) and base.op == "add":
            return self._rec("polynom", v, {"Polynom", "Obj", "Container"}, **{"$parent": parent_term, "$pos": pos})
        return self._rec("obj", v, {"Obj", "Container"}, **{"$parent": parent_term, "$pos": pos})

    def terms_of(self, rec):
        v = rec.attrs["$value"]
        if rec.attrs["$kind"] == "polynom":
            v = v.args[0] if isinstance(v, T) and v.op == "pow" else v
        parts = list(v.args) if isinstance(v, T) and v.op == "add" else [v]
        return tuple(self.term(rec, p, i) for i, p in enumerate(parts))

    def objects_of(self, rec):
        v = rec.attrs["$value"]
        parts = list(v.args) if isinstance(v, T) and v.op == "mul" else [v]
        return tuple(self.obj(rec, p, i) for i, p in enumerate(parts))

    def assumptions_of(self, rec):
        r = rec
        while r is not None and "$ass" not in r.attrs:
            r = r.attrs.get("$parent")
        if r is None:
            return {"real": False, "sym_tensors": (), "antisym_tensors": (), "target_idx": None}
        return r.attrs["$ass"]

    def wrap_like(self, rec, val):
        return self.expr(val, **self.assumptions_of(rec))

    # ----- arithmetic of containers: Container.__add__ & co. (result: Expr with the assumptions of the container)
    def binop(self, sx, op, a, b, node):
        va, vb = raw(a), raw(b)
        if isinstance(va, Obj) or isinstance(vb, Obj):
            return NotImplemented
        r = sx._binop(op, va, vb, node)
        r = norm(r) if isinstance(r, (T, Fraction, int)) and not isinstance(r, bool) else r
        if getattr(sx, "inplace", False) and isinstance(a, Obj) and a.attrs.get("$kind") == "expr":
            a.attrs["$value"] = r       # Expr.__iadd__ & co. work in place and return self
            return a
        owner = a if isinstance(a, Obj) and "$value" in a.attrs else b
        return self.wrap_like(owner, r)

    # ----- derived attributes
    def attr(self, sx, obj, name, node):
        if isinstance(obj, Obj):
            kind = obj.attrs.get("$kind")
            if kind is None:
                return NotImplemented
            f = getattr(self, f"_{kind}_attr", None)
            r = f(obj, name) if f else NotImplemented
            if r is NotImplemented and kind in ("expr", "term", "obj", "polynom"):
                if name in METHODS:
                    return lambda sx_, a, kw, o=obj, n=name: METHODS[n](self, sx_, [o] + list(a), kw)
                # Container.__getattr__: delegate to the wrapped value
                return self.attr(sx, obj.attrs["$value"], name, node)
            return r
        return self._raw_attr(obj, name)

    def _raw_attr(self, v, name):
        if name == "is_number":
            return is_num(v)
        if name in ("is_zero",):
            return is_num(v) and v == 0
        if is_num(v):
            if name in ("args",):
                return ()
            if name in METHODS:
                return lambda sx_, a, kw, o=v, n=name: METHODS[n](self, sx_, [o] + list(a), kw)
            return NotImplemented
        if not isinstance(v, T):
            return NotImplemented
        if name == "args":
            if v.op in ("add", "mul", "pow"):
                return tuple(v.args)
            if v.op == "tensor":
                return tuple(self.index.get(s.args[0], s) for s in v.args[2] + v.args[3])
            return ()
        if name == "func":
            return NotImplemented
        if v.op == "tensor":
            cls, nm, up, lo, bks = v.args
            if name == "name":
                return nm
            if name in ("idx", "indices"):
                return tuple(self.index.get(s.args[0], s) for s in up + lo)
            if name == "upper":
                return tuple(self.index.get(s.args[0], s) for s in up)
            if name == "lower":
                return tuple(self.index.get(s.args[0], s) for s in lo)
            if name == "bra_ket_sym":
                return bks if bks is not None else 0
        if v.op == "sym" and v.args[0] in self.index:
            return self.attr(None, self.index[v.args[0]], name, None)
        return NotImplemented

    def _index_attr(self, obj, name):
        return NotImplemented

    def _expr_attr(self, rec, name):
        v, ass = rec.attrs["$value"], rec.attrs["$ass"]
        if name in ("sympy", "_expr"):
            return v
        if name == "assumptions":
            return dict(ass)
        if name in ("real", "_real"):
            return ass["real"]
        if name == "sym_tensors":
            return tuple(ass["sym_tensors"])
        if name == "antisym_tensors":
            return tuple(ass["antisym_tensors"])
        if name in ("provided_target_idx", "_target_idx"):
            return ass["target_idx"]
        if name == "terms":
            return self.terms_of(rec)
        if name == "idx":
            return tuple(self.index[n] for n in self.sort_idx([n for n in indices_of(v)]))
        if name == "type_as_str":
            return "expr" if isinstance(v, T) and v.op == "add" else "term" if isinstance(v, T) and v.op == "mul" else "obj"
        return NotImplemented

    def target_of(self, rec):
        ass = self.assumptions_of(rec)
        if ass["target_idx"] is not None:
            return tuple(ass["target_idx"])
        names = indices_of(rec.attrs["$value"])
        return tuple(self.index[n] for n in self.sort_idx({n for n in names if names.count(n) == 1}))

    def contracted_of(self, rec):
        ass = self.assumptions_of(rec)
        names = indices_of(rec.attrs["$value"])
        uniq = self.sort_idx(set(names))
        if ass["target_idx"] is not None:
            tg = [raw_name(x) for x in ass["target_idx"]]
            return tuple(self.index[n] for n in uniq if n not in tg)
        return tuple(self.index[n] for n in uniq if names.count(n) > 1)

    def _term_attr(self, rec, name):
        v = rec.attrs["$value"]
        if name in ("sympy", "_sympy"):
            return v
        if name in ("expr", "_expr"):
            return rec.attrs["$parent"]
        if name in ("pos", "_pos"):
            return rec.attrs["$pos"]
        if name == "assumptions":
            return dict(self.assumptions_of(rec))
        if name in ("real", "sym_tensors", "antisym_tensors", "provided_target_idx"):
            return self._expr_attr(self._root(rec), name)
        if name == "objects":
            return self.objects_of(rec)
        if name == "prefactor":
            c = Fraction(1)
            for f in (v.args if isinstance(v, T) and v.op == "mul" else [v]):
                if is_num(f):
                    c *= f
            return frac(c)
        if name == "sign":
            return "minus" if self._term_attr(rec, "prefactor") < 0 else "plus"
        if name == "idx":
            return tuple(self.index[n] for n in self.sort_idx(indices_of(v)))
        if name == "target":
            return self.target_of(rec)
        if name == "contracted":
            return self.contracted_of(rec)
        if name == "tensors":
            return tuple(o for o in self.objects_of(rec) if isinstance(self._obj_attr(o, "base"), T)
                         and self._obj_attr(o, "base").op == "tensor" and self._obj_attr(o, "base").args[0] != "KroneckerDelta")
        if name == "polynoms":
            return tuple(o for o in self.objects_of(rec) if o.attrs["$kind"] == "polynom")
        if name == "contains_only_orb_energies":
            return all(self._obj_attr(o, "contains_only_orb_energies") for o in self.objects_of(rec)
                       if not is_num(o.attrs["$value"]))
        if name == "type_as_str":
            return "term" if isinstance(v, T) and v.op == "mul" else "obj"
        return NotImplemented

    def _root(self, rec):
        r = rec
        while r.attrs.get("$kind") != "expr" and r.attrs.get("$parent") is not None:
            r = r.attrs["$parent"]
        return r

    def _obj_attr(self, rec, name):
        v = rec.attrs["$value"]
        poly = rec.attrs["$kind"] == "polynom"
        base, exp = (v.args[0], v.args[1]) if isinstance(v, T) and v.op == "pow" else (v, 1)
        if name in ("sympy", "_sympy"):
            return v
        if name in ("term", "_term"):
            return rec.attrs["$parent"]
        if name in ("expr", "_expr"):
            return self._root(rec) if not poly else self._root(rec)
        if name in ("pos", "_pos"):
            return rec.attrs["$pos"]
        if name == "assumptions":
            return dict(self.assumptions_of(rec))
        if name in ("real", "sym_tensors", "antisym_tensors", "provided_target_idx"):
            return self._expr_attr(self._root(rec), name)
        if name == "base_and_exponent":
            return (base, exp)
        if name == "base":
            return base
        if name == "exponent":
            return exp
        if name == "idx":
            if poly:
                return tuple(self.index[n] for n in self.sort_idx(indices_of(base)))
            if isinstance(base, T) and base.op == "tensor":
                return tuple(self.index.get(s.args[0], s) for s in base.args[2] + base.args[3])
            return ()
        if name == "terms" and poly:
            return self.terms_of(rec)
        if name == "name":
            return base.args[1] if isinstance(base, T) and base.op == "tensor" and base.args[0] != "KroneckerDelta" else None
        if name == "space":
            return "".join(i.attrs["space"][0] for i in self._obj_attr(rec, "idx"))
        if name == "spin":
            return "".join(i.attrs["spin"] or "n" for i in self._obj_attr(rec, "idx"))
        if name == "bra_ket_sym":
            if isinstance(base, T) and base.op == "tensor" and "AntiSymmetricTensor" in TENSOR_CLASSES.get(base.args[0], ()):
                return base.args[4] if base.args[4] is not None else 0
            return None
        if name == "contains_only_orb_energies":
            if poly:
                return all(self._term_attr(t, "contains_only_orb_energies") for t in self.terms_of(rec))
            return self._obj_attr(rec, "name") == NAMES["orb_energy"] and len(self._obj_attr(rec, "idx")) == 1
        if name == "type_as_str" and poly:
            return "polynom"
        return NotImplemented

    _polynom_attr = _obj_attr

    # ----- isinstance of raw values
    def isinstance(self, sx, v, cname):
        if isinstance(v, T):
            if cname == "Add":
                return v.op == "add"
            if cname == "Mul":
                return v.op == "mul"
            if cname == "Pow":
                return v.op == "pow"
            if cname == "Basic":
                return True
            if v.op == "tensor":
                return cname in TENSOR_CLASSES.get(v.args[0], ())
            if v.op == "sym":
                return cname in ("Symbol", "Index") if v.args[0] in self.index else cname == "Symbol"
            if cname in ("Expr", "Term", "Obj", "Polynom", "Container", "NormalOrdered", "NO", "FermionicOperator",
                         "SymbolicTensor", "AntiSymmetricTensor", "SymmetricTensor", "NonSymmetricTensor",
                         "KroneckerDelta", "Amplitude", "Symbol", "Index", "int", "str", "tuple", "list", "dict", "float",
                         "Rational", "Number", "Integer", "F", "Fd"):
                return False
        return None

    # ----- hooks
    def hooks(self):
        h = {
            "S": Obj(None, "S", Zero=0, One=1, NegativeOne=-1, Half=Fraction(1, 2)),
            "tensor_names": _record("tensor_names", NAMES),
            "Pow": lambda sx, a, kw: norm(T("pow", raw(a[0]), raw(a[1]))),
            "Mul": lambda sx, a, kw: norm(t_mul(*[raw(x) for x in a])) if a else 1,
            "Add": lambda sx, a, kw: norm(t_add(*[raw(x) for x in a])) if a else 0,
            "sympify": lambda sx, a, kw: raw(a[0]),
            "nsimplify": lambda sx, a, kw: raw(a[0]),
            "Expr": self._h_expr,
            "NonSymmetricTensor": lambda sx, a, kw: tensor("NonSymmetricTensor", arg(a, kw, 0, "name"), tuple(arg(a, kw, 1, "indices"))),
            "SymmetricTensor": lambda sx, a, kw: tensor("SymmetricTensor", arg(a, kw, 0, "name"), tuple(arg(a, kw, 1, "upper")),
                                                        tuple(arg(a, kw, 2, "lower")), arg(a, kw, 3, "bra_ket_sym", 0)),
            "AntiSymmetricTensor": lambda sx, a, kw: tensor("AntiSymmetricTensor", arg(a, kw, 0, "name"), tuple(arg(a, kw, 1, "upper")),
                                                            tuple(arg(a, kw, 2, "lower")), arg(a, kw, 3, "bra_ket_sym", 0)),
            "KroneckerDelta": self._h_delta,
            "evaluate_deltas": self._h_evaluate_deltas,
            "order_substitutions": lambda sx, a, kw: [(k, v) for k, v in arg(a, kw, 0, "subsdict").items()],
            "len": self._h_len,
            "Symbol": lambda sx, a, kw: sym(a[0]) if isinstance(a[0], str) else NotImplemented,
        }
        for name, f in METHODS.items():
            h[name] = (lambda sx, a, kw, f=f: f(self, sx, a, kw))
        h.update(self.extra_hooks)
        for name in list(h):
            if name in SIG and callable(h[name]):
                h[name] = (lambda sx, a, kw, f=h[name], name=name: f(sx, *named(sx, name, a, kw)))
        for name in list(h):
            if callable(h[name]):
                h[name] = _guarded(name, h[name])
        return h

    def _h_expr(self, sx, a, kw):
        if "**" in kw:
            return NotImplemented
        e = arg(a, kw, 0, "e")
        names = ("real", "sym_tensors", "antisym_tensors", "target_idx")
        kw = {k: v for k, v in kw.items() if k in names}
        for k, v in zip(names, a[1:]):
            kw[k] = v
        rec = self.expr(e, **kw)
        self.log.append(("Expr", rec))
        return rec

    def _h_delta(self, sx, a, kw):
        p, q = a[0], a[1]
        if not (isinstance(p, Obj) and isinstance(q, Obj)):
            return NotImplemented
        if p is q:
            return 1
        sp, sq = p.attrs["space"][0], q.attrs["space"][0]
        if sp != "g" and sq != "g" and sp != sq:
            return 0
        if p.attrs["spin"] and q.attrs["spin"] and p.attrs["spin"] != q.attrs["spin"]:
            return 0
        return tensor("KroneckerDelta", "delta", (p, q))

    def _h_evaluate_deltas(self, sx, a, kw):
        """Contract of func.evaluate_deltas for one delta: a contracted index of the delta is removed (the second
        one first), the delta stays if both indices are targets."""
        v = norm(raw(arg(a, kw, 0, "expr")))
        target = arg(a, kw, 1, "target_idx")
        self.log.append(("evaluate_deltas", (v, target)))
        if target is None or isinstance(target, T):
            return NotImplemented
        tg = [raw_name(x) for x in target]
        fs = list(v.args) if isinstance(v, T) and v.op == "mul" else [v]
        ds = [f for f in fs if isinstance(f, T) and f.op == "tensor" and f.args[0] == "KroneckerDelta"]
        if len(ds) != 1:
            return v
        i, j = [s.args[0] for s in ds[0].args[2]]
        i, j = self.sort_idx([i, j])
        rest = norm(t_mul(*[f for f in fs if f is not ds[0]]))
        if j not in tg:
            return norm(substitute(rest, {j: i}))
        if i not in tg and self.index[i].attrs["space_and_spin"] == self.index[j].attrs["space_and_spin"]:
            return norm(substitute(rest, {i: j}))
        return v

    def _h_len(self, sx, a, kw):
        x = a[0]
        if isinstance(x, Obj) and x.attrs.get("$kind") in ("expr", "term", "polynom"):
            v = x.attrs["$value"]
            if x.attrs["$kind"] == "expr":
                return len(v.args) if isinstance(v, T) and v.op == "add" else 1
            if x.attrs["$kind"] == "term":
                return len(v.args) if isinstance(v, T) and v.op == "mul" else 1
            b = v.args[0] if isinstance(v, T) and v.op == "pow" else v
            return len(b.args)
        return NotImplemented

    def make(self, ctx, what, inline_extra=(), opaque=(), **kw):
        opaque = set(opaque)

        def inline(q):
            short = q.split(":")[-1].split(".")[-1]
            return short not in VOCAB and short not in opaque
        sx = Symex(ctx.model, inline=inline, hooks=self.hooks(), what=what, attr_hook=self.attr,
                   isinstance_hook=self.isinstance, normalize=norm, **kw)
        sx.on_start = self.reset
        return sx


def _record(name, attrs):
    o = Obj(None, name)
    o.attrs.update(attrs)
    return o


def _guarded(name, f):
    """A hook that cannot interpret its arguments is an analysis error (exit 2), never a crash of the checker."""
    def g(sx, a, kw):
        try:
            return f(sx, a, kw)
        except (TypeError, KeyError, AttributeError, IndexError, ValueError) as e:
            raise AnalysisError(f"C13 model: the vocabulary function `{name}` is called with arguments the model cannot "
                                f"interpret ({type(e).__name__}: {str(e)[:120]})")
    return g


def raw_name(x):
    if isinstance(x, Obj):
        return x.attrs.get("name", x.name)
    if isinstance(x, T) and x.op == "sym":
        return x.args[0]
    return x


# ---------------------------------------------------------------------------------------------- methods of values

def _kind(x):
    return x.attrs.get("$kind") if isinstance(x, Obj) else None


def _m_same(w, sx, a, kw):
    """copy / expand / doit / factor / simplify: value preserving.  Expr methods work in place and return self."""
    x = a[0]
    k = _kind(x)
    if k == "expr":
        return x
    if k in ("term", "obj", "polynom"):
        return w.wrap_like(x, x.attrs["$value"])
    if isinstance(x, T) or is_num(x):
        return x
    return NotImplemented


def _m_copy(w, sx, a, kw):
    x = a[0]
    k = _kind(x)
    if k in ("expr", "term", "obj", "polynom"):
        return w.wrap_like(x, x.attrs["$value"])
    if isinstance(x, T) or is_num(x):
        return x
    return NotImplemented


def _mapping(w, pairs):
    m = {}
    for old, new in pairs:
        o, n = raw_name(old), raw_name(new)
        if not isinstance(o, str) or not isinstance(n, str):
            return None
        m[o] = n
    return m


def _apply(w, sx, x, f, what, arg):
    """Apply the value transformation f to x (in place for Expr, new Expr for the other containers)."""
    k = _kind(x)
    if k == "expr":
        x.attrs["$value"] = norm(f(x.attrs["$value"]))
        return x
    if k in ("term", "obj", "polynom"):
        return w.wrap_like(x, norm(f(x.attrs["$value"])))
    if isinstance(x, T) or is_num(x):
        return norm(f(x))
    return NotImplemented


def _m_subs(w, sx, a, kw):
    x, rest = a[0], a[1:]
    if _kind(x) is None and not isinstance(x, T) and not is_num(x):
        return NotImplemented
    if len(rest) == 2:
        pairs = [(rest[0], rest[1])]
    elif len(rest) == 1 and isinstance(rest[0], dict):
        pairs = list(rest[0].items())
    elif len(rest) == 1 and isinstance(rest[0], (list, tuple)):
        pairs = list(rest[0])
    else:
        pairs = None
    m = None
    if pairs is not None and all(isinstance(p, (tuple, list)) and len(p) == 2 for p in pairs):
        m = _mapping(w, pairs)
    if m is None:
        marker = tuple(_freeze(r) for r in rest)
        return _apply(w, sx, x, lambda v: T("mcall", v, "subs", marker, ()) if not is_num(v) else v, "subs", marker)
    # sympy's subs with a list is sequential; order_substitutions makes it act simultaneously
    return _apply(w, sx, x, lambda v: substitute(v, m), "subs", m)


def _freeze(v):
    if isinstance(v, Obj):
        return v.term
    if isinstance(v, (list, tuple)):
        return tuple(_freeze(x) for x in v)
    if isinstance(v, dict):
        return tuple((_freeze(k), _freeze(x)) for k, x in v.items())
    return v


def permutation_map(w, perms):
    """Index mapping of the product of transpositions P_pq applied one after another (Container.permute)."""
    m = {}
    for pq in perms:
        if not (isinstance(pq, (tuple, list)) and len(pq) == 2):
            return None
        p, q = raw_name(pq[0]), raw_name(pq[1])
        if not isinstance(p, str) or not isinstance(q, str):
            return None
        # compose: an index currently mapped to p goes to q and vice versa
        cur = {k: v for k, v in m.items()}
        for k in set(list(cur) + [p, q]):
            v = cur.get(k, k)
            m[k] = q if v == p else p if v == q else v
    return {k: v for k, v in m.items() if k != v}


def _m_permute(w, sx, a, kw):
    x, perms = a[0], a[1:]
    if _kind(x) is None and not isinstance(x, T) and not is_num(x):
        return NotImplemented
    m = permutation_map(w, perms)
    if m is None:
        marker = tuple(_freeze(p) for p in perms)
        if not marker:
            return _apply(w, sx, x, lambda v: v, "permute", marker)
        return _apply(w, sx, x, lambda v: T("mcall", v, "permute", marker, ()) if not is_num(v) else v, "permute", marker)
    return _apply(w, sx, x, lambda v: substitute(v, m), "permute", m)


def _m_atoms(w, sx, a, kw):
    x = raw(a[0])
    want = a[1] if len(a) > 1 else None
    names = []
    for s in subterms(x):
        if s.op == "sym" and s.args[0] in w.index and s.args[0] not in names:
            names.append(s.args[0])
    wn = getattr(want, "short", None) or getattr(want, "name", None)
    if wn is not None and str(wn).split(".")[-1] == "Index":
        return set(w.index[n] for n in names)
    if wn is not None and str(wn).split(".")[-1] == "Symbol":
        out = set(w.index[n] for n in names)
        for s in subterms(x):
            if s.op == "tensor":
                out.add(sym(s.args[1]))
        return out
    return NotImplemented


def _m_set_antisym(w, sx, a, kw):
    x = a[0]
    if _kind(x) != "expr":
        return NotImplemented
    names = arg(a, kw, 1, "antisym_tensors")
    x.attrs["$ass"] = dict(x.attrs["$ass"], antisym_tensors=tuple(sorted(set(names))))
    w.log.append(("set_antisym_tensors", tuple(sorted(set(names)))))
    return None


def _m_set_sym(w, sx, a, kw):
    x = a[0]
    if _kind(x) != "expr":
        return NotImplemented
    names = arg(a, kw, 1, "sym_tensors")
    x.attrs["$ass"] = dict(x.attrs["$ass"], sym_tensors=tuple(sorted(set(names))))
    return None


def _m_set_target(w, sx, a, kw):
    x = a[0]
    if _kind(x) != "expr":
        return NotImplemented
    tg = arg(a, kw, 1, "target_idx")
    x.attrs["$ass"] = dict(x.attrs["$ass"], target_idx=tuple(tg) if isinstance(tg, (list, tuple)) else tg)
    return None


def _m_symmetry(w, sx, a, kw):
    x = a[0]
    if _kind(x) is None:
        return NotImplemented
    w.log.append(("symmetry", (x, dict(kw), tuple(a[1:]))))
    key = repr(canon(x.attrs["$value"]))
    if key in w.symmetry:
        return dict(w.symmetry[key])
    if "*" in w.symmetry:
        return dict(w.symmetry["*"])
    return NotImplemented


METHODS = {
    "copy": _m_copy, "expand": _m_same, "doit": _m_same, "factor": _m_same, "simplify": _m_same,
    "subs": _m_subs, "permute": _m_permute, "atoms": _m_atoms, "set_antisym_tensors": _m_set_antisym,
    "set_sym_tensors": _m_set_sym, "set_target_idx": _m_set_target, "symmetry": _m_symmetry,
}


def as_self(w, rec, cls, names=(), **extra):
    """A record of the library class ``cls`` (so that its methods resolve) that otherwise is the model record ``rec``;
    the public attributes ``names`` are filled in from the model (they take precedence over the library's properties)."""
    a = dict(rec.attrs)
    a["$ass"] = w.assumptions_of(rec)
    for n in names:
        r = w.attr(None, rec, n, None)
        if r is NotImplemented:
            raise AnalysisError(f"C13 model: no attribute {n} of {rec}")
        a[n] = r
    a.update(extra)
    o = Obj(cls, "self")
    o.attrs.update(a)
    return o


def fmt(t, n=300):
    """Readable text of a value (messages only)."""
    def f(x):
        if isinstance(x, Obj):
            if "$value" in x.attrs:
                return f(x.attrs["$value"])
            return x.name
        if isinstance(x, T):
            if x.op == "tensor":
                cls, name, up, lo, bks = x.args
                s = name + "_" + "".join(str(i.args[0]) if isinstance(i, T) and i.op == "sym" else show(i) for i in up)
                if lo:
                    s += "^" + "".join(str(i.args[0]) if isinstance(i, T) and i.op == "sym" else show(i) for i in lo)
                return s
            if x.op == "add":
                return "(" + " + ".join(f(y) for y in x.args) + ")"
            if x.op == "mul":
                return "*".join(f(y) for y in x.args)
            if x.op == "pow":
                return f"{f(x.args[0])}**{f(x.args[1])}"
            if x.op == "mcall":
                return f"{f(x.args[0])}.{x.args[1]}({', '.join(f(y) for y in x.args[2])})"
            if x.op == "call":
                return f"{x.args[0]}({', '.join(f(y) for y in x.args[1])}{', ' if x.args[1] and x.args[2] else ''}" \
                       f"{', '.join(k + '=' + f(v) for k, v in x.args[2])})"
            return show(x)
        if isinstance(x, (tuple, list)):
            return "(" + ", ".join(f(y) for y in x) + ")"
        if isinstance(x, dict):
            return "{" + ", ".join(f"{f(k)}: {f(v)}" for k, v in x.items()) + "}"
        if isinstance(x, (set, frozenset)):
            return "{" + ", ".join(sorted(f(y) for y in x)) + "}"
        return str(x)
    s = f(t)
    return s if len(s) <= n else s[:n - 3] + "..."
