"""Abstract evaluator over symbolic terms (static summarisation of functions).

The source of a function is *evaluated by this module*, never by CPython and
never imported: parameters are symbolic terms (or small concrete abstract
values chosen by the rule), every call the analysis does not look into becomes
an uninterpreted ``call`` term and is logged as an effect, local names,
temporaries, tuple unpacking, keyword/positional spelling, comprehensions
versus loops, early returns versus else-branches and helper functions (which
are evaluated through) all disappear in the resulting terms.  A branch on a
symbolic condition forks the evaluation (decision replay); there is no
constraint solver - a path is only pruned when the very same atom is decided
twice.  Bounds: loops over symbolic collections are unrolled ``unroll`` times
with symbolic elements, ``max_paths`` paths, ``max_steps`` steps per path; a
bound hit or an unsupported construct is an ``AnalysisError`` (exit 2), never
a guess.
"""
from __future__ import annotations

import ast
import operator
from fractions import Fraction

from .model import AnalysisError, U, FuncNode
from .terms import (T, sym, t_mul, t_add, t_sub, t_neg, t_pow, t_div, t_cmp, t_not, t_and, t_or, t_ite, is_num,
                    show)


class Obj:
    """Abstract mutable record (``self`` or a structured argument)."""

    def __init__(self, cls=None, name=None, **attrs):
        self.__dict__["cls"] = cls          # "module:Class" or None
        self.__dict__["name"] = name or (cls or "obj")
        self.__dict__["attrs"] = dict(attrs)

    def __getattr__(self, k):
        try:
            return self.__dict__["attrs"][k]
        except KeyError:
            raise AttributeError(k)

    def __repr__(self):
        return f"<{self.name}>"

    @property
    def term(self):
        # a rule may give an abstract record a value ("$value"): arithmetic, comparisons and embedding into
        # terms then use that value instead of the opaque name
        v = self.__dict__["attrs"].get("$value")
        return sym(self.name) if v is None else v


class Ent(Obj):
    """Abstract record with identity (an index, a node, a key object): ``==``, ``is``, ``in`` and dictionary lookups
    against other concrete values are decided by identity instead of becoming symbolic comparisons."""


class Atom(Obj):
    """Abstract record with *concrete identity* (an element of a small finite model chosen by the rule, e.g. one
    orbital index): two Atoms are equal iff they are the same object, so ``==`` / ``is`` / ``in`` against concrete
    values and containers are decided by the evaluator instead of becoming symbolic comparisons of record names.
    The hash is the creation serial, which keeps set/dict iteration order deterministic.  An Atom with a true
    ``_scalar`` attribute is not iterable (iterating/unpacking it raises TypeError like a sympy expression)."""
    _serial = 0

    def __init__(self, cls=None, name=None, **attrs):
        super().__init__(cls, name, **attrs)
        Atom._serial += 1
        self.__dict__["serial"] = Atom._serial

    def __hash__(self):
        return self.__dict__["serial"]


class Rec:
    """Concrete abstract record with *value* semantics, supplied by a rule.

    Unlike ``Obj`` a record never turns into a term: equality is identity, it is
    hashable, so membership tests, ``Counter``, sets and dict keys over records
    stay concrete (no fork per comparison).  Attributes are the given ``attrs``;
    methods/properties of ``cls`` ("module:Class") resolve like for ``Obj``;
    ``classes`` are the short class names ``isinstance`` accepts in addition.
    Any rule-side class may take part through the same duck-typed protocol
    (``sx_getattr(sx, attr, node)``, ``sx_isinstance(sx, cname)``,
    ``sx_setattr(attr, value)``, ``sx_term()``, ``sx_str(sx)``)."""

    def __init__(self, cls=None, label=None, classes=(), /, **attrs):
        self.cls = cls
        self.label = label or (cls or "rec")
        self.classes = tuple(classes)
        self.attrs = dict(attrs)

    def __repr__(self):
        return f"<{self.label}>"

    def __deepcopy__(self, memo):
        return self

    def sx_term(self):
        return sym(self.label)

    def sx_setattr(self, attr, value):
        self.attrs[attr] = value

    def sx_str(self, sx):
        """str(record) / f"{record}": the class's own __str__, evaluated (None if it has none)."""
        m = sx.find_method(self.cls, "__str__") if self.cls else None
        if m is None:
            return None
        r = sx._invoke(Func(m[0], [], m[0]._module, m[0]._qual, bound=self), [], {}, None)
        return r if isinstance(r, str) else None

    def sx_isinstance(self, sx, cname):
        if cname in self.classes:
            return True
        if self.cls:
            return cname == self.cls.split(":")[-1].split(".")[-1] or cname in sx._bases(self.cls)
        return False

    def sx_getattr(self, sx, attr, node):
        if attr in self.attrs:
            return self.attrs[attr]
        m = sx.find_method(self.cls, attr) if self.cls else None
        if m is not None:
            fn, _ = m
            decos = [U(d).split(".")[-1].split("(")[0] for d in fn.decorator_list]
            f = Func(fn, [], fn._module, fn._qual, bound=self)
            if "property" in decos or "cached_property" in decos:
                hk = ".".join(fn._qual.split(".")[-2:])
                if hk in sx.hooks and callable(sx.hooks[hk]):
                    return sx.hooks[hk](sx, [self], {})
                if sx.inline(f"{fn._module.name}:{fn._qual}"):
                    return sx._invoke(f, [], {}, node)
                return T("attr", self.sx_term(), attr)
            if "staticmethod" in decos:
                f.bound = None
            return f
        if self.cls:
            mod, _, q = self.cls.partition(":")
            m = sx.model.modules.get(mod)
            if m is not None and q in m.classes:
                return sx.getattr(ClassRef(m, q), attr, node)
        sx.unsupported(node, f"attribute {attr} of the record {self.label} is not modelled")


class Func:
    def __init__(self, node, frames, module, qual=None, bound=None):
        self.node, self.frames, self.module, self.qual, self.bound = node, frames, module, qual, bound

    def __deepcopy__(self, memo):
        return self

    def __repr__(self):
        return f"<func {self.qual or getattr(self.node, 'name', 'lambda')}>"


class ClassRef:
    def __deepcopy__(self, memo):
        return self

    def __init__(self, module, qual):
        self.module, self.qual = module, qual

    def __repr__(self):
        return f"<class {self.qual}>"

    @property
    def short(self):
        return self.qual.split(".")[-1]


class ModRef:
    def __deepcopy__(self, memo):
        return self

    def __init__(self, name):
        self.name = name

    def __repr__(self):
        return f"<module {self.name}>"


# the text constants of the standard module ``string`` are concrete values
_STRING_CONSTANTS = ("ascii_letters", "ascii_lowercase", "ascii_uppercase", "digits", "hexdigits", "octdigits", "punctuation",
                     "whitespace", "printable")


class Ext:
    """A name the analysis has no source for (sympy, itertools, ...)."""

    def __deepcopy__(self, memo):
        return self

    def __init__(self, name):
        self.name = name

    def __repr__(self):
        return f"<ext {self.name}>"

    def __eq__(self, o):
        return isinstance(o, Ext) and o.name == self.name

    def __hash__(self):
        return hash(("ext", self.name))


class Raised(Exception):
    def __init__(self, name, msg=None, node=None):
        self.name, self.msg, self.node = name, msg, node


class _Return(Exception):
    def __init__(self, v):
        self.v = v


class _GenTruncated(Exception):
    """An unbounded generator function was evaluated far enough (see _TruncatedGen)."""


class _TruncatedGen(list):
    """The first elements of an unbounded generator (``for n in count(): yield ...``).  Generator functions are
    evaluated eagerly; an unbounded one is cut after GEN_CAP elements.  Consumers that take a bounded prefix (islice,
    next, zip with a finite partner) read it; consuming it entirely is an analysis error."""


GEN_CAP = 48


class _Break(Exception):
    pass


class _Continue(Exception):
    pass


class _Cut(Exception):
    """Path abandoned at a bound that the rule declared harmless."""


class Outcome:
    def __init__(self, kind, value, path, effects, env, exc=None):
        self.kind, self.value, self.path, self.effects, self.env, self.exc = kind, value, path, effects, env, exc

    def holds(self, atom, pol=True):
        return any(a == atom and p == pol for a, p in self.path)

    def __repr__(self):
        p = " & ".join(("" if pol else "not ") + show(a) for a, pol in self.path)
        return f"[{p}] -> {self.kind} {show(self.value) if self.kind != 'raise' else self.exc}"


_CMPOPS = {ast.Eq: "==", ast.NotEq: "!=", ast.Lt: "<", ast.LtE: "<=", ast.Gt: ">", ast.GtE: ">=", ast.In: "in",
           ast.NotIn: "not in", ast.Is: "is", ast.IsNot: "is not"}
_PYCMP = {"==": operator.eq, "!=": operator.ne, "<": operator.lt, "<=": operator.le, ">": operator.gt,
          ">=": operator.ge}
_NEGATIVE = {"!=": "==", "not in": "in", "is not": "is"}
_NOISE_RECEIVERS = {"logger", "logging", "warnings"}
_MAYBE_NONE = {"sym", "call", "mcall", "attr", "item", "elem", "ite", "slice", "binop"}


def _is_sym(v):
    return isinstance(v, T)


def _subterms(t):
    from .terms import subterms
    return subterms(t)


def _has_sym(v, depth=3):
    if isinstance(v, T):
        return True
    if depth and isinstance(v, (tuple, list, set, frozenset)):
        return any(_has_sym(x, depth - 1) for x in v)
    return False


class Symex:
    """One instance per rule scenario.

    ``inline``: predicate(qualified name) -> bool for repository functions that
    are evaluated through (nested functions and lambdas always are);
    ``hooks``: short or qualified name -> callable(sx, args, kwargs) replacing a
    call; ``opaque_attr``: attribute reads on terms stay terms (always).
    """

    # hash-order provenance (opt-in, set after construction): ``set_order`` = 0 | 1 iterates every concrete set / frozenset
    # in a canonical order (0) or its reverse (1) - also for list()/tuple()/sorted()/zip()/join and set.pop() - instead of
    # CPython's hash order; ``iter_log`` (dict) receives id(iteration node) -> [sequence of element keys per execution], so
    # that two runs with the two orders show which iteration sites the hash order reaches and whether the result depends on it
    set_order = None
    iter_log = None

    @staticmethod
    def order_key(x):
        if isinstance(x, Obj):
            return "O:" + str(x.name)
        if isinstance(x, (tuple, list)):
            return "(" + ",".join(Symex.order_key(y) for y in x) + ")"
        if isinstance(x, (set, frozenset)):
            return "{" + ",".join(sorted(Symex.order_key(y) for y in x)) + "}"
        if isinstance(x, dict):
            return "{" + ",".join(sorted(f"{Symex.order_key(k)}:{Symex.order_key(v)}" for k, v in x.items())) + "}"
        return repr(x)

    def set_sequence(self, s):
        seq = sorted(s, key=Symex.order_key)
        if self.set_order:
            seq.reverse()
        return seq

    def __init__(self, model, inline=None, hooks=None, unroll=2, max_paths=512, max_steps=200000, what="?",
                 assume_asserts=True, isinstance_hook=None, attr_hook=None, max_depth=12, cut_loops=False,
                 oracle=None, occurrence=None, recursion_error=False, normalize=None, obj_identity=False):
        self.model = model
        self.inline = inline or (lambda q: False)
        self.hooks = dict(hooks or {})
        self.unroll = unroll
        self.max_paths = max_paths
        self.max_steps = max_steps
        self.what = what
        self.assume_asserts = assume_asserts
        self.isinstance_hook = isinstance_hook
        self.attr_hook = attr_hook
        self.max_depth = max_depth
        self.cut_loops = cut_loops
        # optional model of the uninterpreted vocabulary: oracle(sx, atom) -> True | False | None decides an atom
        # (recorded on the path, no fork); None leaves the atom to decision replay
        self.oracle = oracle
        # concrete_key(term) -> True: terms the scenario declares structurally comparable are plain keys of a concrete dict
        # (``d.get(k, default)`` gives the default, ``d[k]`` a KeyError when absent) instead of a symbolic lookup
        self.concrete_key = None
        # occurrence(name) -> True: results of these uninterpreted calls are tagged with the number of the call
        # event (T("occ", term, k)), so that a value computed once and used twice is distinguishable from two calls
        self.occurrence = occurrence
        self.recursion_error = recursion_error  # exceeding max_depth is the analysed program's RecursionError
        self.normalize = normalize          # callable(term) -> term applied to results of symbolic arithmetic
        # True: a name that is no local, module-level name, import or Python builtin is the analysed program's NameError
        # (default: such a name is an external value)
        self.strict_names = False
        self.inplace = False                # True while an augmented assignment is evaluated
        # obj_identity: abstract records (Obj) are concrete individuals - ``is``/``==``/``in`` between a record and
        # another record, None or a plain value are decided by identity instead of becoming symbolic atoms
        self.obj_identity = obj_identity
        self._modconst = {}
        # Module-level *mutable* values (dict/list/set/record bound by a module-level assignment, e.g. a cache) are part of
        # the evaluated state: ``module_state`` holds the instances of the current path, ``_modinit`` their pristine
        # initial values.  Every path starts from the freshly imported module (``module_state`` is emptied in
        # ``_explore``); within one path - e.g. the calls of ``run_sequence`` - writes of an earlier call are seen later.
        self.module_state = {}
        self.memo_state = {}                # results of functions under a memoising decorator (per path)
        self._modinit = {}
        self.fresh_n = 0
        self.on_start = None
        # instance_memo (opt-in): methods under the library's per-instance memoising decorators (``cached_member``: keyed by
        # the arguments with defaults filled in; ``cached_property``) are evaluated once per receiver record and argument
        # tuple; the table lives ON the record (attributes ``_function_cache`` / ``_property_cache``, as misc.py keeps
        # them), so it follows the record through a call history and code that replaces or clears these attributes
        # invalidates it
        self.instance_memo = False

    # ------------------------------------------------------------------ driving
    def run_script(self, script):
        """Call history written by the rule: ``script(sx)`` drives the evaluator through its own operations
        (``sx.getattr(record, name, None)``, ``sx.call_method(record, name, args, kw, None)``) on records it creates
        (fresh per path); all paths are explored like for ``run``, ``Outcome.value`` is what the script returns."""
        return self._explore(lambda: script(self))

    def run(self, ref, make_args, self_obj=None):
        """All outcomes of the function ``module:Qual`` on the arguments built
        by ``make_args()`` (a fresh dict per path)."""
        fn = self.model.fn(ref) if isinstance(ref, str) else ref
        mod = fn._module

        def body():
            args = make_args()
            f = Func(fn, [], mod, getattr(fn, "_qual", None))
            return self._invoke(f, [], args, fn, top=True)
        return self._explore(body)

    def run_sequence(self, refs, make_args_list):
        """Call history: the functions ``refs`` are evaluated one after another on every path, on the argument dicts
        built by ``make_args_list()`` (fresh per path); module-level state written by an earlier call is seen by the
        later ones.  ``Outcome.value`` is the list of per-call results ``("return", value)`` / ``("raise", name)``."""
        fns = [self.model.fn(r) if isinstance(r, str) else r for r in refs]

        def body():
            res = []
            for fn, args in zip(fns, make_args_list()):
                f = Func(fn, [], fn._module, getattr(fn, "_qual", None))
                try:
                    res.append(("return", self._invoke(f, [], args, fn, top=True)))
                except Raised as e:
                    res.append(("raise", e.name))
            return res
        return self._explore(body)

    def run_block(self, fn, stmts, make_env):
        """Outcomes of a statement list inside ``fn`` started from ``make_env()``;
        kind is 'fall' | 'return' | 'raise' | 'break' | 'continue' and ``env`` the final locals."""
        mod = fn._module

        def body():
            frame = make_env()
            self.frames = [frame]
            self.module = mod
            try:
                self.block(stmts)
            except _Break:
                return ("break", None, frame)
            except _Continue:
                return ("continue", None, frame)
            except _Return as r:
                return ("return", r.v, frame)
            return ("fall", None, frame)
        return self._explore(body, block=True)

    def _explore(self, body, block=False):
        outs = []
        pending = [[]]
        while pending:
            prefix = pending.pop()
            self.prefix, self.decisions = prefix, []
            self.facts, self.path, self.effects = {}, [], []
            self.steps, self.depth = 0, 0
            self.frames, self.module = [], None
            self.fresh_n = 0
            self.module_state = {}
            self.memo_state = {}
            if self.on_start is not None:
                self.on_start(self)
            try:
                r = body()
                if block:
                    kind, v, env = r
                    outs.append(Outcome(kind, v, list(self.path), list(self.effects), env))
                else:
                    outs.append(Outcome("return", r, list(self.path), list(self.effects), None))
            except Raised as e:
                outs.append(Outcome("raise", e.msg, list(self.path), list(self.effects), None, exc=e.name))
            except _Cut:
                pass
            except RecursionError:
                raise AnalysisError(f"SX({self.what}): recursion bound exceeded")
            d = self.decisions
            for i in range(len(d) - 1, len(prefix) - 1, -1):
                if d[i] is True:
                    pending.append(d[:i] + [False])
            if len(outs) + len(pending) > self.max_paths:
                raise AnalysisError(f"SX({self.what}): more than {self.max_paths} paths")
        return outs

    def unsupported(self, node, why="construct outside the abstract evaluator"):
        raise AnalysisError(f"SX({self.what}): {why}: `{U(node)[:90] if isinstance(node, ast.AST) else node}` line "
                            f"{getattr(node, 'lineno', '?')}")

    def fresh(self, base="v"):
        self.fresh_n += 1
        return sym(f"${base}{self.fresh_n}")

    # --------------------------------------------------------------- conditions
    def truth(self, v, node=None):
        if isinstance(v, T):
            return self._decide(v)
        if isinstance(v, Obj):
            return True
        if isinstance(v, (Func, ClassRef, ModRef, Ext)):
            return True
        return bool(v)

    def _decide(self, c):
        if self.occurrence is not None:
            from .terms import strip_occ
            c = strip_occ(c)
            if not isinstance(c, T):
                return bool(c)
        if c.op == "not":
            return not self.truth(c.args[0])
        if c.op == "and":
            for x in c.args:
                if not self.truth(x):
                    return False
            return True
        if c.op == "or":
            for x in c.args:
                if self.truth(x):
                    return True
            return False
        if c.op == "ite":
            return self.truth(c.args[1]) if self.truth(c.args[0]) else self.truth(c.args[2])
        pol = True
        if c.op == "cmp" and c.args[0] in _NEGATIVE:
            c = T("cmp", _NEGATIVE[c.args[0]], c.args[1], c.args[2])
            pol = False
        if c in self.facts:
            d = self.facts[c]
        elif self.oracle is not None and (r := self.oracle(self, c)) is not None:
            d = bool(r)
            self.facts[c] = d
            self.path.append((c, d))
        else:
            k = len(self.decisions)
            d = self.prefix[k] if k < len(self.prefix) else True
            self.decisions.append(d)
            self.facts[c] = d
            self.path.append((c, d))
        return d if pol else not d

    def assume(self, c, value=True):
        """Record a fact without forking (used by rules to prune)."""
        if isinstance(c, T):
            self.facts[c] = value

    # --------------------------------------------------------------- statements
    def block(self, stmts):
        for s in stmts:
            self.stmt(s)

    def _noise(self, s):
        """Statements without influence on values: logging, pass, docstrings."""
        if isinstance(s, ast.Pass):
            return True
        if isinstance(s, ast.Expr):
            v = s.value
            if isinstance(v, ast.Constant):
                return True
            if isinstance(v, ast.Call):
                f = v.func
                if isinstance(f, ast.Name) and f.id == "print":
                    return True
                if isinstance(f, ast.Attribute):
                    base = f.value
                    while isinstance(base, ast.Attribute):
                        base = base.value
                    if isinstance(base, ast.Name) and base.id in _NOISE_RECEIVERS:
                        return True
        if isinstance(s, ast.If):
            return all(self._noise(x) for x in s.body) and all(self._noise(x) for x in s.orelse)
        if isinstance(s, ast.For):
            return all(self._noise(x) for x in s.body) and all(self._noise(x) for x in s.orelse)
        return False

    def stmt(self, s):
        self.steps += 1
        if self.steps > self.max_steps:
            self.unsupported(s, "step bound exceeded")
        if self._noise(s):
            return
        if isinstance(s, ast.Expr):
            self.ev(s.value)
        elif isinstance(s, ast.Return):
            raise _Return(self.ev(s.value) if s.value is not None else None)
        elif isinstance(s, ast.If):
            if self.truth(self.ev(s.test), s.test):
                self.block(s.body)
            else:
                self.block(s.orelse)
        elif isinstance(s, ast.Assign):
            v = self.ev(s.value)
            for t in s.targets:
                self.assign(t, v)
        elif isinstance(s, ast.AnnAssign):
            if s.value is not None:
                self.assign(s.target, self.ev(s.value))
        elif isinstance(s, ast.AugAssign):
            cur = self.ev(_load(s.target))
            v = self.ev(s.value)
            if isinstance(cur, list) and isinstance(s.op, ast.Add):
                cur.extend(self.iterate(v, s))
                return
            if isinstance(cur, set) and isinstance(s.op, (ast.BitOr,)):
                cur.update(v)
                return
            if hasattr(type(cur), "sx_inplace"):
                # mutable model value of a rule: `x op= v` may update the object itself (aliases see it)
                r = cur.sx_inplace(self, s.op, v, s)
                if r is not NotImplemented:
                    self.assign(s.target, r)
                    return
            self.inplace = True         # visible to rule-defined arithmetic ("$binop"): `x op= y`
            try:
                r = self.binop(s.op, cur, v, s)
            finally:
                self.inplace = False
            self.assign(s.target, r)
        elif isinstance(s, ast.Assert):
            c = self.ev(s.test)
            if isinstance(c, T) and self.assume_asserts:
                self._assume_true(c)
            elif not self.truth(c, s.test):
                raise Raised("AssertionError", None, s)
        elif isinstance(s, ast.Raise):
            name, msg = "Exception", None
            if s.exc is None:
                raise Raised("$reraise", None, s)
            if s.exc is not None:
                e = s.exc.func if isinstance(s.exc, ast.Call) else s.exc
                name = U(e).split(".")[-1]
            raise Raised(name, msg, s)
        elif isinstance(s, ast.For):
            self.for_loop(s)
        elif isinstance(s, ast.While):
            n = 0
            broke = False
            while True:
                c = self.ev(s.test)
                if not self.truth(c, s.test):
                    break
                n += 1
                # a concrete, non-constant condition (a scan over a concrete string/list) gets the bound of for-loops
                if n > (64 if isinstance(c, T) or isinstance(s.test, ast.Constant) or self.cut_loops else 4096):
                    if self.cut_loops:
                        raise _Cut()
                    self.unsupported(s, "while bound exceeded")
                try:
                    self.block(s.body)
                except _Break:
                    broke = True
                    break
                except _Continue:
                    continue
            if not broke:
                self.block(s.orelse)
        elif isinstance(s, ast.Delete):
            for t in s.targets:
                if isinstance(t, ast.Subscript):
                    obj = self.ev(t.value)
                    k = self.ev(t.slice)
                    try:
                        del obj[k]
                    except (KeyError, IndexError):
                        if isinstance(obj, (dict, list)) and not isinstance(k, T):
                            raise Raised("KeyError" if isinstance(obj, dict) else "IndexError", None, s)
                        self.unsupported(s, "del of a missing key")
                    except TypeError:
                        self.unsupported(s, "del of a missing key")
                elif isinstance(t, ast.Name):
                    self.frames[-1].pop(t.id, None)
                else:
                    self.unsupported(s)
        elif isinstance(s, ast.Continue):
            raise _Continue()
        elif isinstance(s, ast.Break):
            raise _Break()
        elif isinstance(s, (ast.Import, ast.ImportFrom)):
            self._local_import(s)
        elif isinstance(s, FuncNode):
            f = Func(s, list(self.frames), self.module, getattr(s, "_qual", s.name))
            # defaults of a nested function are evaluated at definition time in the enclosing scope
            a = s.args
            allp = a.posonlyargs + a.args
            pairs = list(zip([p.arg for p in allp][len(allp) - len(a.defaults):], a.defaults)) + \
                [(p.arg, d) for p, d in zip(a.kwonlyargs, a.kw_defaults) if d is not None]
            f.defaults = {p: self.ev(d) for p, d in pairs if not isinstance(d, ast.Constant)}
            self.frames[-1][s.name] = f
        elif isinstance(s, ast.Try):
            self.try_stmt(s)
        elif isinstance(s, ast.With):
            for it in s.items:
                v = self.ev(it.context_expr)
                if it.optional_vars is not None:
                    self.assign(it.optional_vars, v)
            self.block(s.body)
        elif isinstance(s, ast.Match):
            self.match_stmt(s)
        elif isinstance(s, ast.Nonlocal):
            self.frames[-1].setdefault("$nonlocal", set()).update(s.names)
        elif isinstance(s, ast.Global):
            self.unsupported(s)
        else:
            self.unsupported(s)

    def match_stmt(self, s):
        """``match`` with value, singleton, capture, wildcard, or- and fixed-length sequence patterns."""
        subject = self.ev(s.subject)
        for case in s.cases:
            binds = {}
            if self._match(case.pattern, subject, binds, s):
                saved = dict(self.frames[-1])
                self.frames[-1].update(binds)
                if case.guard is not None and not self.truth(self.ev(case.guard), case.guard):
                    self.frames[-1].clear()
                    self.frames[-1].update(saved)
                    continue
                self.block(case.body)
                return

    def _match(self, pat, v, binds, node):
        if isinstance(pat, ast.MatchValue):
            return self.truth(self.compare("==", v, self.ev(pat.value), node), node)
        if isinstance(pat, ast.MatchSingleton):
            return self.truth(self.compare("is", v, pat.value, node), node)
        if isinstance(pat, ast.MatchAs):
            if pat.pattern is not None and not self._match(pat.pattern, v, binds, node):
                return False
            if pat.name is not None:
                binds[pat.name] = v
            return True
        if isinstance(pat, ast.MatchOr):
            for p in pat.patterns:
                b = {}
                if self._match(p, v, b, node):
                    binds.update(b)
                    return True
            return False
        if isinstance(pat, ast.MatchSequence) and not any(isinstance(p, ast.MatchStar) for p in pat.patterns):
            if not isinstance(v, (list, tuple)) or len(v) != len(pat.patterns):
                if isinstance(v, T):
                    self.unsupported(node, "sequence pattern on a symbolic value")
                return False
            return all(self._match(p, x, binds, node) for p, x in zip(pat.patterns, v))
        if isinstance(pat, ast.MatchClass) and not pat.patterns:
            # ``case Cls():`` / ``case Cls(attr=pattern):`` = isinstance test plus attribute sub-patterns
            r = self.isinstance(v, self.ev(pat.cls), node)
            if not (r if isinstance(r, bool) else self.truth(r, node)):
                return False
            for name, p in zip(pat.kwd_attrs, pat.kwd_patterns):
                attr = ast.copy_location(ast.Attribute(value=ast.Constant(value=None), attr=name, ctx=ast.Load()), node)
                if not self._match(p, self.getattr(v, name, attr), binds, node):
                    return False
            return True
        self.unsupported(node, f"match pattern {type(pat).__name__}")

    def _assume_true(self, c):
        if c.op == "and":
            for x in c.args:
                if isinstance(x, T):
                    self._assume_true(x)
            return
        pol = True
        if c.op == "not":
            c, pol = c.args[0], False
            if not isinstance(c, T):
                return
        if c.op == "cmp" and c.args[0] in _NEGATIVE:
            c = T("cmp", _NEGATIVE[c.args[0]], c.args[1], c.args[2])
            pol = not pol
        if c.op in ("and", "or", "not", "ite"):
            return
        self.facts.setdefault(c, pol)

    def try_stmt(self, s):
        try:
            self.block(s.body)
        except Raised as r:
            for h in s.handlers:
                if h.type is None:
                    names = [r.name]
                elif isinstance(h.type, ast.Tuple):
                    names = [U(e).split(".")[-1] for e in h.type.elts]
                else:
                    names = [U(h.type).split(".")[-1]]
                if r.name in names or "Exception" in names:
                    if h.name:
                        self.frames[-1][h.name] = sym(f"$exc_{r.name}")
                    try:
                        self.block(h.body)
                    except Raised as r2:
                        if r2.name == "$reraise":
                            raise r
                        raise
                    break
            else:
                self.block(s.finalbody)
                raise
        else:
            self.block(s.orelse)
        self.block(s.finalbody)

    def iterate(self, it, node):
        """Python-level sequence of the elements of a value."""
        if self.set_order is not None or self.iter_log is not None:
            r = self.set_sequence(it) if self.set_order is not None and isinstance(it, (set, frozenset)) else self._iterate(it, node)
            if self.iter_log is not None and node is not None and not isinstance(r, _CountSeq):
                self.iter_log.setdefault(id(node), []).append(tuple(Symex.order_key(x) for x in r))
            return r
        return self._iterate(it, node)

    def _iterate(self, it, node):
        if isinstance(it, _TruncatedGen):
            self.unsupported(node, "an unbounded generator is consumed entirely")
        if isinstance(it, dict):
            return list(it.keys())
        if isinstance(it, _CountSeq):
            return it
        if isinstance(it, _Iter):           # any other consumer drains the iterator
            r = list(it)
            it.clear()
            return r
        if isinstance(it, (list, tuple, range, str, set, frozenset)):
            return it if isinstance(it, list) else list(it)
        if isinstance(it, T):
            return [T("elem", it, k) for k in range(self.unroll)]
        if isinstance(it, Obj) and isinstance(it.attrs.get("_fields"), tuple):
            return [it.attrs[f] for f in it.attrs["_fields"]]
        if isinstance(it, Atom) and it.attrs.get("_scalar"):
            raise Raised("TypeError", f"{it!r} is not iterable", node)
        if isinstance(it, Obj):
            return [T("elem", it.term, k) for k in range(self.unroll)]
        self.unsupported(node, f"iteration over {type(it).__name__}")

    def for_loop(self, s):
        it = self.ev(s.iter)
        consume = isinstance(it, _Iter)      # an explicit iterator: a loop left by break/return keeps the rest for later
        seq = it if consume else self.iterate(it, s)
        broke = False
        k = 0
        n = 0
        while k < len(seq):
            x = seq.pop(0) if consume else seq[k]
            k += 0 if consume else 1
            n += 1
            if n > 4096:
                self.unsupported(s, "loop bound exceeded")
            if isinstance(seq, _CountSeq) and any(len(fr.get("$yield", ())) >= GEN_CAP for fr in self.frames):
                raise _GenTruncated()
            self.assign(s.target, x)
            try:
                self.block(s.body)
            except _Break:
                broke = True
                break
            except _Continue:
                continue
        if not broke:
            self.block(s.orelse)

    def assign(self, t, v):
        if isinstance(t, ast.Name):
            if t.id in self.frames[-1].get("$nonlocal", ()):
                for fr in reversed(self.frames[:-1]):       # nonlocal: rebind in the defining scope
                    if t.id in fr:
                        fr[t.id] = v
                        return
            self.frames[-1][t.id] = v
        elif isinstance(t, (ast.Tuple, ast.List)):
            star = [i for i, e in enumerate(t.elts) if isinstance(e, ast.Starred)]
            if isinstance(v, T):
                if star:
                    self.unsupported(t, "starred unpacking of a term")
                vs = [T("item", v, i) for i in range(len(t.elts))]
            else:
                if v is None:
                    raise Raised("TypeError", "cannot unpack None", t)
                if isinstance(v, Obj) and isinstance(v.attrs.get("_fields"), tuple):
                    v = [v.attrs[f] for f in v.attrs["_fields"]]
                try:
                    vs = list(v)
                except TypeError:
                    self.unsupported(t, "unpacking a non-sequence")
            if star:
                i = star[0]
                tail = len(t.elts) - i - 1
                if len(vs) < len(t.elts) - 1:
                    raise Raised("ValueError", None, t)
                vs = vs[:i] + [vs[i:len(vs) - tail]] + vs[len(vs) - tail:]
                elts = [e.value if isinstance(e, ast.Starred) else e for e in t.elts]
            else:
                elts = t.elts
                if len(vs) != len(elts):
                    raise Raised("ValueError", None, t)
            for e, x in zip(elts, vs):
                self.assign(e, x)
        elif isinstance(t, ast.Subscript):
            obj = self.ev(t.value)
            if isinstance(t.slice, ast.Slice):
                # ``lst[a:b] = values`` on a concrete list with concrete bounds
                lo, hi, st = (self.ev(x) if x is not None else None for x in (t.slice.lower, t.slice.upper, t.slice.step))
                if isinstance(obj, list) and not any(isinstance(x, T) for x in (lo, hi, st)):
                    try:
                        obj[lo:hi:st] = list(self.iterate(v, t))
                    except (TypeError, ValueError):
                        self.unsupported(t, "slice store")
                    return
                self.unsupported(t, "slice store")
            k = self.ev(t.slice)
            if isinstance(obj, (dict, list)):
                try:
                    obj[k] = v
                except (IndexError, TypeError):
                    self.unsupported(t, "subscript store")
            elif isinstance(obj, T):
                self.effects.append(T("setitem", obj, k, v))
            else:
                self.unsupported(t)
        elif isinstance(t, ast.Attribute):
            obj = self.ev(t.value)
            if isinstance(obj, Obj):
                obj.attrs[t.attr] = v
            elif isinstance(obj, T):
                self.effects.append(T("setattr", obj, t.attr, v))
            elif isinstance(obj, Func):
                pass    # metadata of a function object (__doc__, __name__) does not influence its evaluation
            elif hasattr(obj, "sx_setattr"):
                obj.sx_setattr(t.attr, v)
            else:
                self.unsupported(t)
        else:
            self.unsupported(t)

    # ------------------------------------------------------------------ names
    def lookup(self, name, node=None):
        for fr in reversed(self.frames):
            if name in fr:
                return fr[name]
        return self.global_name(self.module, name, node)

    def global_name(self, mod, name, node=None):
        if name in self.hooks and not callable(self.hooks[name]):
            return self.hooks[name]
        if mod is not None:
            if name in mod.functions and "." not in name:
                return Func(mod.functions[name], [], mod, name)
            if name in mod.classes:
                return ClassRef(mod, name)
            key = (mod.name, name)
            if key in self._modconst:
                return self._modconst[key]
            if key in self.module_state:
                return self.module_state[key]
            if key in self._modinit:
                import copy
                self.module_state[key] = copy.deepcopy(self._modinit[key])
                return self.module_state[key]
            for st in mod.tree.body:
                if isinstance(st, ast.Assign) and any(isinstance(t, ast.Name) and t.id == name for t in st.targets) \
                        or isinstance(st, ast.AnnAssign) and isinstance(st.target, ast.Name) and st.target.id == name \
                        and st.value is not None:
                    saved = (self.frames, self.module)
                    self.frames, self.module = [{}], mod
                    try:
                        v = self.ev(st.value)
                    finally:
                        self.frames, self.module = saved
                    if isinstance(v, (dict, list, set, Obj)):
                        import copy
                        self._modinit[key] = v                  # pristine, never handed out
                        self.module_state[key] = copy.deepcopy(v)
                        return self.module_state[key]
                    self._modconst[key] = v
                    return v
                # module-level tuple unpacking: A, B = 0, 1 / (A, B), C = ...
                if isinstance(st, ast.Assign) and any(isinstance(t, (ast.Tuple, ast.List)) and
                                                      any(isinstance(n, ast.Name) and n.id == name for n in ast.walk(t))
                                                      for t in st.targets):
                    saved = (self.frames, self.module)
                    self.frames, self.module = [{}], mod
                    try:
                        v = self.ev(st.value)
                    finally:
                        self.frames, self.module = saved

                    def _pick(tgt, val):
                        if isinstance(tgt, ast.Name):
                            return (True, val) if tgt.id == name else (False, None)
                        if isinstance(tgt, (ast.Tuple, ast.List)) and isinstance(val, (tuple, list)) \
                                and len(val) == len(tgt.elts) and not any(isinstance(e, ast.Starred) for e in tgt.elts):
                            for e, x in zip(tgt.elts, val):
                                ok, r = _pick(e, x)
                                if ok:
                                    return ok, r
                        return False, None
                    for t in st.targets:
                        ok, r = _pick(t, v)
                        if ok:
                            self._modconst[key] = r
                            return r
            if name in mod.imports:
                return self.resolve_import(mod, mod.imports[name], name)
        if name in _BUILTIN_CONST:
            return _BUILTIN_CONST[name]
        if name in _BUILTINS or name in ("isinstance", "print", "getattr", "hasattr", "type", "map", "filter", "super",
                                         "issubclass", "callable", "iter", "next", "divmod", "round", "id", "repr",
                                         "frozenset", "Exception", "ValueError", "TypeError", "KeyError",
                                         "NotImplementedError", "RuntimeError", "IndexError", "AttributeError"):
            return Ext(name)
        if self.strict_names:
            import builtins
            if not hasattr(builtins, name):
                raise Raised("NameError", name, node)
        return Ext(name)

    def resolve_import(self, mod, origin, local):
        modpart, _, obj = origin.partition(":")
        if not _:
            # "import x" / "import x.y"
            return Ext(origin)
        level = len(modpart) - len(modpart.lstrip("."))
        target = modpart.lstrip(".")
        if level == 0 and target == "string" and obj in _STRING_CONSTANTS:
            return getattr(__import__("string"), obj)      # from string import ascii_letters, digits, ...
        if level == 0 and not target.startswith(self.model.PKG):
            return Ext(obj)
        if level:
            base = mod.name.split(".")[:-1]
            if level > 1:
                base = base[:len(base) - (level - 1)]
            full = ".".join(base + ([target] if target else []))
        else:
            full = target[len(self.model.PKG):].lstrip(".")
        # from . import module
        cand = (full + "." + obj).lstrip(".") if full else obj
        if cand in self.model.modules:
            return ModRef(cand)
        if full in self.model.modules:
            m = self.model.modules[full]
            if obj in m.functions or obj in m.classes or any(
                    isinstance(st, (ast.Assign, ast.AnnAssign)) for st in m.tree.body) or obj in m.imports:
                return self.global_name(m, obj)
        return Ext(obj)

    def _local_import(self, s):
        m = self.module
        if isinstance(s, ast.ImportFrom):
            modp = "." * s.level + (s.module or "")
            for a in s.names:
                self.frames[-1][a.asname or a.name] = self.resolve_import(m, f"{modp}:{a.name}", a.asname or a.name)
        else:
            for a in s.names:
                self.frames[-1][(a.asname or a.name).split(".")[0]] = Ext(a.name)

    # ------------------------------------------------------------ expressions
    def binop(self, op, a, b, node):
        # optional model of operators on abstract records: ``sx.binop_hook(sx, op, a, b, node)`` (node is the
        # AugAssign statement for in-place operators); NotImplemented falls through to the generic term arithmetic
        h = getattr(self, "binop_hook", None)
        if h is not None:
            r = h(self, op, a, b, node)
            if r is not NotImplemented:
                return r
        # abstract records may define their own arithmetic: attrs["$binop"](sx, op, left, right, node)
        for x in (a, b):
            if isinstance(x, Obj) and callable(x.attrs.get("$binop")):
                r = x.attrs["$binop"](self, op, a, b, node)
                if r is not NotImplemented:
                    return r
        r = self._binop(op, a, b, node)
        if self.normalize is not None and isinstance(r, T):
            r = self.normalize(r)
        return r

    def _binop(self, op, a, b, node):
        if isinstance(a, Ext) and a.name in _SYMPY_NUM:
            a = _SYMPY_NUM[a.name]
        if isinstance(b, Ext) and b.name in _SYMPY_NUM:
            b = _SYMPY_NUM[b.name]
        # a name without source (S.One, sympy.pi, ...) is an uninterpreted symbol in arithmetic, as in comparisons
        if isinstance(a, Ext):
            a = sym(a.name)
        if isinstance(b, Ext):
            b = sym(b.name)
        sa, sb = isinstance(a, T), isinstance(b, T)
        if isinstance(a, Obj):
            a, sa = a.term, True
        if isinstance(b, Obj):
            b, sb = b.term, True
        if sa or sb:
            if isinstance(op, ast.Add):
                if isinstance(a, str) and isinstance(b, T) and b.op == "fstr" or isinstance(b, str) and isinstance(a, T) and a.op == "fstr" \
                        or isinstance(a, T) and isinstance(b, T) and a.op == b.op == "fstr":
                    parts = (list(a.args) if isinstance(a, T) else [a]) + (list(b.args) if isinstance(b, T) else [b])
                    merged = []
                    for x in parts:
                        if isinstance(x, str) and merged and isinstance(merged[-1], str):
                            merged[-1] += x
                        else:
                            merged.append(x)
                    return T("fstr", *merged)
                if isinstance(a, (str, list, tuple)) or isinstance(b, (str, list, tuple)):
                    return T("concat", a, b)
                return t_add(a, b)
            if isinstance(op, ast.Sub):
                return t_sub(a, b)
            if isinstance(op, ast.Mult):
                return t_mul(a, b)
            if isinstance(op, ast.Div):
                return t_div(a, b)
            if isinstance(op, ast.Pow):
                return t_pow(a, b)
            return T("binop", type(op).__name__, a, b)
        if isinstance(op, ast.Div):
            if is_num(a) and is_num(b):
                if b == 0:
                    raise Raised("ZeroDivisionError", None, node)
                return t_div(a, b)
            if isinstance(a, float) or isinstance(b, float):
                return a / b
            if getattr(a, "_symexpr", False) or getattr(b, "_symexpr", False):
                # model values of a rule that implement their own arithmetic
                try:
                    return a / b
                except TypeError:
                    self.unsupported(node, "division of unsupported values")
            if hasattr(a, "sx_getattr") or hasattr(b, "sx_getattr"):      # rule-side number domain
                try:
                    return a / b
                except ZeroDivisionError:
                    raise Raised("ZeroDivisionError", None, node)
                except TypeError:
                    pass
            self.unsupported(node, "true division")
        if isinstance(op, ast.Pow) and is_num(a) and isinstance(b, int):
            return t_pow(a, b)
        try:
            return _BIN[type(op)](a, b)
        except KeyError:
            self.unsupported(node, "operator")
        except ZeroDivisionError:
            raise Raised("ZeroDivisionError", None, node)
        except Exception:
            self.unsupported(node, f"arithmetic on {type(a).__name__}, {type(b).__name__}")

    def _atom_compare(self, opname, a, b, node):
        """Comparisons that involve an ``Atom`` and no symbolic term are decided by identity."""
        if isinstance(a, T) or isinstance(b, T):
            return NotImplemented
        if opname in ("in", "not in"):
            if not isinstance(a, Atom):
                return NotImplemented
            if isinstance(b, str) or (isinstance(b, Atom) and b.attrs.get("_scalar")):
                raise Raised("TypeError", None, node)    # 'in <string>' / argument is not iterable
            if not isinstance(b, (dict, list, tuple, set, frozenset)) or any(isinstance(e, T) for e in b):
                return NotImplemented
            r = any(e is a for e in b)
            return r if opname == "in" else not r
        if opname in ("==", "!=", "is", "is not"):
            return (a is b) if opname in ("==", "is") else (a is not b)
        return NotImplemented

    def compare(self, opname, a, b, node):
        # optional model of comparisons on abstract records: ``sx.compare_hook(sx, opname, a, b, node)``
        h = getattr(self, "compare_hook", None)
        if h is not None:
            r = h(self, opname, a, b, node)
            if r is not NotImplemented:
                return r
        if (isinstance(a, Ent) or isinstance(b, Ent)) and opname in ("==", "!=", "is", "is not") \
                and not isinstance(a, T) and not isinstance(b, T):
            return (a is b) if opname in ("==", "is") else (a is not b)
        if isinstance(a, Ent) and opname in ("in", "not in"):
            r = self.contains(b, a, node)
            if isinstance(r, bool):
                return r if opname == "in" else not r
        if isinstance(a, Atom) and opname in ("in", "not in") and isinstance(b, (list, tuple, set, frozenset, dict)):
            return any(e is a for e in b) == (opname == "in")
        if isinstance(a, Atom) or isinstance(b, Atom):
            r = self._atom_compare(opname, a, b, node)
            if r is not NotImplemented:
                return r
        if self.obj_identity and opname in ("is", "is not", "==", "!=") and (isinstance(a, Obj) or isinstance(b, Obj)) \
                and all(isinstance(x, Obj) or _plain(x) for x in (a, b)):
            return (a is b) if opname in ("is", "==") else (a is not b)
        if self.obj_identity and opname in ("in", "not in") and isinstance(a, Obj) \
                and isinstance(b, (list, tuple, set, frozenset, dict)) and all(isinstance(e, Obj) or _plain(e) for e in b):
            return any(e is a for e in b) == (opname == "in")
        if isinstance(a, Ext) and isinstance(b, Ext) and opname in ("is", "is not", "==", "!=") \
                and a.name in _TYPE_NAMES and b.name in _TYPE_NAMES:
            return (a.name == b.name) == (opname in ("is", "=="))       # type(x) is str
        if isinstance(a, Ext):
            a = sym(a.name)
        if isinstance(b, Ext):
            b = sym(b.name)
        if opname in ("in", "not in") and isinstance(a, Obj) and a.attrs.get("_identity") and not isinstance(b, (T, Obj)):
            r = self.contains(b, a, node)
            if isinstance(r, bool):
                return r if opname == "in" else not r
        if opname in ("is", "is not") and (a is None or b is None) and isinstance(b if a is None else a, Obj) \
                and (b if a is None else a).attrs.get("_identity"):
            return opname == "is not"   # a record declared to be a distinct object is not None
        if opname in ("in", "not in") and isinstance(a, Obj) and isinstance(b, (list, tuple, set, frozenset)) and \
                all(isinstance(e, Obj) for e in b):
            # an abstract record among abstract records: identity, as for ``==`` of two records
            found = any(e is a for e in b)
            return found if opname == "in" else not found
        if opname in ("is", "is not") and ((isinstance(a, Obj) and b is None and a.attrs.get("$id")) or
                                           (isinstance(b, Obj) and a is None and b.attrs.get("$id"))):
            return opname == "is not"           # a record declared an individual ("$id") is never None
        if isinstance(a, Obj) and not (opname in ("is", "is not", "==", "!=") and isinstance(b, Obj)) \
                and not (opname in ("in", "not in") and a.attrs.get("$id")):
            a = a.term
        if isinstance(b, Obj) and not isinstance(a, Obj):
            b = b.term
        if opname in ("in", "not in"):
            r = self.contains(b, a, node)
            if isinstance(r, T):
                return r if opname == "in" else t_not(r)
            return r if opname == "in" else not r
        if opname in ("is", "is not"):
            if (a is None and isinstance(b, T) and b.op not in _MAYBE_NONE) or \
                    (b is None and isinstance(a, T) and a.op not in _MAYBE_NONE):
                return opname == "is not"       # an arithmetic / constructed value is never None
            if isinstance(a, T) or isinstance(b, T):
                if a is None or b is None or isinstance(a, T) and isinstance(b, T):
                    if isinstance(a, T) and isinstance(b, T) and a == b:
                        return opname == "is"
                    return T("cmp", opname, *sorted((a, b), key=repr))
                return opname == "is not"
            same = a is b or (_plain(a) and _plain(b) and type(a) is type(b) and a == b)
            return same if opname == "is" else not same
        if (isinstance(a, T) or isinstance(b, T)) and opname in ("==", "!=") and self.normalize is not None:
            # with a rule-supplied normal form, equality of two constructed values is equality of their normal forms
            if all(isinstance(x, T) and x.op not in _MAYBE_NONE or is_num(x) for x in (a, b)) and \
                    not any(y.op in _MAYBE_NONE and y.op != "sym" for x in (a, b) if isinstance(x, T) for y in _subterms(x)):
                d = self.normalize(t_sub(a, b))
                if is_num(d):
                    return (d == 0) == (opname == "==")
                return opname == "!="
        if isinstance(a, T) or isinstance(b, T):
            if isinstance(a, T) and isinstance(b, T) and a == b and opname in ("==", "<=", ">="):
                return True
            if isinstance(a, T) and isinstance(b, T) and a == b and opname in ("!=", "<", ">"):
                return False
            return t_cmp(opname, a, b)
        if _has_sym(a) or _has_sym(b):
            if opname in ("==", "!=") and type(a) is type(b) and isinstance(a, (tuple, list)):
                if len(a) != len(b):
                    return opname == "!="
                c = t_and(*[self.compare("==", x, y, node) for x, y in zip(a, b)])
                return c if opname == "==" else t_not(c)
            if opname in ("==", "!=") and type(a) is not type(b):
                return opname == "!="
            return t_cmp(opname, _freeze(a), _freeze(b))
        try:
            return _PYCMP[opname](a, b)
        except TypeError:
            self.unsupported(node, "comparison of unsupported values")

    def contains(self, coll, x, node):
        if isinstance(coll, (list, tuple, set, frozenset, dict)) and (
                isinstance(x, Atom) or (isinstance(x, Ent) or isinstance(x, Obj) and (x.attrs.get("_identity") or x.attrs.get("$id")))
                and not any(isinstance(e, T) for e in coll)
                or self.obj_identity and isinstance(x, Obj) and all(isinstance(e, Obj) or _plain(e) for e in coll)):
            # records declared pairwise distinct / individuals: membership is decided by identity, not forked on
            return any(e is x for e in coll)
        if isinstance(coll, Obj):
            coll = coll.term
        if isinstance(x, Obj) and isinstance(coll, (list, tuple, set, frozenset, dict)) and coll and \
                all(isinstance(e, Obj) for e in coll):
            # an abstract record among abstract records: decided by identity, as ``==`` between two records is
            return any(e is x for e in coll)
        if isinstance(x, Obj):
            x = x.term
        if isinstance(coll, T):
            return T("cmp", "in", x, coll)
        if isinstance(coll, dict):
            coll = list(coll.keys())
        if isinstance(coll, (list, tuple, set, frozenset, range, str)):
            if isinstance(coll, str):
                if isinstance(x, T):
                    return T("cmp", "in", x, coll)
                return x in coll
            elems = list(coll)
            if not isinstance(x, T) and not _has_sym(x) and not any(_has_sym(e) for e in elems):
                try:
                    return x in elems
                except TypeError:
                    self.unsupported(node)
            return t_or(*[self.compare("==", x, e, node) for e in elems])
        if coll is None or is_num(coll) or isinstance(coll, bool):
            raise Raised("TypeError", None, node)     # ``x in None`` / ``x in 3`` is a TypeError in Python
        self.unsupported(node, f"membership in {type(coll).__name__}")

    def ev(self, n):
        self.steps += 1
        if self.steps > self.max_steps:
            self.unsupported(n, "step bound exceeded")
        if isinstance(n, ast.Constant):
            return n.value
        if isinstance(n, ast.Name):
            return self.lookup(n.id, n)
        if isinstance(n, ast.Tuple):
            return tuple(self._elts(n.elts))
        if isinstance(n, ast.List):
            return self._elts(n.elts)
        if isinstance(n, ast.Set):
            return set(self._elts(n.elts))
        if isinstance(n, ast.Dict):
            out = {}
            for k, v in zip(n.keys, n.values):
                if k is None:
                    out.update(self.ev(v))
                else:
                    out[self.ev(k)] = self.ev(v)
            return out
        if isinstance(n, ast.NamedExpr):
            v = self.ev(n.value)
            self.assign(n.target, v)
            return v
        if isinstance(n, ast.UnaryOp):
            v = self.ev(n.operand)
            if isinstance(n.op, ast.Not):
                if isinstance(v, T):
                    return t_not(v)
                return not self.truth(v, n.operand)
            if isinstance(v, Obj) and callable(v.attrs.get("$binop")) and isinstance(n.op, ast.USub):
                return self.binop(ast.Mult(), -1, v, n)     # rule-defined arithmetic: -x = (-1) * x
            if isinstance(v, Obj):
                v = v.term
            if isinstance(n.op, ast.USub):
                if isinstance(v, T):
                    r = t_neg(v)
                    return self.normalize(r) if self.normalize is not None and isinstance(r, T) else r
                return -v
            if isinstance(n.op, ast.UAdd):
                return v
            self.unsupported(n)
        if isinstance(n, ast.BoolOp):
            return self.boolop(n)
        if isinstance(n, ast.IfExp):
            return self.ev(n.body) if self.truth(self.ev(n.test), n.test) else self.ev(n.orelse)
        if isinstance(n, ast.Compare):
            left = self.ev(n.left)
            res = True
            for op, c in zip(n.ops, n.comparators):
                right = self.ev(c)
                r = self.compare(_CMPOPS[type(op)], left, right, n)
                if r is False:
                    return False
                res = t_and(res, r)
                left = right
            return res
        if isinstance(n, ast.BinOp):
            a = self.ev(n.left)
            b = self.ev(n.right)
            if isinstance(n.op, ast.Mod) and isinstance(a, str):
                return T("fstr", a, _freeze(b)) if _has_sym(b) or isinstance(b, T) else a % b
            return self.binop(n.op, a, b, n)
        if isinstance(n, ast.Attribute):
            return self.getattr(self.ev(n.value), n.attr, n)
        if isinstance(n, ast.Subscript):
            return self.subscript(n)
        if isinstance(n, ast.GeneratorExp):
            return self.genexp(n)
        if isinstance(n, (ast.ListComp, ast.SetComp)):
            out = []
            self.comp(n.generators, 0, lambda: out.append(self.ev(n.elt)))
            return set(out) if isinstance(n, ast.SetComp) else out
        if isinstance(n, ast.DictComp):
            out = {}

            def put():
                out[self.ev(n.key)] = self.ev(n.value)
            self.comp(n.generators, 0, put)
            return out
        if isinstance(n, ast.Call):
            return self.callexpr(n)
        if isinstance(n, ast.JoinedStr):
            parts = []
            symbolic = False
            for v in n.values:
                if isinstance(v, ast.Constant):
                    parts.append(str(v.value))
                else:
                    x = self.ev(v.value)
                    if isinstance(x, Obj):
                        x = x.term
                    if _plain(x) and v.format_spec is None and v.conversion in (-1, 115, 114):
                        parts.append(repr(x) if v.conversion == 114 else str(x))
                    elif hasattr(x, "sx_str") and v.format_spec is None and v.conversion in (-1, 115) \
                            and isinstance(x.sx_str(self), str):
                        parts.append(x.sx_str(self))
                    else:
                        symbolic = True
                        parts.append(_freeze(x) if not isinstance(x, T) else x)
            if not symbolic:
                return "".join(parts)
            merged = []
            for p in parts:
                if isinstance(p, str) and merged and isinstance(merged[-1], str):
                    merged[-1] += p
                else:
                    merged.append(p)
            return T("fstr", *merged)
        if isinstance(n, ast.Lambda):
            return Func(n, list(self.frames), self.module, "<lambda>")
        if isinstance(n, ast.Starred):
            self.unsupported(n, "starred outside call")
        if isinstance(n, ast.Yield):
            self.frames[-1].setdefault("$yield", []).append(self.ev(n.value) if n.value is not None else None)
            return None
        if isinstance(n, ast.YieldFrom):
            self.frames[-1].setdefault("$yield", []).extend(self.iterate(self.ev(n.value), n))
            return None
        if isinstance(n, ast.Slice):
            return slice(self.ev(n.lower) if n.lower else None, self.ev(n.upper) if n.upper else None,
                         self.ev(n.step) if n.step else None)
        self.unsupported(n)

    def _elts(self, elts):
        out = []
        for e in elts:
            if isinstance(e, ast.Starred):
                out.extend(self.iterate(self.ev(e.value), e))
            else:
                out.append(self.ev(e))
        return out

    def boolop(self, n):
        is_and = isinstance(n.op, ast.And)
        v = None
        for i, e in enumerate(n.values):
            v = self.ev(e)
            if i == len(n.values) - 1:
                return v
            t = self.truth(v, e)
            if is_and and not t:
                return v
            if not is_and and t:
                return v
        return v

    def subscript_value(self, obj, k, node):
        """``obj[k]`` for already evaluated values."""
        if isinstance(obj, Obj):
            obj = obj.term
        if isinstance(obj, T) or isinstance(k, T):
            return T("item", _freeze(obj), _freeze(k))
        try:
            return obj[k]
        except (KeyError, IndexError):
            raise Raised("KeyError" if isinstance(obj, dict) else "IndexError", None, node)
        except TypeError:
            self.unsupported(node, f"subscript of {type(obj).__name__}")

    def subscript(self, n):
        obj = self.ev(n.value)
        if isinstance(n.slice, ast.Slice):
            lo = self.ev(n.slice.lower) if n.slice.lower else None
            hi = self.ev(n.slice.upper) if n.slice.upper else None
            st = self.ev(n.slice.step) if n.slice.step else None
            if isinstance(obj, (list, tuple, str)) and not any(isinstance(x, T) for x in (lo, hi, st)):
                return obj[lo:hi:st]
            if isinstance(obj, Obj):
                obj = obj.term
            return T("slice", _freeze(obj), lo, hi, st)
        k = self.ev(n.slice)
        if isinstance(obj, Obj) and isinstance(obj.attrs.get("_fields"), tuple) and isinstance(k, int):
            try:
                return obj.attrs[obj.attrs["_fields"][k]]
            except IndexError:
                raise Raised("IndexError", None, n)
        if isinstance(obj, Obj):
            obj = obj.term
        if isinstance(obj, T) or isinstance(k, T):
            if isinstance(obj, dict) and isinstance(k, T):
                if k in obj:
                    return obj[k]
                if self.concrete_key is not None and self.concrete_key(k):
                    raise Raised("KeyError", None, n)
            return T("item", _freeze(obj), _freeze(k))
        try:
            return obj[k]
        except (KeyError, IndexError):
            raise Raised("KeyError" if isinstance(obj, dict) else "IndexError", None, n)
        except TypeError:
            self.unsupported(n, f"subscript of {type(obj).__name__}")

    def genexp(self, n):
        """A generator expression is lazy: only its outermost iterable is evaluated where the expression stands, the
        conditions and the element when it is consumed.  It is evaluated here once (so every consumer sees a list) and
        once more at its first consumption if a container or binding its body reads has changed in between."""
        first = self.ev(n.generators[0].iter)
        out = _GenList()
        self.comp(n.generators, 0, lambda: out.append(self.ev(n.elt)), first=(first,))
        targets = {x.id for g in n.generators for x in ast.walk(g.target) if isinstance(x, ast.Name)}
        body = [n.elt] + [c for g in n.generators for c in g.ifs] + [g.iter for g in n.generators[1:]]
        free = sorted({x.id for b in body for x in ast.walk(b) if isinstance(x, ast.Name)} - targets)
        frames, module = list(self.frames), self.module

        def recompute():
            saved = (self.frames, self.module)
            self.frames, self.module = list(frames), module
            try:
                fresh = []
                self.comp(n.generators, 0, lambda: fresh.append(self.ev(n.elt)), first=(first,))
                return fresh
            finally:
                self.frames, self.module = saved
        return self._lazy_list(out, recompute, lambda: self._gen_state(frames, free))

    def _lazy_list(self, out, recompute, state):
        """``out`` (a _GenList holding the eagerly computed elements) is recomputed at its first consumption if
        ``state()`` differs from what it is now."""
        out._lazy = (self, recompute, state, state())
        return out

    def _callee_state(self, f):
        """State a lazily applied function reads: the bindings of its free names in its closure."""
        if not isinstance(f, Func) or not f.frames:
            return ("id", id(f))
        body = f.node.body if isinstance(f.node.body, list) else [f.node.body]
        bound = {a.arg for a in f.node.args.args + f.node.args.kwonlyargs + f.node.args.posonlyargs}
        free = sorted({x.id for b in body for x in ast.walk(b) if isinstance(x, ast.Name)} - bound)
        return self._gen_state(f.frames, free)

    def _gen_state(self, frames, names):
        st = []
        for nm in names:
            for fr in reversed(frames):
                if nm in fr:
                    st.append((nm, _fingerprint(fr[nm])))
                    break
        return tuple(st)

    def _gen_force(self, out):
        _, recompute, state, then = out._lazy
        out._lazy = None
        if state() == then:
            return
        fresh = recompute()
        list.clear(out)
        list.extend(out, fresh)

    def comp(self, gens, k, emit, first=None):
        if k == len(gens):
            emit()
            return
        g = gens[k]
        it = first[0] if (k == 0 and first is not None) else self.ev(g.iter)
        self.frames.append({}) if k == 0 else None
        try:
            for x in list(self.iterate(it, g.iter)):
                self.assign(g.target, x)
                if all(self.truth(self.ev(c), c) for c in g.ifs):
                    self.comp(gens, k + 1, emit)
        finally:
            if k == 0:
                self.frames.pop()

    # -------------------------------------------------------------- attributes
    def getattr(self, obj, attr, node):
        if isinstance(obj, Obj):
            if attr in obj.attrs:
                return obj.attrs[attr]
            m = self.find_method(obj.cls, attr) if obj.cls else None
            if m is not None:
                fn, cls = m
                decos = [U(d).split(".")[-1].split("(")[0] for d in fn.decorator_list]
                f = Func(fn, [], fn._module, fn._qual, bound=obj)
                if "property" in decos or "cached_property" in decos:
                    q = f"{fn._module.name}:{fn._qual}"
                    hk = ".".join(fn._qual.split(".")[-2:])
                    if hk in self.hooks and callable(self.hooks[hk]):
                        return self.hooks[hk](self, [obj], {})
                    if self.inline(q):
                        return self._invoke(f, [], {}, node)
                    return T("attr", obj.term, attr)
                if "staticmethod" in decos:
                    f.bound = None
                return f
            if self.attr_hook is not None:
                r = self.attr_hook(self, obj, attr, node)
                if r is not NotImplemented:
                    return r
            ca = self.find_class_attr(obj.cls, attr) if obj.cls else None
            if ca is not None:
                # a value defined in the class body (or a base class) read through the instance
                return self.class_attr_value(ca[0], ca[1], attr)
            return T("attr", obj.term, attr)
        if isinstance(obj, T):
            if self.attr_hook is not None:
                r = self.attr_hook(self, obj, attr, node)
                if r is not NotImplemented:
                    return r
            return T("attr", obj, attr)
        if isinstance(obj, ModRef):
            return self.global_name(self.model.modules[obj.name], attr, node)
        if isinstance(obj, ClassRef):
            m = self.find_method(f"{obj.module.name}:{obj.qual}", attr)
            if m is not None:
                fn, cls = m
                return Func(fn, [], fn._module, fn._qual)
            # class attribute
            c = obj.module.classes[obj.qual]
            for st in c.body:
                if isinstance(st, ast.Assign) and any(isinstance(t, ast.Name) and t.id == attr for t in st.targets) \
                        or isinstance(st, ast.AnnAssign) and isinstance(st.target, ast.Name) and st.target.id == attr \
                        and st.value is not None:
                    return self.class_attr_value(st.value, obj.module, attr)
            return T("attr", sym(obj.short), attr)
        if isinstance(obj, Ext):
            if obj.name == "string" and attr in _STRING_CONSTANTS:
                return getattr(__import__("string"), attr)  # string.ascii_letters, ...
            return Ext(f"{obj.name}.{attr}")
        if isinstance(obj, (dict, list, set, str, tuple, frozenset)):
            return ("__bound__", obj, attr)
        if isinstance(obj, Fraction) and attr in ("numerator", "denominator"):
            return getattr(obj, attr)
        if isinstance(obj, int) and attr in ("numerator", "denominator", "real"):
            return getattr(obj, attr)
        if is_num(obj) and attr in _NUMBER_FLAGS:
            # python numbers stand for sympy numbers (cf. Rational -> Fraction): their assumption flags
            return _NUMBER_FLAGS[attr](obj)
        if isinstance(obj, Func) and attr == "__name__":
            return getattr(obj.node, "name", "<lambda>")
        if hasattr(obj, "sx_getattr"):
            return obj.sx_getattr(self, attr, node)
        if obj is None:
            raise Raised("AttributeError", f"'NoneType' object has no attribute '{attr}'", node)
        if self.attr_hook is not None:
            # model values supplied by a rule (hooks may return arbitrary python objects)
            r = self.attr_hook(self, obj, attr, node)
            if r is not NotImplemented:
                return r
        self.unsupported(node, f"attribute {attr} of {type(obj).__name__}")

    def class_attr_value(self, node, mod, name):
        """Value of the class-body assignment ``name = <node>``.  A *mutable* value (dict/list/set/record, e.g. a class
        level cache) is evaluated state like a module-level one: it is evaluated once per path and that instance is kept
        in ``module_state`` (emptied at the start of every path), so writes of an earlier call are seen by later reads on
        the same path and every path starts from the freshly created class."""
        key = (mod.name, f"<class body line {getattr(node, 'lineno', '?')}>.{name}")
        if key in self.module_state:
            return self.module_state[key]
        saved = (self.frames, self.module)
        self.frames, self.module = [{}], mod
        try:
            v = self.ev(node)
        finally:
            self.frames, self.module = saved
        if isinstance(v, (dict, list, set, Obj)):
            self.module_state[key] = v
        return v

    def find_class_attr(self, clsref, name, _depth=0):
        """(value node, module) of ``name = <value>`` in the body of the class or of a base class of the library."""
        mod, _, q = clsref.partition(":")
        if _depth > 8 or mod not in self.model.modules or q not in self.model.modules[mod].classes:
            return None
        m = self.model.modules[mod]
        c = m.classes[q]
        for st in c.body:
            if isinstance(st, ast.Assign) and any(isinstance(t, ast.Name) and t.id == name for t in st.targets):
                return st.value, m
            if isinstance(st, ast.AnnAssign) and isinstance(st.target, ast.Name) and st.target.id == name \
                    and st.value is not None:
                return st.value, m
        for b in c.bases:
            bname = U(b).split(".")[-1]
            if bname in m.classes:
                r = self.find_class_attr(f"{mod}:{bname}", name, _depth + 1)
            elif bname in m.imports:
                v = self.resolve_import(m, m.imports[bname], bname)
                r = self.find_class_attr(f"{v.module.name}:{v.qual}", name, _depth + 1) if isinstance(v, ClassRef) else None
            else:
                r = None
            if r is not None:
                return r
        return None

    def find_method(self, clsref, name, _seen=None):
        mod, _, q = clsref.partition(":")
        if mod not in self.model.modules or q not in self.model.modules[mod].classes:
            return None
        m = self.model.modules[mod]
        c = m.classes[q]
        fq = f"{q}.{name}"
        if fq in m.functions:
            return m.functions[fq], clsref
        for b in c.bases:
            bname = U(b).split(".")[-1]
            # resolve the base in this module or through its imports
            if bname in m.classes:
                r = self.find_method(f"{mod}:{bname}", name)
                if r:
                    return r
            elif bname in m.imports:
                v = self.resolve_import(m, m.imports[bname], bname)
                if isinstance(v, ClassRef):
                    r = self.find_method(f"{v.module.name}:{v.qual}", name)
                    if r:
                        return r
        return None

    # -------------------------------------------------------------------- calls
    def callexpr(self, n):
        f = n.func
        # method call on a value
        if isinstance(f, ast.Attribute):
            recv = self.ev(f.value)
            args, kw = self._args(n)
            return self.call_method(recv, f.attr, args, kw, n)
        if isinstance(f, ast.Name) and f.id in ("any", "all") and len(n.args) == 1 and not n.keywords \
                and isinstance(n.args[0], (ast.GeneratorExp, ast.ListComp)) and isinstance(self.lookup(f.id), Ext) \
                and f.id not in self.hooks:
            return self.lazy_anyall(f.id == "any", n.args[0])
        fv = self.ev(f)
        args, kw = self._args(n)
        return self.call_value(fv, args, kw, n)

    def lazy_anyall(self, is_any, g):
        """``any``/``all`` over a generator: elements are decided one after another (short circuit)."""
        class _Stop(Exception):
            pass
        res = [not is_any]

        def emit():
            t = self.truth(self.ev(g.elt), g.elt)
            if t == is_any:
                res[0] = is_any
                raise _Stop()
        try:
            self.comp(g.generators, 0, emit)
        except _Stop:
            pass
        return res[0]

    def _args(self, n):
        a = []
        for x in n.args:
            if isinstance(x, ast.Starred):
                a.extend(self.iterate(self.ev(x.value), x))
            else:
                a.append(self.ev(x))
        kw = {}
        for k in n.keywords:
            if k.arg is None:
                v = self.ev(k.value)
                if isinstance(v, (T, Obj)):
                    kw["**"] = v
                elif not isinstance(v, dict):
                    self.unsupported(n, "** of a non-dict")
                else:
                    kw.update(v)
            else:
                kw[k.arg] = self.ev(k.value)
        return a, kw

    def call_method(self, recv, name, args, kw, node):
        if isinstance(recv, (dict, list, set, str, tuple, frozenset)):
            return self.container_method(recv, name, args, kw, node)
        if isinstance(recv, Obj):
            key = f"{recv.cls.split(':')[-1]}.{name}" if recv.cls else name
            for hk in (key, name):
                if hk in self.hooks and callable(self.hooks[hk]):
                    r = self.hooks[hk](self, [recv] + list(args), kw)
                    if r is not NotImplemented:
                        return r
            if name in recv.attrs:
                return self.call_value(recv.attrs[name], args, kw, node)
            m = self.find_method(recv.cls, name) if recv.cls else None
            if m is not None:
                fn, cls = m
                decos = [U(d).split(".")[-1].split("(")[0] for d in fn.decorator_list]
                bound = None if "staticmethod" in decos else recv
                return self.call_value(Func(fn, [], fn._module, fn._qual, bound=bound), args, kw, node)
            if self.attr_hook is not None:
                # the attribute model of a record also resolves its methods (a callable attribute)
                r = self.attr_hook(self, recv, name, node)
                if r is not NotImplemented:
                    return self.call_value(r, args, kw, node)
            return self.opaque_mcall(recv.term, name, args, kw)
        if isinstance(recv, T):
            hk = name
            if hk in self.hooks and callable(self.hooks[hk]):
                r = self.hooks[hk](self, [recv] + list(args), kw)
                if r is not NotImplemented:
                    return r
            if self.attr_hook is not None:
                # the attribute model of a term also resolves its methods (a callable attribute)
                r = self.attr_hook(self, recv, name, node)
                if r is not NotImplemented:
                    return self.call_value(r, args, kw, node)
            return self.opaque_mcall(recv, name, args, kw)
        if isinstance(recv, Fraction) or is_num(recv):
            if name == "__ceil__":
                import math
                return math.ceil(recv)
            if name == "__floor__":
                import math
                return math.floor(recv)
            if name in self.hooks and callable(self.hooks[name]):
                # a modelled method (e.g. sympy's ``expand``) on a value the scenario represents by a number
                r = self.hooks[name](self, [recv] + list(args), kw)
                if r is not NotImplemented:
                    return r
        v = self.getattr(recv, name, node)
        return self.call_value(v, args, kw, node)

    def _occ(self, name, t):
        if self.occurrence is not None and self.occurrence(name):
            return T("occ", t, len(self.effects))
        return t

    def opaque_mcall(self, recv, name, args, kw):
        t = T("mcall", recv, name, tuple(_freeze(a) for a in args), tuple(sorted((k, _freeze(v)) for k, v in kw.items())))
        self.effects.append(t)
        return self._occ(name, t)

    def opaque_call(self, name, args, kw, fn=None, skip_self=False):
        if fn is not None:
            try:
                b = self.bind(fn, args, kw, skip_self, fill_defaults=True, lenient=True)
                t = T("call", name, (), tuple((k, _freeze(v)) for k, v in b.items()))
            except Raised:
                t = T("call", name, tuple(_freeze(a) for a in args), tuple(sorted((k, _freeze(v)) for k, v in kw.items())))
        else:
            t = T("call", name, tuple(_freeze(a) for a in args), tuple(sorted((k, _freeze(v)) for k, v in kw.items())))
        self.effects.append(t)
        return self._occ(name.split(".")[-1], t)

    def call_value(self, fv, args, kw, node):
        if isinstance(fv, Func):
            short = (fv.qual or "").split(".")[-1]
            qual = f"{fv.module.name}:{fv.qual}" if fv.module is not None and fv.qual else short
            clsq = ".".join((fv.qual or "").split(".")[-2:]) if fv.qual and "." in fv.qual else short
            for hk in (qual, clsq, short):
                if hk in self.hooks and callable(self.hooks[hk]):
                    a = ([fv.bound] if fv.bound is not None else []) + list(args)
                    r = self.hooks[hk](self, a, kw)
                    if r is not NotImplemented:
                        return r
            nested = bool(fv.frames) or isinstance(fv.node, ast.Lambda)
            if nested or self.inline(qual):
                return self._invoke(fv, args, kw, node)
            name = clsq if fv.bound is not None or (fv.qual and "." in fv.qual and fv.node.args.args and
                                                  fv.node.args.args[0].arg in ("self", "cls")) else short
            if fv.bound is not None:
                b = fv.bound
                t = T("mcall", b.term if isinstance(b, Obj) else b, short, (),
                      tuple((k, _freeze(v)) for k, v in self.bind(fv.node, args, kw, True, True, True).items()))
                self.effects.append(t)
                return self._occ(short, t)
            return self.opaque_call(name, args, kw, fv.node)
        if isinstance(fv, ClassRef):
            for hk in (f"{fv.module.name}:{fv.qual}", fv.short):
                if hk in self.hooks and callable(self.hooks[hk]):
                    r = self.hooks[hk](self, list(args), kw)
                    if r is not NotImplemented:
                        return r
            init = self.find_method(f"{fv.module.name}:{fv.qual}", "__init__") or \
                self.find_method(f"{fv.module.name}:{fv.qual}", "__new__")
            if init is None:
                rec = self._record_fields(fv)
                if rec is not None:
                    return self._make_record(fv, rec, args, kw, node)
            if init is not None and fv.short.startswith("_") and init[0].name == "__init__" \
                    and self.find_method(f"{fv.module.name}:{fv.qual}", "__new__") is None \
                    and self.inline(f"{fv.module.name}:{fv.qual}.__init__"):
                # a private helper class (internal state extracted by a refactoring) is not vocabulary:
                # an abstract record is created and its __init__ evaluated on it
                self.fresh_n += 1
                o = Obj(f"{fv.module.name}:{fv.qual}", f"<{fv.short} #{self.fresh_n}>")
                fn = init[0]
                self._invoke(Func(fn, [], fn._module, fn._qual, bound=o), args, kw, node)
                return o
            return self.opaque_call(fv.short, args, kw, init[0] if init else None, skip_self=True)
        if isinstance(fv, Ext):
            return self.ext_call(fv.name, args, kw, node)
        if isinstance(fv, tuple) and fv and fv[0] == "__bound__":
            return self.container_method(fv[1], fv[2], args, kw, node)
        if isinstance(fv, T):
            t = T("call", fv, tuple(_freeze(a) for a in args), tuple(sorted((k, _freeze(v)) for k, v in kw.items())))
            self.effects.append(t)
            return t
        if callable(fv):
            return fv(self, list(args), kw)
        self.unsupported(node, f"call of {type(fv).__name__}")

    def _record_fields(self, cref):
        """Fields [(name, default node | None)] of a plain record class: a typing.NamedTuple subclass, or (when the
        option ``records`` is set) a @dataclass without __post_init__; None for every other class."""
        c = cref.module.classes.get(cref.qual)
        if c is None:
            return None
        bases = {U(b).split(".")[-1] for b in c.bases}
        decos = {U(d).split(".")[-1].split("(")[0] for d in c.decorator_list}
        is_nt = "NamedTuple" in bases
        is_dc = "dataclass" in decos and getattr(self, "records", False) and \
            self.find_method(f"{cref.module.name}:{cref.qual}", "__post_init__") is None
        if not (is_nt or is_dc):
            return None
        fields = [(st.target.id, st.value) for st in c.body if isinstance(st, ast.AnnAssign) and isinstance(st.target, ast.Name)]
        return ("namedtuple" if is_nt else "dataclass", fields)

    def _make_record(self, cref, rec, args, kw, node):
        kind, fields = rec
        names = [n for n, _ in fields]
        if len(args) > len(names) or any(k not in names for k in kw):
            raise Raised("TypeError", None, node)
        vals = dict(zip(names, args))
        for k, v in kw.items():
            if k in vals:
                raise Raised("TypeError", None, node)
            vals[k] = v
        for n, d in fields:
            if n not in vals:
                if d is None:
                    raise Raised("TypeError", None, node)
                saved = (self.frames, self.module)
                self.frames, self.module = [{}], cref.module
                try:
                    vals[n] = self.ev(d)
                finally:
                    self.frames, self.module = saved
        self.fresh_n += 1
        o = Obj(f"{cref.module.name}:{cref.qual}", f"<{cref.short} #{self.fresh_n}>", **vals)
        if kind == "namedtuple":
            o.attrs["_fields"] = tuple(names)
        return o

    def bind(self, fn, args, kw, skip_self=False, fill_defaults=False, lenient=False, preset=None):
        a = fn.args
        params = [p.arg for p in a.posonlyargs + a.args]
        if skip_self and params:
            params = params[1:]
        out = {}
        args = list(args)
        kw = dict(kw)
        for p in params:
            if args:
                out[p] = args.pop(0)
            elif p in kw:
                out[p] = kw.pop(p)
        if args:
            if a.vararg:
                out[a.vararg.arg] = tuple(args)
            else:
                raise Raised("TypeError", "too many positional arguments", fn)
        elif a.vararg and not lenient:
            out[a.vararg.arg] = ()
        for p in a.kwonlyargs:
            if p.arg in kw:
                out[p.arg] = kw.pop(p.arg)
        if kw:
            if a.kwarg:
                out[a.kwarg.arg] = kw
            elif lenient:
                out.update(kw)
            else:
                raise Raised("TypeError", f"unexpected keyword {sorted(kw)}", fn)
        elif a.kwarg and not lenient:
            out[a.kwarg.arg] = {}
        # defaults
        allp = a.posonlyargs + a.args
        defaults = dict(zip([p.arg for p in allp][len(allp) - len(a.defaults):], a.defaults))
        for p, d in zip(a.kwonlyargs, a.kw_defaults):
            if d is not None:
                defaults[p.arg] = d
        ordered = {}
        for p in params + [p.arg for p in a.kwonlyargs]:
            if p in out:
                ordered[p] = out.pop(p)
            elif preset and p in preset:
                ordered[p] = preset[p]
            elif p in defaults:
                d = defaults[p]
                if not lenient or isinstance(d, ast.Constant) or (isinstance(d, ast.UnaryOp) and isinstance(d.operand, ast.Constant)):
                    saved = (self.frames, self.module)
                    self.frames, self.module = [{}], fn._module
                    try:
                        ordered[p] = self.ev(d)
                    finally:
                        self.frames, self.module = saved
            elif not lenient:
                raise Raised("TypeError", f"missing argument {p}", fn)
        ordered.update(out)
        return ordered

    def _invoke(self, f, args, kw, node, top=False):
        fn = f.node
        self.depth += 1
        if self.depth > self.max_depth:
            if self.recursion_error:
                self.depth -= 1
                raise Raised("RecursionError", f"call depth {self.max_depth} exceeded", node)
            self.unsupported(node, "inlining depth exceeded")
        saved = (self.frames, self.module)
        try:
            if isinstance(fn, ast.Lambda):
                params = [p.arg for p in fn.args.args]
                frame = dict(zip(params, args))
                frame.update(kw)
                for p, d in zip(params[len(params) - len(fn.args.defaults):], fn.args.defaults):
                    if p not in frame:
                        frame[p] = self.ev(d)
                self.frames, self.module = list(f.frames) + [frame], f.module
                return self.ev(fn.body)
            if top and isinstance(kw, dict) and not args:
                frame = dict(kw)
                # defaults for parameters the scenario did not set
                b = self.bind(fn, [], {k: v for k, v in kw.items()}, False, True, True)
                for k, v in b.items():
                    frame.setdefault(k, v)
            else:
                a = list(args)
                if f.bound is not None:
                    a = [f.bound] + a
                frame = self.bind(fn, a, kw, preset=getattr(f, "defaults", None))
            self.frames, self.module = list(f.frames) + [frame], f.module
            # memoising decorators (functools.lru_cache / cache): a repeated call with equal (==, hash) arguments returns
            # the stored result without evaluating the body again - effects of the body (e.g. drawing fresh objects)
            # happen once per distinct argument tuple; the table lives as long as the path (call history)
            memo_key = None
            if _is_memoised(fn):
                try:
                    memo_key = (id(fn), tuple((k, v) for k, v in frame.items()))
                    hash(memo_key)
                except TypeError:
                    raise Raised("TypeError", "unhashable argument of a memoised function", node)
                if memo_key in self.memo_state:
                    return self.memo_state[memo_key]
            if self.instance_memo and not top:
                kind = _instance_memo_kind(fn)
                items = list(frame.items())
                if kind is not None and items and isinstance(items[0][1], Obj):
                    return self._invoke_instance_memo(fn, kind, items, node)
            is_gen = getattr(fn, "_sx_is_gen", None)
            if is_gen is None:   # cached on the node: the walk dominates the cost of small inlined helpers
                is_gen = fn._sx_is_gen = any(isinstance(x, (ast.Yield, ast.YieldFrom)) for x in _walk_noscope(fn))
            try:
                self.block(fn.body)
                r = None
            except _Return as r_:
                r = r_.v
            except _GenTruncated:
                if not (is_gen and len(frame.get("$yield", ())) >= GEN_CAP):
                    raise
                return _TruncatedGen(frame["$yield"])
            if is_gen:
                return frame.get("$yield", [])
            if memo_key is not None:
                self.memo_state[memo_key] = r
            return r
        finally:
            self.frames, self.module = saved
            self.depth -= 1

    def _invoke_instance_memo(self, fn, kind, items, node):
        """Body of a ``cached_member`` / ``cached_property`` method (frames already set up by ``_invoke``): the result is
        looked up in / stored into the table kept on the receiver record."""
        recv = items[0][1]
        attr = "_function_cache" if kind == "member" else "_property_cache"
        store = recv.attrs.get(attr)
        if not isinstance(store, dict):
            store = recv.attrs[attr] = {}
        if kind == "member":
            table = store.get(fn.name)
            if not isinstance(table, dict):
                table = store[fn.name] = {}
            key = tuple(v for _, v in items[1:])
        else:
            table, key = store, getattr(fn, "_qual", fn.name)
        try:
            if key in table:
                return table[key]
        except TypeError:
            raise Raised("TypeError", "unhashable argument of a memoised method", node)
        try:
            self.block(fn.body)
            r = None
        except _Return as r_:
            r = r_.v
        table[key] = r
        return r

    def ext_call(self, name, args, kw, node):
        short = name.split(".")[-1]
        if self.set_order is not None and short in _ORDERED_READERS and any(isinstance(a, (set, frozenset)) for a in args):
            args = [self.iterate(a, node) if isinstance(a, (set, frozenset)) else a for a in args]
        for hk in (name, short):
            if hk in self.hooks and callable(self.hooks[hk]):
                r = self.hooks[hk](self, list(args), kw)
                if r is not NotImplemented:
                    return r
        if name == "isinstance":
            return self.isinstance(args[0], args[1], node)
        if name == "print":
            return None
        if name == "str" and len(args) == 1 and not kw and hasattr(args[0], "sx_str"):
            r = args[0].sx_str(self)
            if isinstance(r, str):
                return r
        if name == "getattr":
            if isinstance(args[1], str):
                try:
                    return self.getattr(args[0], args[1], node)
                except AnalysisError:
                    if len(args) > 2:
                        return args[2]
                    raise
                except Raised as r:
                    # an attribute hook modelling a closed object raises AttributeError: the default applies
                    if r.name == "AttributeError" and len(args) > 2:
                        return args[2]
                    raise
        if name == "hasattr" and isinstance(args[0], Obj) and isinstance(args[1], str):
            return args[1] in args[0].attrs or bool(args[0].cls and self.find_method(args[0].cls, args[1]))
        if name == "type" and len(args) == 1 and (_plain(args[0]) or isinstance(args[0], (list, tuple, dict, set))):
            return Ext(type(args[0]).__name__)
        if name == "map":
            def do_map():
                return [self.call_value(args[0], list(xs) if len(args) > 2 else [xs], {}, node)
                        for xs in (zip(*[self.iterate(a, node) for a in args[1:]]) if len(args) > 2
                                   else self.iterate(args[1], node))]
            # map and filter are lazy: the function is applied when the result is consumed
            return self._lazy_list(_GenList(do_map()), do_map,
                                   lambda: (self._callee_state(args[0]), tuple(_fingerprint(a) for a in args[1:])))
        if name == "filter":
            def do_filter():
                if args[0] is None:
                    return [x for x in self.iterate(args[1], node) if self.truth(x, node)]
                return [x for x in self.iterate(args[1], node) if self.truth(self.call_value(args[0], [x], {}, node))]
            return self._lazy_list(_GenList(do_filter()), do_filter,
                                   lambda: (self._callee_state(args[0]), _fingerprint(args[1])))
        if short in ("takewhile", "dropwhile", "filterfalse") and name in (short, "itertools." + short) and len(args) == 2 \
                and not isinstance(args[1], T):
            out, state = [], short == "dropwhile"
            for x in self.iterate(args[1], node):
                ok = self.truth(self.call_value(args[0], [x], {}, node) if args[0] is not None else x, node)
                if short == "filterfalse":
                    if not ok:
                        out.append(x)
                elif short == "takewhile":
                    if not ok:
                        break
                    out.append(x)
                else:
                    state = state and ok
                    if not state:
                        out.append(x)
            return out
        if short == "namedtuple" and len(args) == 2 and isinstance(args[0], str) and set(kw) <= {"defaults"} \
                and isinstance(args[1], (str, list, tuple)) and not isinstance(kw.get("defaults"), T):
            # collections.namedtuple(typename, field_names[, defaults=...]): a factory of plain records
            fields = args[1].replace(",", " ").split() if isinstance(args[1], str) else list(args[1])
            if all(isinstance(f, str) for f in fields):
                return _NamedTupleFactory(args[0], tuple(fields), tuple(kw.get("defaults") or ()))
        if name == "iter" and len(args) == 1 and not kw:
            # an iterator is a private list that next() / for-loops consume from the front
            if isinstance(args[0], _Iter):
                return args[0]
            return _Iter(self.iterate(args[0], node))
        if name in ("any", "all") and len(args) == 1:
            vals = self.iterate(args[0], node)
            if any(isinstance(v, T) for v in vals):
                return (t_or if name == "any" else t_and)(*[v if isinstance(v, T) else self.truth(v) for v in vals])
            return any(self.truth(v) for v in vals) if name == "any" else all(self.truth(v) for v in vals)
        if name in ("len",) and len(args) == 1 and isinstance(args[0], (T, Obj)):
            return T("call", "len", (args[0].term if isinstance(args[0], Obj) else args[0],), ())
        if name in ("chain.from_iterable", "from_iterable", "itertools.chain.from_iterable") and len(args) == 1 \
                and not isinstance(args[0], T):
            out = []
            for x in self.iterate(args[0], node):
                out.extend(self.iterate(x, node))
            return out
        if name == "dict.fromkeys" and len(args) in (1, 2) and not isinstance(args[0], T):
            return {k: (args[1] if len(args) == 2 else None) for k in self.iterate(args[0], node)}
        if short == "reduce" and len(args) in (2, 3) and not isinstance(args[1], T):
            seq = list(self.iterate(args[1], node))
            if len(args) == 3:
                acc = args[2]
            elif seq:
                acc, seq = seq[0], seq[1:]
            else:
                raise Raised("TypeError", None, node)
            for x in seq:
                acc = self.call_value(args[0], [acc, x], {}, node)
            return acc
        if short == "prod" and len(args) >= 1 and not isinstance(args[0], T):
            acc = args[1] if len(args) > 1 else kw.get("start", 1)
            for x in self.iterate(args[0], node):
                acc = self.binop(ast.Mult(), acc, x, node)
            return acc
        if (name in _OPERATOR or "operator." + name in _OPERATOR) and len(args) == 2:
            return self.binop(_OPERATOR.get(name, _OPERATOR.get("operator." + name))(), args[0], args[1], node)
        if name in ("operator.neg", "neg") and len(args) == 1:
            return self.binop(ast.Mult(), -1, args[0], node)
        if name in ("chain", "itertools.chain") and all(not isinstance(a, T) for a in args):
            out = []
            for x in args:
                out.extend(self.iterate(x, node))
            return out
        if name in ("product", "itertools.product") and all(not isinstance(a, T) for a in args) \
                and isinstance(kw.get("repeat", 1), int):
            import itertools
            rep = kw.get("repeat", 1)
            return [tuple(p) for p in itertools.product(*[list(self.iterate(a, node)) for a in args], repeat=rep)]
        if short in ("permutations", "combinations", "combinations_with_replacement") and name in (short, "itertools." + short) \
                and args and not isinstance(args[0], T) and all(isinstance(a, int) for a in args[1:]):
            import itertools
            return [tuple(p) for p in getattr(itertools, short)(list(self.iterate(args[0], node)), *args[1:])]
        if short == "groupby" and name in ("groupby", "itertools.groupby") and args and not isinstance(args[0], (T, Obj)):
            # consecutive runs of equal keys, as itertools does it (concrete keys only)
            seq = list(self.iterate(args[0], node))
            kf = kw.get("key", args[1] if len(args) > 1 else None)
            keys = [x if kf is None else self.call_value(kf, [x], {}, node) for x in seq]
            if not any(_has_sym(k) or isinstance(k, Obj) for k in keys):
                out = []
                for x, k in zip(seq, keys):
                    if out and _eq(out[-1][0], k):
                        out[-1][1].append(x)
                    else:
                        out.append((k, [x]))
                return out
        if name in ("Rational", "sympy.Rational") and len(args) == 2 and all(is_num(a) for a in args) and args[1] != 0:
            return t_div(args[0], args[1])
        if short == "sqrt" and len(args) == 1 and (is_num(args[0]) or isinstance(args[0], T)):
            return t_pow(args[0], Fraction(1, 2))
        if name in ("factorial", "math.factorial") and len(args) == 1 and isinstance(args[0], int):
            import math
            return math.factorial(args[0])
        if name in ("re.findall", "re.split", "re.sub", "re.fullmatch", "re.match") and all(isinstance(a, (str, int)) for a in args) \
                and not kw:
            import re as _re
            r = getattr(_re, short)(*args)
            if short in ("fullmatch", "match"):     # only the truth value / the matched text of a match object
                return None if r is None else r.group(0)
            return r
        if name == "next" and args and isinstance(args[0], list) and not isinstance(args[0], _CountSeq) and not kw:
            # generators are materialised as lists that nothing else refers to: next() consumes the front
            if args[0]:
                return args[0].pop(0)
            if len(args) > 1:
                return args[1]
            raise Raised("StopIteration", None, node)
        if short == "islice" and args and isinstance(args[0], _TruncatedGen) and not kw \
                and all(isinstance(a, int) for a in args[1:]) and 2 <= len(args) <= 4:
            stop = args[1] if len(args) == 2 else args[2]
            if stop is None or stop > len(args[0]):
                self.unsupported(node, "islice beyond the evaluated prefix of an unbounded generator")
            import itertools
            return list(itertools.islice(list.__iter__(args[0]), *args[1:]))
        if short in ("zip_longest", "islice", "pairwise") and not any(isinstance(a, (T, Obj)) for a in args):
            import itertools
            seqs = [self.iterate(a, node) if not isinstance(a, (int, type(None))) else a for a in args]
            try:
                return [tuple(x) if isinstance(x, tuple) else x for x in getattr(itertools, short)(*seqs, **kw)]
            except (TypeError, ValueError):
                self.unsupported(node, f"itertools.{short}")
        if short == "repeat" and name in ("repeat", "itertools.repeat") and len(args) == 2 and isinstance(args[1], int):
            return [args[0]] * args[1]
        if short == "repeat" and name in ("repeat", "itertools.repeat") and len(args) == 1 and not kw:
            return _RepeatSeq(args[0])      # unbounded: read lazily by zip / for / next
        if short == "starmap" and len(args) == 2 and not isinstance(args[1], T):
            return [self.call_value(args[0], list(self.iterate(x, node)), {}, node) for x in self.iterate(args[1], node)]
        if short == "accumulate" and name in ("accumulate", "itertools.accumulate") and args and not isinstance(args[0], T):
            f = args[1] if len(args) > 1 else kw.get("func")
            out = [kw["initial"]] if kw.get("initial") is not None else []
            for x in self.iterate(args[0], node):
                out.append(x if not out else (self.call_value(f, [out[-1], x], {}, node) if f is not None
                                               else self.binop(ast.Add(), out[-1], x, node)))
            return out
        if short == "partial" and name in ("partial", "functools.partial") and args:
            f0, a0, k0 = args[0], list(args[1:]), dict(kw)
            return lambda sx, a, k: sx.call_value(f0, a0 + list(a), {**k0, **k}, node)
        if short == "methodcaller" and name in ("methodcaller", "operator.methodcaller") and args and isinstance(args[0], str):
            mname, margs, mkw = args[0], list(args[1:]), dict(kw)
            return lambda sx, a, k: sx.call_method(a[0], mname, list(margs), dict(mkw), node)
        if short == "itemgetter" and name in ("itemgetter", "operator.itemgetter") and args:
            keys = list(args)

            def _getter(sx, a, k):
                vals = [sx.subscript_value(a[0], key, node) for key in keys]
                return vals[0] if len(vals) == 1 else tuple(vals)
            return _getter
        if short == "attrgetter" and name in ("attrgetter", "operator.attrgetter") and args and all(isinstance(x, str) for x in args):
            names = list(args)

            def _agetter(sx, a, k):
                vals = []
                for nm in names:
                    v = a[0]
                    for part in nm.split("."):
                        v = sx.getattr(v, part, node)
                    vals.append(v)
                return vals[0] if len(vals) == 1 else tuple(vals)
            return _agetter
        if short == "OrderedDict" and len(args) <= 1 and not any(isinstance(a, T) for a in args):
            return dict(args[0]) if args and isinstance(args[0], dict) else dict(self.iterate(args[0], node)) if args else {}
        if short == "count" and name in ("count", "itertools.count") and len(args) <= 2 and all(is_num(a) for a in args) and not kw:
            return _CountSeq(*args)
        if short == "deque" and name in ("deque", "collections.deque") and len(args) <= 1 and not isinstance(args[0] if args else [], T):
            return _Deque(self.iterate(args[0], node) if args else [])
        if name == "next" and args and isinstance(args[0], _CountSeq):
            c = args[0]
            v = c[c.pos]
            c.pos += 1
            return v
        if name == "Counter" and len(args) <= 1 and not any(_has_sym(a) for a in args):
            c = _Counter()
            if args and isinstance(args[0], dict):
                c.update(args[0])
            else:
                for x in (self.iterate(args[0], node) if args else []):
                    c[x] = c.get(x, 0) + 1
            return c
        if name == "dict.fromkeys" and 1 <= len(args) <= 2 and not kw and not isinstance(args[0], (T, Obj)):
            try:
                return {k: (args[1] if len(args) > 1 else None) for k in self.iterate(args[0], node)}
            except TypeError:
                self.unsupported(node, "dict.fromkeys with unhashable keys")
        if name == "defaultdict" and not args[1:]:
            return _DefaultDict(args[0] if args else None, self, node)
        if name in _BUILTINS:
            if name in ("min", "max", "sorted") and "key" in kw:
                k = kw["key"]
                kw = dict(kw)
                kw["key"] = lambda v, k=k: self.call_value(k, [v], {}, node)
            conv = [self.iterate(a, node) if isinstance(a, (T, Obj)) and name in
                    ("list", "tuple", "enumerate", "zip", "set", "sorted", "reversed", "sum", "min", "max")
                    and not (name in ("min", "max") and len(args) > 1)
                    and not (name in ("sum", "enumerate") and i > 0) else a for i, a in enumerate(args)]
            if name == "zip" and any(isinstance(c, _CountSeq) for c in conv) and not all(isinstance(c, _CountSeq) for c in conv):
                # unbounded sequences (count, repeat) are read as far as the bounded arguments reach
                m = min(len(c) for c, a in zip(conv, args) if not isinstance(c, _CountSeq) and not isinstance(a, (T, Obj)))
                conv = [[c[i] for i in range(m)] if isinstance(c, _CountSeq) else c for c in conv]
            if name == "zip":
                lens = [len(c) for c, a in zip(conv, args) if not isinstance(a, (T, Obj))]
                if lens:
                    m = min(lens)
                    conv = [c if not isinstance(a, (T, Obj)) else [T("elem", a if isinstance(a, T) else a.term, i)
                                                                     for i in range(m)] for c, a in zip(conv, args)]
            if name == "sum":
                vals = list(conv[0])
                start = conv[1] if len(conv) > 1 else kw.get("start", 0)
                acc = start
                for v in vals:
                    acc = self.binop(ast.Add(), acc, v, node)
                return acc
            if name == "len" and isinstance(conv[0], _DefaultDict):
                return len(conv[0])
            try:
                return _BUILTINS[name](*conv, **kw)
            except Raised:
                raise
            except AnalysisError:
                raise
            except TypeError as e:
                if name in ("sorted", "min", "max", "set", "dict") or "unhashable" in str(e):
                    return self.opaque_call(name, args, kw)
                if any(_has_sym(a) or isinstance(a, Obj) for a in list(args) + list(kw.values())):
                    # a builtin applied to a symbolic value stays an uninterpreted call
                    return self.opaque_call(name, args, kw)
                if name in ("range", "int", "float", "len", "abs", "round") and args and \
                        all(hasattr(a, "sx_getattr") or _plain(a) for a in args):
                    # concrete values of a rule-side domain: the TypeError is the behaviour (range(1/2), int(None))
                    raise Raised("TypeError", str(e), node)
                self.unsupported(node, f"builtin {name}: {e}")
            except ValueError:
                raise Raised("ValueError", None, node)
            except Exception as e:
                self.unsupported(node, f"builtin {name}: {e}")
        if short in ("Inputerror", "ValueError", "TypeError", "NotImplementedError", "KeyError", "RuntimeError",
                     "Exception", "AttributeError", "IndexError"):
            return T("call", short, (), ())
        return self.opaque_call(name, args, kw)

    def isinstance(self, obj, cls, node):
        if isinstance(cls, tuple):
            rs = [self.isinstance(obj, c, node) for c in cls]
            if any(r is True for r in rs):
                return True
            ts = [r for r in rs if isinstance(r, T)]
            return t_or(*ts) if ts else False
        cname = cls.short if isinstance(cls, ClassRef) else cls.name.split(".")[-1] if isinstance(cls, Ext) else \
            cls.args[0] if isinstance(cls, T) and cls.op == "sym" else None
        if cname is None:
            self.unsupported(node, "isinstance against an unmodelled class")
        if isinstance(obj, Obj):
            if "_classes" in obj.attrs:
                return cname in obj.attrs["_classes"]
            if obj.cls:
                return cname == obj.cls.split(":")[-1].split(".")[-1] or cname in self._bases(obj.cls)
            obj = obj.term
        if isinstance(obj, T):
            if self.isinstance_hook is not None:
                r = self.isinstance_hook(self, obj, cname)
                if r is not None:
                    return r
            return T("isinstance", obj, cname)
        if hasattr(obj, "sx_isinstance"):
            return obj.sx_isinstance(self, cname)
        py = {"int": int, "str": str, "list": list, "tuple": tuple, "dict": dict, "set": set, "float": float,
              "bool": bool, "frozenset": frozenset}
        if cname in py:
            if cname == "int":
                return isinstance(obj, int)
            return isinstance(obj, py[cname])
        if cname in ("Rational", "Number", "Integer"):
            return is_num(obj)
        return False

    def _bases(self, clsref, acc=None):
        acc = set() if acc is None else acc
        mod, _, q = clsref.partition(":")
        m = self.model.modules.get(mod)
        if not m or q not in m.classes:
            return acc
        for b in m.classes[q].bases:
            bn = U(b).split(".")[-1]
            if bn in acc:
                continue
            acc.add(bn)
            if bn in m.classes:
                self._bases(f"{mod}:{bn}", acc)
            elif bn in m.imports:
                v = self.resolve_import(m, m.imports[bn], bn)
                if isinstance(v, ClassRef):
                    self._bases(f"{v.module.name}:{v.qual}", acc)
        return acc

    def container_method(self, o, attr, a, kw, node):
        if self.set_order is not None:
            if isinstance(o, set) and attr == "pop" and not a and o:
                x = self.iterate(o, node)[0]
                o.remove(x)
                return x
            if isinstance(o, str) and attr == "join" and a and isinstance(a[0], (set, frozenset)):
                a = [self.iterate(a[0], node)] + list(a[1:])
        if isinstance(o, _DefaultDict):
            pass
        if isinstance(o, dict):
            if attr == "items":
                return _ItemsView(o.items())
            if attr == "keys":
                return _KeysView(o.keys())
            if attr == "values":
                return list(o.values())
            if attr == "get":
                k = a[0]
                try:
                    if k in o:
                        return o[k]
                except TypeError:
                    self.unsupported(node, "unhashable key")
                if isinstance(k, T) and o and not (self.concrete_key is not None and self.concrete_key(k)):
                    # symbolic key against a concrete table: undecidable here -> symbolic lookup
                    # (unless the scenario declares terms of this kind to be compared structurally: concrete_key)
                    return T("mcall", _freeze(o), "get", tuple(_freeze(x) for x in a), ())
                return a[1] if len(a) > 1 else kw.get("default")
            if isinstance(o, _Counter) and attr in ("update", "subtract", "most_common", "elements", "total", "copy"):
                aa = [self.iterate(x, node) if isinstance(x, (T, Obj)) or not isinstance(x, (dict, list, tuple, set, frozenset, str))
                      and attr in ("update", "subtract") else x for x in a]
                try:
                    return getattr(o, attr)(*aa, **kw)
                except TypeError:
                    self.unsupported(node, f"Counter.{attr} on unhashable values")
            if attr in ("update", "pop", "copy", "setdefault", "clear", "popitem", "fromkeys"):
                try:
                    if attr == "update" and len(a) == 1 and isinstance(a[0], (T, Obj)) and not kw:
                        # ``d.update(m)`` with a symbolic mapping == ``for k, v in m.items(): d[k] = v`` unrolled
                        m = a[0].term if isinstance(a[0], Obj) else a[0]
                        items = T("mcall", m, "items", (), ())
                        for k in range(self.unroll):
                            e = T("elem", items, k)
                            o[T("item", e, 0)] = T("item", e, 1)
                        return None
                    if attr == "update" and a and isinstance(a[0], list):
                        return o.update(dict(a[0]), **kw)
                    if attr == "copy" and isinstance(o, _DefaultDict):
                        c = _DefaultDict(o.factory, self, node)
                        dict.update(c, o)
                        return c
                    return getattr(o, attr)(*a, **kw)
                except KeyError:
                    raise Raised("KeyError", None, node)
        if isinstance(o, _Deque) and attr in ("popleft", "appendleft", "extendleft", "rotate"):
            try:
                if attr == "extendleft":
                    return o.extendleft(self.iterate(a[0], node))
                return getattr(o, attr)(*a)
            except IndexError:
                raise Raised("IndexError", None, node)
        if isinstance(o, list):
            if attr == "append":
                o.append(a[0])
                return None
            if attr == "extend":
                o.extend(self.iterate(a[0], node))
                return None
            if attr == "count":
                return sum(1 for y in o if _eq(y, a[0]))
            if attr == "index":
                for i, y in enumerate(o):
                    if _eq(y, a[0]):
                        return i
                raise Raised("ValueError", None, node)
            if attr == "sort":
                if "key" in kw:
                    k = kw["key"]
                    kw = dict(kw)
                    kw["key"] = lambda v, k=k: self.call_value(k, [v], {}, node)
                snapshot = list(o)
                try:
                    o.sort(**kw)
                except TypeError:
                    # keys the analysis cannot order: the list becomes the (uninterpreted) sorted sequence, exactly
                    # what ``sorted(list, key=..)`` evaluates to
                    o[:] = snapshot
                    st = self.ext_call("sorted", [snapshot], {k_: v_ for k_, v_ in kw.items() if k_ != "key"} |
                                       ({"key": k} if "key" in kw else {}), node)
                    o[:] = st if isinstance(st, list) else [T("elem", st, i) for i in range(len(snapshot))]
                return None
            if attr in ("insert", "clear", "pop", "reverse", "copy", "remove"):
                try:
                    return getattr(o, attr)(*a)
                except (IndexError, ValueError):
                    raise Raised("IndexError" if attr == "pop" else "ValueError", None, node)
                except TypeError:
                    raise Raised("TypeError", None, node)
        if isinstance(o, tuple):
            if attr == "count":
                return sum(1 for y in o if _eq(y, a[0]))
            if attr == "index":
                for i, y in enumerate(o):
                    if _eq(y, a[0]):
                        return i
                raise Raised("ValueError", None, node)
        if isinstance(o, (set, frozenset)):
            try:
                if attr in ("update", "union", "intersection", "difference", "issubset", "issuperset",
                            "difference_update", "intersection_update", "symmetric_difference", "isdisjoint"):
                    a = [self.iterate(x, node) if not isinstance(x, (set, frozenset)) else x for x in a]
                return getattr(o, attr)(*a)
            except KeyError:
                raise Raised("KeyError", None, node)
            except AttributeError:
                self.unsupported(node, f"set method {attr}")
        if isinstance(o, str):
            if any(isinstance(x, T) for x in a):
                return T("mcall", o, attr, tuple(_freeze(x) for x in a), ())
            if attr == "join":
                parts = self.iterate(a[0], node)
                if any(not isinstance(p, str) for p in parts):
                    fs = []
                    for i, p in enumerate(parts):
                        if i and o:
                            fs.append(o)
                        fs.append(p)
                    merged = []
                    for p in fs:
                        if isinstance(p, str) and merged and isinstance(merged[-1], str):
                            merged[-1] += p
                        else:
                            merged.append(p)
                    return T("fstr", *merged)
                return o.join(parts)
            if attr == "format":
                if any(isinstance(x, T) for x in list(a) + list(kw.values())):
                    return T("fstr", o, tuple(a), tuple(sorted(kw.items())))
            try:
                return getattr(o, attr)(*a, **kw)
            except (ValueError, IndexError, KeyError):
                raise Raised("ValueError", None, node)
            except Exception:
                self.unsupported(node, f"str method {attr}")
        self.unsupported(node, f"method {attr} of {type(o).__name__}")


class _ItemsView(list):
    """``dict.items()``: a list for iteration, a set for the order comparisons (``a.items() <= b.items()``)."""

    def _has(self, x):
        return any(_eq(k, k2) and _eq(v, v2) for k2, v2 in self for k, v in (x,))

    def __le__(self, o):
        return all(o._has(x) for x in self) if isinstance(o, _ItemsView) else list.__le__(self, o)

    def __ge__(self, o):
        return o.__le__(self) if isinstance(o, _ItemsView) else list.__ge__(self, o)

    def __lt__(self, o):
        return self.__le__(o) and not o.__le__(self) if isinstance(o, _ItemsView) else list.__lt__(self, o)

    def __gt__(self, o):
        return o.__lt__(self) if isinstance(o, _ItemsView) else list.__gt__(self, o)

    def __eq__(self, o):
        return self.__le__(o) and o.__le__(self) if isinstance(o, _ItemsView) else list.__eq__(self, o)

    def __ne__(self, o):
        return not self.__eq__(o)

    __hash__ = None



class _KeysView(list):
    """``dict.keys()``: a list for iteration/indexing by the evaluator, compared like a set with other views/sets."""
    __hash__ = None

    def _setlike(self, o):
        return isinstance(o, (_KeysView, set, frozenset))

    def __eq__(self, o):
        if self._setlike(o):
            return len(set(self)) == len(set(o)) and all(k in o for k in self)
        return list.__eq__(self, o)

    def __ne__(self, o):
        r = self.__eq__(o)
        return r if r is NotImplemented else not r

    def __le__(self, o):
        return all(k in o for k in self) if self._setlike(o) else list.__le__(self, o)

    def __ge__(self, o):
        return all(k in self for k in o) if self._setlike(o) else list.__ge__(self, o)

    def __lt__(self, o):
        return (self.__le__(o) and not self.__eq__(o)) if self._setlike(o) else list.__lt__(self, o)

    def __gt__(self, o):
        return (self.__ge__(o) and not self.__eq__(o)) if self._setlike(o) else list.__gt__(self, o)

    def __and__(self, o):
        return {k for k in self if k in o}

    def __or__(self, o):
        return set(self) | set(o)

    def __sub__(self, o):
        return {k for k in self if k not in o}


_ORDERED_READERS = {"list", "tuple", "enumerate", "zip", "reversed", "iter", "map", "filter", "chain", "from_iterable", "product",
                    "permutations", "combinations", "combinations_with_replacement", "islice", "deque", "sorted", "next", "sum",
                    "min", "max", "groupby", "dict", "Counter"}


class _DefaultDict(dict):
    def __init__(self, factory, sx, node):
        super().__init__()
        self.factory, self.sx, self.node = factory, sx, node

    def __missing__(self, k):
        f = self.factory
        if f is None:
            raise KeyError(k)
        if isinstance(f, Ext):
            v = {"list": list, "dict": dict, "set": set, "int": int}.get(f.name.split(".")[-1], lambda: None)()
        else:
            v = self.sx.call_value(f, [], {}, self.node)
        self[k] = v
        return v

    def __deepcopy__(self, memo):
        import copy
        c = _DefaultDict(self.factory, self.sx, self.node)
        for k, v in self.items():
            dict.__setitem__(c, k, copy.deepcopy(v, memo))
        return c


class _NamedTupleFactory:
    """The class object returned by collections.namedtuple(...): calling it builds a record with tuple behaviour."""

    def __init__(self, typename, fields, defaults):
        self.typename, self.fields, self.defaults = typename, fields, defaults

    def __call__(self, sx, args, kw):
        if len(args) > len(self.fields) or any(k not in self.fields for k in kw):
            raise Raised("TypeError", None, None)
        vals = dict(zip(self.fields, args))
        for k, v in kw.items():
            if k in vals:
                raise Raised("TypeError", None, None)
            vals[k] = v
        for f, d in zip(self.fields[len(self.fields) - len(self.defaults):], self.defaults):
            vals.setdefault(f, d)
        if len(vals) != len(self.fields):
            raise Raised("TypeError", None, None)
        sx.fresh_n += 1
        o = Obj(None, f"<{self.typename} #{sx.fresh_n}>", **vals)
        o.attrs["_fields"] = self.fields
        return o

    def sx_isinstance(self, sx, cname):
        return cname == "type"


class _Iter(list):
    """iter(x): an explicit iterator object; for-loops, next() and every other consumer take elements from its front."""


class _CountSeq(list):
    """itertools.count(start, step): an unbounded arithmetic sequence read lazily by for-loops and next()."""

    def __init__(self, start=0, step=1):
        super().__init__()
        self.start, self.step, self.pos = start, step, 0

    def __len__(self):
        return 10 ** 9

    def __getitem__(self, k):
        return self.start + k * self.step

    def __iter__(self):
        raise TypeError("unbounded sequence")

    def __bool__(self):
        return True


class _RepeatSeq(_CountSeq):
    """itertools.repeat(value): the same value, unbounded."""

    def __init__(self, value):
        super().__init__()
        self.value = value

    def __getitem__(self, k):
        return self.value


class _Deque(list):
    """collections.deque on top of a list."""

    def popleft(self):
        return self.pop(0)

    def appendleft(self, x):
        self.insert(0, x)

    def extendleft(self, xs):
        for x in xs:
            self.insert(0, x)

    def rotate(self, n=1):
        if self:
            n %= len(self)
            self[:] = self[-n:] + self[:-n]


class _Counter(dict):
    """collections.Counter: a missing key reads as 0 and is not stored; update/subtract count elements."""

    def __missing__(self, k):
        return 0

    def update(self, other=(), **kw):
        if isinstance(other, dict):
            for k, v in other.items():
                self[k] = self.get(k, 0) + v
        else:
            for k in other:
                self[k] = self.get(k, 0) + 1
        for k, v in kw.items():
            self[k] = self.get(k, 0) + v

    def subtract(self, other=(), **kw):
        if isinstance(other, dict):
            for k, v in other.items():
                self[k] = self.get(k, 0) - v
        else:
            for k in other:
                self[k] = self.get(k, 0) - 1

    def most_common(self, n=None):
        items = sorted(self.items(), key=lambda kv: -kv[1])
        return items if n is None else items[:n]

    def elements(self):
        return [k for k, v in self.items() for _ in range(v)]

    def total(self):
        return sum(self.values())

    def copy(self):
        c = _Counter()
        dict.update(c, self)
        return c

    def __add__(self, o):
        c = self.copy()
        for k, v in o.items():
            c[k] = c.get(k, 0) + v
        return _Counter({k: v for k, v in c.items() if v > 0}) if True else c

    def __sub__(self, o):
        c = _Counter()
        for k, v in self.items():
            d = v - o.get(k, 0)
            if d > 0:
                dict.__setitem__(c, k, d)
        return c


def _eq(a, b):
    try:
        return a is b or (type(a) is type(b) and a == b) or (_plain(a) and _plain(b) and a == b)
    except Exception:
        return False


class _GenList(list):
    """Value of a generator expression: the elements, re-evaluated at the first consumption if the state read by the
    body changed after the expression was created (see Symex.genexp)."""
    _lazy = None

    def _force(self):
        lz = self._lazy
        if lz is not None:
            lz[0]._gen_force(self)

    def __iter__(self):
        self._force()
        return list.__iter__(self)

    def __len__(self):
        self._force()
        return list.__len__(self)

    def __getitem__(self, k):
        self._force()
        return list.__getitem__(self, k)

    def __contains__(self, x):
        self._force()
        return list.__contains__(self, x)

    def __eq__(self, o):
        self._force()
        return list.__eq__(self, o)

    __hash__ = None

    def __repr__(self):
        self._force()
        return list.__repr__(self)

    def __deepcopy__(self, memo):
        import copy
        return [copy.deepcopy(x, memo) for x in self]

    def __reduce__(self):
        return (list, (list(self),))


def _fingerprint(v, depth=4):
    """Structural snapshot of a value: changes iff a container reachable from it was mutated or the value replaced."""
    if isinstance(v, _GenList):
        return ("gen", id(v))
    if depth == 0 or isinstance(v, (Func, ClassRef, ModRef, Ext)):
        return ("id", id(v))
    if isinstance(v, list):
        return ("list", id(v), tuple(_fingerprint(x, depth - 1) for x in v))
    if isinstance(v, tuple):
        return ("tuple", tuple(_fingerprint(x, depth - 1) for x in v))
    if isinstance(v, (set, frozenset)):
        try:
            return ("set", id(v), frozenset(_fingerprint(x, depth - 1) for x in v))
        except TypeError:
            return ("set", id(v), len(v))
    if isinstance(v, dict):
        try:
            return ("dict", id(v), tuple((_fingerprint(k, depth - 1), _fingerprint(x, depth - 1)) for k, x in v.items()))
        except Exception:
            return ("dict", id(v), len(v))
    if isinstance(v, Obj):
        return ("obj", id(v), tuple((k, _fingerprint(x, depth - 1)) for k, x in sorted(v.attrs.items(), key=lambda kv: kv[0])
                                     if not callable(x)))
    if isinstance(v, T) or _plain(v):
        return v
    return ("id", id(v))


def _freeze(v):
    """Hashable image of a value for embedding into terms."""
    if isinstance(v, Obj):
        return v.term
    if isinstance(v, list):
        return tuple(_freeze(x) for x in v)
    if isinstance(v, tuple):
        return tuple(_freeze(x) for x in v)
    if isinstance(v, dict):
        return T("dict", *[(_freeze(k), _freeze(x)) for k, x in v.items()])
    if isinstance(v, (set, frozenset)):
        try:
            return frozenset(_freeze(x) for x in v)
        except TypeError:
            return tuple(sorted((_freeze(x) for x in v), key=repr))
    if isinstance(v, Func):
        return sym(f"<func {v.qual}>")
    if isinstance(v, ClassRef):
        return sym(v.short)
    if isinstance(v, Ext):
        return sym(v.name.split(".")[-1])
    if isinstance(v, ModRef):
        return sym(v.name)
    if isinstance(v, slice):
        return T("slice_", v.start, v.stop, v.step)
    if hasattr(v, "sx_term"):
        return v.sx_term()
    return v


def _plain(v):
    return isinstance(v, (int, str, bool, type(None), float, Fraction))


def _load(t):
    import copy
    t2 = copy.copy(t)
    t2.ctx = ast.Load()
    return t2


def _is_memoised(fn):
    """The function carries functools.lru_cache(...) / functools.cache."""
    m = getattr(fn, "_sx_memoised", None)
    if m is None:
        m = fn._sx_memoised = any(U(d).split("(")[0].split(".")[-1] in ("lru_cache", "cache")
                                  for d in getattr(fn, "decorator_list", ()))
    return m


def _instance_memo_kind(fn):
    """'member' | 'property' | None: the method carries a per-instance memoising decorator."""
    k = getattr(fn, "_sx_instance_memo", 0)
    if k == 0:
        names = [U(d).split("(")[0].split(".")[-1] for d in getattr(fn, "decorator_list", ())]
        k = "member" if "cached_member" in names else "property" if "cached_property" in names else None
        fn._sx_instance_memo = k
    return k


def _walk_noscope(fn):
    stack = list(fn.body)
    while stack:
        n = stack.pop()
        yield n
        if isinstance(n, FuncNode + (ast.Lambda, ast.ClassDef)):
            continue
        stack.extend(ast.iter_child_nodes(n))


_BIN = {ast.Add: operator.add, ast.Sub: operator.sub, ast.Mult: operator.mul, ast.Mod: operator.mod,
        ast.FloorDiv: operator.floordiv, ast.Pow: operator.pow, ast.BitAnd: operator.and_, ast.BitOr: operator.or_,
        ast.BitXor: operator.xor, ast.LShift: operator.lshift, ast.RShift: operator.rshift}

_NUMBER_FLAGS = {
    "is_number": lambda v: True, "is_Number": lambda v: True, "is_zero": lambda v: v == 0, "is_positive": lambda v: v > 0,
    "is_negative": lambda v: v < 0, "is_Integer": lambda v: isinstance(v, int), "is_integer": lambda v: Fraction(v).denominator == 1,
    "is_Rational": lambda v: True, "is_Atom": lambda v: True, "is_Add": lambda v: False, "is_Mul": lambda v: False,
    "is_Pow": lambda v: False, "is_Symbol": lambda v: False, "args": lambda v: (),
}

_BUILTIN_CONST = {"True": True, "False": False, "None": None}
_SYMPY_NUM = {"S.One": 1, "S.Zero": 0, "S.NegativeOne": -1, "S.Half": Fraction(1, 2)}
_OPERATOR = {"operator.add": ast.Add, "operator.sub": ast.Sub, "operator.mul": ast.Mult, "operator.truediv": ast.Div,
             "operator.pow": ast.Pow, "operator.iadd": ast.Add, "operator.imul": ast.Mult}
_TYPE_NAMES = {"int", "str", "list", "tuple", "dict", "set", "float", "bool", "frozenset", "NoneType"}

_BUILTINS = {
    "len": len, "range": range, "int": int, "str": str, "abs": abs, "sum": sum, "list": list, "tuple": tuple,
    "min": min, "max": max, "sorted": sorted, "bool": bool, "float": float,
    "enumerate": lambda *a, **k: list(enumerate(*a, **k)), "zip": lambda *a, **k: list(zip(*a, **k)),
    "set": set, "dict": dict, "reversed": lambda x: list(reversed(x)), "frozenset": frozenset,
    "divmod": divmod, "round": round, "repr": repr, "any": any, "all": all,
}
