"""C11 expanding / factoring / reducing intermediates (structural clauses)."""
from __future__ import annotations

import ast
import re
from fractions import Fraction

from ..symex import Symex, Obj, Func
from ..terms import (T, sym, show, subterms, args_of, strip, expand_products, canon, is_num, t_mul, t_add, t_pow, calls)
from ..model import AnalysisError, U, Defs, calls_in, call_name, walk_fn, kwarg, enclosing, enclosing_stmt, short
from ..pathcond import conditions
from . import common
from . import c08, c13
from .itmd_ir import registry, CANON_KEY, need_bra_ket_swap

EXPLANATION = (
    "R11a: expand_itmd substitution (targets zip(base_target, indices); every base contracted index "
    "gets a fresh generic index of the same (space, spin), surplus raises; ordered; zero-guarded; "
    "validate_indices demands equal length and position-wise equal space). R11b: term conservation "
    "in t2_1.factor_itmd, _factor_short_intermediate (every path adds the possibly factored term "
    "once), _factor_long_intermediate (unfactored terms added at the end; factored_terms.update "
    "paired with adding the factored term; mixed-prefactor completion adds (pref - desired) * term), "
    "factor_itmd's relevant/irrelevant split, prefactor formulas. R11c: the Zero placeholder is "
    "resolved to 0 only for the tensor named 'Zero', which only re_residual classes build. R11d: all "
    "definitions bind every referenced intermediate as X.expand_itmd if fully_expand else X.tensor "
    "(residuals always .tensor). R11e: for every registered class the reader's name "
    "(Obj.longname with default names, computed from the tensor _build_tensor constructs) equals the "
    "class name. R11f: the index order read back from that tensor (lower+upper for amplitudes, "
    "upper+lower otherwise) reproduces _default_idx and construction does not permute the defaults. "
    "R11g: reduce_expr bookkeeping (R13g) and ordered substitutions at its sites. R11h: pool clean-up "
    "of LongItmdVariants visits every entry. R11i: the sign that maps a match's remainder onto the stored remainder is applied to both "
    "stored prefactors (prefactor and unit factorisation prefactor). R13d/R13h: expansion skeleton incl. fresh contracted indices per factor of a "
    "power; fraction cancellation bookkeeping.")
ASSUMPTIONS = [
    "the matching logic (_compare_terms, LongItmdVariants, factor_denom, cancel_orb_energy_frac) is a runtime "
    "statement and not decided",
]

IT = "intermediates:RegisteredIntermediate."
FI = "factor_intermediates:"


# ---------------------------------------------------------------------------
# abstract values shared by the scenarios


def mk_index(name, space=None, spin=""):
    """Abstract ``Index``: a record with the attributes the library reads."""
    space = space or space_name(name)
    o = Obj(None, name)
    o.attrs.update(name=name, space=space, spin=spin, space_and_spin=(space, spin))
    return o


def space_name(n):
    return "occ" if n[0] in "ijklmno" else "virt" if n[0] in "abcdefgh" else "general"


def split_names(x):
    return re.findall(r"[a-z]\d*", x)


def get_symbols_model(sx, a, kw):
    """get_symbols: names -> Index records (records pass through)."""
    x = a[0] if a else kw.get("indices")
    if isinstance(x, T):
        return NotImplemented
    if isinstance(x, Obj):
        return [x]
    if isinstance(x, str):
        x = split_names(x)
    return tuple(mk_index(n) if isinstance(n, str) else n for n in x)


class IndexSource:
    """Model of ``Indices().get_generic_indices``: every call hands out names never handed out before (per path);
    ``surplus`` > 0 models a generator that returns more than requested."""

    def __init__(self, surplus=0):
        self.surplus = surplus
        self.reset()

    def reset(self, sx=None):
        self.calls = []          # one dict name -> (space, spin) per call
        self.requests = []

    def __call__(self, sx, a, kw):
        if any(isinstance(v, T) for v in kw.values()) or "**" in kw:
            return NotImplemented
        n_call = len(self.calls)
        made, out = {}, {}
        self.requests.append(dict(kw))
        for k, n in kw.items():
            parts = k.split("_")
            sp, spin = (parts[0], parts[1]) if len(parts) == 2 else (parts[0], "")
            if n == 0:
                continue
            lst = []
            for i in range(n + self.surplus):
                nm = f"<gen{n_call}.{sp}{'_' + spin if spin else ''}.{i}>"
                lst.append(mk_index(nm, sp, spin))
                made[nm] = (sp, spin)
            out[(sp, spin)] = lst
        self.calls.append(made)
        return out


CACHE_DECORATORS = ("cached_member", "cached_property", "cache", "lru_cache")


def memo_hooks(model, modules, vocabulary=()):
    """Functions behind a caching decorator evaluate once per argument tuple: the second call returns the first result
    without re-running the body (so effects such as index generation inside them happen once)."""
    hooks, memo = {}, {}
    for mod in modules:
        m = model.module(mod)
        for q, fn in m.functions.items():
            decos = [U(d).split("(")[0].split(".")[-1] for d in fn.decorator_list]
            if not any(d in CACHE_DECORATORS for d in decos) or q.split(".")[-1] in vocabulary:
                continue

            def hook(sx, a, kw, fn=fn, q=f"{mod}:{q}"):
                from ..symex import _freeze
                key = (q, repr(_freeze(list(a))), repr(sorted((k, repr(_freeze(v))) for k, v in kw.items())))
                if key not in memo:
                    bound = a[0] if a and fn.args.args and fn.args.args[0].arg in ("self", "cls") else None
                    f = Func(fn, [], fn._module, fn._qual, bound=bound)
                    memo[key] = sx._invoke(f, list(a[1:]) if bound is not None else list(a), kw, fn)
                return memo[key]
            hooks[f"{mod}:{q}"] = hook
            if "." in q:
                hooks[".".join(q.split(".")[-2:])] = hook
    return hooks, memo


def dict_of(t):
    """python dict of a frozen ``dict`` term."""
    if isinstance(t, T) and t.op == "dict":
        return dict(t.args)
    return None


def nm(x):
    return x.args[0] if isinstance(x, T) and x.op == "sym" else x.name if isinstance(x, Obj) else x


# ---------------------------------------------------------------------------
# R11a expansion of a definition on requested indices

EXPAND_VOCAB = {"get_symbols", "order_substitutions", "_build_expanded_itmd", "get_generic_indices"}


def _expand_sx(ctx, src, build, what):
    hooks, memo = memo_hooks(ctx.model, ["intermediates"], EXPAND_VOCAB)
    hooks.update({"get_symbols": get_symbols_model, "get_generic_indices": src, "_build_expanded_itmd": build})
    sx = Symex(ctx.model, inline=lambda q: q.split(":")[-1].split(".")[-1] not in EXPAND_VOCAB, hooks=hooks, what=what,
               max_paths=4096)

    def start(sx_):
        src.reset()
        memo.clear()
    sx.on_start = start
    return sx


def _subs_of(value):
    """(base, substitution dict, simultaneous/ordered) of ``base.subs(order_substitutions(D))`` | ``base.subs(D, simultaneous=True)``."""
    if not (isinstance(value, T) and value.op == "mcall" and value.args[1] == "subs"):
        return None
    a = args_of(value)
    arg = a.get(0)
    if isinstance(arg, T) and arg.op == "call" and arg.args[0] == "order_substitutions":
        d = dict_of(args_of(arg).get("subsdict", args_of(arg).get(0)))
        return (value.args[0], d, True) if d is not None else None
    d = dict_of(arg)
    if d is not None:
        return value.args[0], d, a.get("simultaneous") is True
    return None


def _check_expansion(ctx, rule, fn, what, sub, src_call, targets, requested, contracted, key):
    """the substitution of one expansion: targets by position, every contracted index onto its own fresh index."""
    base, d, ordered = sub
    d = {nm(k): nm(v) for k, v in d.items()}
    want_t = {t: r for t, r in zip(targets or (), requested)}
    got_t = {k: v for k, v in d.items() if k in (targets or ())}
    ctx.check(rule, fn, got_t == want_t and (targets is None or len(targets) == len(requested)),
              f"{what}: base targets -> requested indices by position",
              f"{what}: the target indices of the definition are mapped {got_t}, expected {want_t}", key=f"target map {key}")
    got_c = {k: v for k, v in d.items() if k not in (targets or ())}
    cnames = [c for c, _ in contracted or ()]
    ok = sorted(got_c) == sorted(cnames)
    why = f"{what}: substituted contracted indices {sorted(got_c)}, the definition contracts {sorted(cnames)}"
    if ok:
        imgs = list(got_c.values())
        if len(set(imgs)) != len(imgs):
            ok, why = False, f"{what}: two contracted indices share one replacement: {got_c}"
        for c, ss in contracted or ():
            g = src_call.get(got_c[c])
            if g is None:
                ok, why = False, (f"{what}: contracted index {c} is replaced by `{got_c[c]}`, which was not generated for this "
                                  "expansion (indices of two expansions coincide: an index then occurs four times in a product)")
                break
            if g != ss:
                ok, why = False, f"{what}: contracted index {c} {ss} is replaced by an index of {g}"
                break
    ctx.check(rule, fn, ok, f"{what}: one fresh generic index per contracted index, same (space, spin), all different", why,
              key=f"contracted map {key}")
    ctx.check(rule, fn, ordered, f"{what}: substitution executed as a simultaneous one (ordered)",
              f"{what}: the substitution dict is applied sequentially without ordering", key=f"ordered {key}")
    return base


def r11a(ctx):
    rule = "R11a"
    fn = ctx.model.fn(IT + "expand_itmd")
    tnames, cn = ("i", "j", "a", "b"), (("k", ("occ", "")), ("c", ("virt", "")), ("l", ("occ", "")))
    req = ("m", "n", "e", "f")
    state = {}

    def scenario(targets, contracted, requested, return_sympy, spin_at=None):
        def build(sx, a, kw):
            state["level"] = (a[1:], dict(kw))
            return Obj(None, "base", expr=sym("BASE"), target=None if targets is None else tuple(mk_index(t) for t in targets),
                       contracted=None if contracted is None else tuple(mk_index(c, s[0], s[1]) for c, s in contracted))

        def args():
            ind = tuple(mk_index(r, spin="a" if spin_at == k else "") for k, r in enumerate(requested))
            return dict(self=Obj("intermediates:t2_2", "self", _default_idx=tnames), indices=ind, return_sympy=return_sympy,
                        fully_expand=sym("LEVEL"))
        return build, args

    def run(src, build, args, what):
        sx = _expand_sx(ctx, src, build, what)
        return sx.run(fn, args)

    for targets, contracted, rs, tag in ((tnames, cn, False, "full"), (tnames, cn, True, "sympy"), (tnames, None, True, "no contraction"),
                                         (tnames, (("k", ("occ", "")), ("c", ("virt", "b")), ("d", ("virt", ""))), True, "spin")):
        src = IndexSource()
        build, args = scenario(targets, contracted, req, rs)
        outs = run(src, build, args, f"expand_itmd[{tag}]")
        rets = [o for o in outs if o.kind == "return"]
        ctx.check(rule, fn, len(rets) >= 1, f"[{tag}] a valid request is expanded",
                  f"expand_itmd[{tag}] refuses a valid request on every path: {outs[:3]}", key=f"returns {tag}")
        for n_o, o in enumerate(outs):
            # src state belongs to the last path only -> recompute from the names (self-describing)
            gen = {}
            for t in subterms(o.value) if o.kind == "return" else ():
                if t.op == "sym" and str(t.args[0]).startswith("<gen"):
                    _, sp, _ = str(t.args[0])[1:-1].split(".")
                    gen[t.args[0]] = tuple(sp.split("_")) if "_" in sp else (sp, "")
            zero = [a for a, pol in o.path if pol and a.op == "cmp" and a.args[0] == "is" and any(
                isinstance(x, T) and show(x).endswith("S.Zero") for x in a.args[1:])]
            if o.kind == "raise":
                # refused exactly when the substituted definition vanishes although the definition does not
                vanished = [a for a in zero if any(isinstance(x, T) and x.op == "mcall" and x.args[1] == "subs" for x in a.args[1:])]
                base_nz = any(not pol and a.op == "cmp" and a.args[0] == "is" and sym("BASE") in a.args[1:] for a, pol in o.path)
                ctx.check(rule, fn, o.exc == "ValueError" and vanished and base_nz, f"[{tag}] annihilating substitution refused",
                          f"expand_itmd[{tag}] raises {o.exc} on the path {o.path!r}", key=f"zero guard {tag} {n_o}")
                continue
            v = o.value
            if not rs:
                okw = isinstance(v, T) and v.op == "call" and v.args[0] == "Expr"
                tgt = args_of(v).get("target_idx") if okw else None
                ctx.check(rule, fn, okw and tuple(nm(x) for x in (tgt or ())) == req, f"[{tag}] result carries the requested indices as targets",
                          f"expand_itmd[{tag}]: wrapped result has target indices {show(tgt)}, expected {req}", key=f"targets {tag} {n_o}")
                v = args_of(v).get("e", args_of(v).get(0)) if okw else v
            sub = _subs_of(v)
            if sub is None:
                ctx.bad(rule, fn, f"expand_itmd[{tag}] does not return the substituted definition: {show(v)[:200]}", key=f"apply {tag} {n_o}")
                continue
            base = _check_expansion(ctx, rule, fn, f"expand_itmd[{tag}]", sub, gen, targets, req, contracted, key=f"{tag} {n_o}")
            ctx.check(rule, fn, base == sym("BASE"), f"[{tag}] applied to the cached base expression",
                      f"expand_itmd[{tag}] substitutes in {show(base)[:120]}", key=f"apply {tag} {n_o}")
            # vanishing result without a vanishing definition must not be returned
            bad = [a for a in zero if any(isinstance(x, T) and x.op == "mcall" and x.args[1] == "subs" for x in a.args[1:])] and \
                any(not pol and a.op == "cmp" and a.args[0] == "is" and sym("BASE") in a.args[1:] for a, pol in o.path)
            ctx.check(rule, fn, not bad, f"[{tag}] no vanishing expansion of a non-vanishing definition returned",
                      f"expand_itmd[{tag}] returns although the substitution annihilated the definition", key=f"zero guard ret {tag} {n_o}")
        raised = [o for o in outs if o.kind == "raise"]
        ctx.check(rule, fn, len(raised) >= 1, f"[{tag}] substitution that annihilates the definition is refused",
                  f"expand_itmd[{tag}]: no path refuses a substitution that turns a non-zero definition into zero", key=f"zero guard {tag}")
        lv = state.get("level")
        ctx.check(rule, fn, lv is not None and (list(lv[0]) == [sym("LEVEL")] or lv[1].get("fully_expand") == sym("LEVEL")),
                  f"[{tag}] base expression of the requested expansion level",
                  f"expand_itmd[{tag}]: _build_expanded_itmd is called with {lv}; fully_expand is not forwarded to the definition",
                  key=f"level {tag}")
    # refusals
    src = IndexSource()
    build, args = scenario(tnames, cn, req, True, spin_at=2)
    outs = run(src, build, args, "expand_itmd[spin index]")
    ctx.check(rule, fn, outs and all(o.kind == "raise" and o.exc == "NotImplementedError" for o in outs), "indices with spin refused",
              f"expand_itmd accepts a requested index with spin: {outs}", key="spin")
    src = IndexSource(surplus=1)
    build, args = scenario(tnames, cn, req, True)
    outs = run(src, build, args, "expand_itmd[surplus]")
    ctx.check(rule, fn, outs and all(o.kind == "raise" and o.exc == "RuntimeError" for o in outs), "surplus fresh indices are an error",
              f"expand_itmd does not refuse left-over generated indices: {outs}", key="surplus")
    _r11a_twice(ctx)
    _r11a_validate(ctx)


def _r11a_twice(ctx):
    """two expansions in one run: the contracted indices of the second are generated anew (nothing between the request and the
    generator may be cached)"""
    rule = "R11a"
    fn = ctx.model.fn(IT + "expand_itmd")
    cn = (("k", ("occ", "")), ("c", ("virt", "")))
    src = IndexSource()

    def build(sx, a, kw):
        return Obj(None, "base", expr=sym("BASE"), target=tuple(mk_index(t) for t in "ijab"),
                   contracted=tuple(mk_index(c, s[0], s[1]) for c, s in cn))
    sx = _expand_sx(ctx, src, build, "expand_itmd twice")
    drv = ast.parse("r1 = self.expand_itmd(indices=I1, return_sympy=True, fully_expand=LEVEL)\n"
                    "r2 = self.expand_itmd(indices=I2, return_sympy=True, fully_expand=LEVEL)\n").body
    outs = sx.run_block(fn, drv, lambda: dict(self=Obj("intermediates:t2_2", "self", _default_idx=tuple("ijab")), LEVEL=sym("LEVEL"),
                                              I1=tuple(mk_index(x) for x in "mnef"), I2=tuple(mk_index(x) for x in "mnef")))
    done = [o for o in outs if o.kind == "fall"]
    ctx.check(rule, fn, len(done) >= 1, "two consecutive expansions complete", f"two consecutive expansions: {outs[:3]}", key="twice returns")
    for n_o, o in enumerate(done):
        s1, s2 = _subs_of(o.env["r1"]), _subs_of(o.env["r2"])
        if s1 is None or s2 is None:
            ctx.bad(rule, fn, "two expansions: result is not the substituted definition", key=f"twice shape {n_o}")
            continue
        i1 = {nm(v) for k, v in s1[1].items() if nm(k) in ("k", "c")}
        i2 = {nm(v) for k, v in s2[1].items() if nm(k) in ("k", "c")}
        ctx.check(rule, fn, not (i1 & i2) and len(i1) == 2 and len(i2) == 2,
                  "two expansions of one intermediate use disjoint contracted indices",
                  f"two expansions of the same intermediate share the contracted indices {sorted(i1 & i2)} (generated once and "
                  "re-used): in a product of two such factors an index occurs four times", key=f"twice {n_o}")


def _r11a_validate(ctx):
    rule = "R11a"
    vi = ctx.model.fn(IT + "validate_indices")
    default = ("i", "j", "a", "b")
    hooks = {"get_symbols": get_symbols_model}
    sx = Symex(ctx.model, inline=lambda q: q.split(".")[-1] not in ("get_symbols",), hooks=hooks, what="validate_indices")
    table = [(None, True), ("klcd", True), ("ijab", True), ("kl", False), ("klcde", False), ("", False)]
    for pos in range(4):
        bad = list("klcd")
        bad[pos] = "c" if pos < 2 else "k"
        table.append(("".join(bad), False))
    table += [("cdkl", False), ("kcld", False)]
    for given, valid in table:
        outs = sx.run(vi, lambda: dict(self=Obj("intermediates:t2_2", "self", _default_idx=default),
                                       indices=None if given is None else tuple(mk_index(x) for x in split_names(given))))
        if valid:
            want = list(default if given is None else split_names(given))
            ok = len(outs) == 1 and outs[0].kind == "return" and not isinstance(outs[0].value, T) and \
                [nm(x) for x in outs[0].value] == want
            ctx.check(rule, vi, ok, f"indices {given!r} accepted and returned in the given order",
                      f"validate_indices({given!r}) for defaults {default}: {outs}", key=f"validate {given}")
        else:
            ctx.check(rule, vi, outs and all(o.kind == "raise" for o in outs),
                      f"indices {given!r} refused (number / position-wise space differ from {''.join(default)})",
                      f"validate_indices accepts {given!r} for the default indices {''.join(default)}: the definition would be "
                      "expanded on indices of the wrong space", key=f"validate {given}")


def r11b(ctx):
    rule = "R11b"
    # t2_1.factor_itmd
    fn = ctx.model.fn("intermediates:t2_1.factor_itmd")
    lp = [n for n in walk_fn(fn) if isinstance(n, ast.For) and U(n.iter) == "expr.terms"]
    ctx.floor(rule, "term loop in t2_1.factor_itmd", len(lp), 1)

    def ev(acc):
        def is_event(n):
            return isinstance(n, ast.AugAssign) and isinstance(n.op, ast.Add) and U(n.target) == acc
        return is_event
    acc, drops = common.loop_conservation(ctx, rule, fn, lp[0], U(lp[0].target), is_event=ev("factored"))
    common.lost(ctx, rule, lp[0], U(lp[0].target), drops)
    ft = [n for n in walk_fn(fn) if isinstance(n, ast.AugAssign) and U(n.target) == "factored_term"]
    vals = sorted(U(n.value).replace(" ", "").replace("\n", "") for n in ft)
    ctx.check(rule, fn, vals == ["Pow(self.tensor(indices=eri.idx,return_sympy=True)/t2.pref,min_exp)", "term.pref*eri*term.num/denom"],
              "factored term = (t2/pref)^n * pref * remaining eri * num / remaining denom", f"factored term assembled from {vals}", key="t2_1 assembly")
    a = {U(x.targets[0]): U(x.value) for x in walk_fn(fn) if isinstance(x, ast.Assign)}
    ctx.check(rule, fn, a.get("min_exp") == "min(eri_exp, bk_exponent)" and a.get("denom") == "term.cancel_denom_brackets(denom_brackets_to_remove)"
              and a.get("eri") == "term.cancel_eri_objects(eri_obj_to_remove)", "integral and bracket removed equally often",
              "removal bookkeeping of t2_1 changed", key="t2_1 removal")
    ex = sorted(U(c.args[0]) for c in calls_in(fn) if call_name(c) == "extend")
    ctx.check(rule, fn, ex == ["(bk_idx for _ in range(min_exp))", "(eri_idx for _ in range(min_exp))"], "both removed min_exp times",
              f"{ex}", key="t2_1 multiplicity")
    mt = [n for n in walk_fn(fn) if isinstance(n, ast.If) and U(n.test) == "bk == sub_t2_denom"]
    ctx.check(rule, fn, len(mt) == 1, "bracket must equal the substituted t2 denominator", "denominator comparison changed", key="t2_1 denom match")
    # _factor_short_intermediate
    fs = ctx.model.fn(FI + "_factor_short_intermediate")
    lp = [n for n in walk_fn(fs) if isinstance(n, ast.For) and U(n.iter) == "terms"]
    ctx.floor(rule, "term loop in _factor_short_intermediate", len(lp), 1)
    acc, drops = common.loop_conservation(ctx, rule, fs, lp[0], U(lp[0].target), is_event=ev("factored"))
    common.lost(ctx, rule, lp[0], U(lp[0].target), drops)
    adds = sorted({U(n.value) for n in walk_fn(lp[0]) if isinstance(n, ast.AugAssign) and U(n.target) == "factored"})
    ctx.check(rule, fs, adds == ["factored_term", "term.expr"], "either the unchanged term or the factored term is added", f"adds {adds}",
              key="short adds")
    a = {U(x.targets[0]): U(x.value).replace("\n", "").replace(" ", "") for x in walk_fn(fs) if isinstance(x, ast.Assign)}
    ctx.check(rule, fs, a.get("pref") == "term.pref*variant_data['factor']/itmd.pref", "prefactor = term pref * factor / itmd pref",
              f"short prefactor {a.get('pref')}", key="short pref")
    ctx.check(rule, fs, a.get("factored_term") == "_build_factored_term(remainder,pref,itmd_cls,itmd_indices)", "factored term from remainder, pref, tensor",
              "short assembly changed", key="short assembly")
    ctx.check(rule, fs, a.get("itmd_indices") == "tuple((variant_data['sub'].get(s,s)forsinget_symbols(itmd_cls.default_idx)))",
              "intermediate indices = images of the default indices", "short itmd indices changed", key="short indices")
    # _factor_long_intermediate
    fl = ctx.model.fn(FI + "_factor_long_intermediate")
    tail = [n for n in walk_fn(fl) if isinstance(n, ast.For) and U(n.iter) == "enumerate(terms)" and any(
        isinstance(s, ast.If) and U(s.test) == "term_i not in factored_terms" for s in n.body)]
    ok = len(tail) == 1 and [U(s) for s in tail[0].body[0].body] == ["factored_terms.add(term_i)", "result += term"]
    ctx.check(rule, fl, ok, "terms not involved in a factorisation are added unchanged at the end", "tail loop changed", key="long tail")
    asr = [n for n in walk_fn(fl) if isinstance(n, ast.Assert) and U(n.test) == "len(factored_terms) == len(terms)"]
    ctx.check(rule, fl, len(asr) == 1, "every term accounted for", "accounting assertion removed", key="long assert")
    a = {U(x.targets[0]): U(x.value).replace("\n", "").replace(" ", "") for x in walk_fn(fl) if isinstance(x, ast.Assign)}
    ctx.check(rule, fl, a.get("prefactor") == "term.pref*variant_data['factor']*Rational(1,len(matching_itmd_terms))/itmd[itmd_i].pref",
              "prefactor normalised over the itmd terms the match spreads to", f"long prefactor {a.get('prefactor')}", key="long pref")
    ctx.check(rule, fl, a.get("unit_factorization_pref") == "itmd[itmd_i].pref*variant_data['factor']*len(matching_itmd_terms)",
              "unit factorisation prefactor", f"{a.get('unit_factorization_pref')}", key="long unit")
    for name in ("_factor_complete", "_factor_mixed_prefactors"):
        f = ctx.model.fn(FI + name)
        up = [c for c in calls_in(f) if call_name(c) == "update" and U(c.func.value) == "factored_terms"]
        ok = len(up) == 1 and U(up[0].args[0]) == "term_list"
        blk = enclosing_stmt(up[0])._parent.body if up else []
        texts = [U(s) for s in blk]
        ok = ok and "result += new_term" in texts and "intermediate_variants.remove_used_terms(term_list)" in texts
        ctx.check(rule, f, ok, f"{name}: used terms marked exactly when the factored term is added", f"{name}: bookkeeping changed", key=f"{name} pairing")
        nt = [x for x in walk_fn(f) if isinstance(x, ast.Assign) and U(x.targets[0]) == "new_term"]
        want = "_build_factored_term(rem, pref, itmd_cls, itmd_indices)" if name == "_factor_complete" else \
            "_build_factored_term(rem, most_common_pref, itmd_cls, itmd_indices)"
        ctx.check(rule, f, len(nt) == 1 and " ".join(U(nt[0].value).split()) == want, f"{name}: factored term from remainder and prefactor",
                  f"{name}: new term `{U(nt[0].value) if nt else None}`", key=f"{name} new term")
    fm = ctx.model.fn(FI + "_factor_mixed_prefactors")
    a = {U(x.targets[0]): U(x.value).replace(" ", "") for x in walk_fn(fm) if isinstance(x, ast.Assign)}
    ctx.check(rule, fm, a.get("desired_pref") == "most_common_pref*unit_factors[term_i]" and a.get("extension_pref") == "term.pref-desired_pref"
              and a.get("term") in ("extension_pref*term.num*term.eri/term.denom",),
              "completion term = (pref - desired pref) * term", f"completion: {a.get('desired_pref')}, {a.get('extension_pref')}, {a.get('term')}",
              key="mixed completion")
    sk = [n for n in walk_fn(fm) if isinstance(n, ast.Continue)]
    ctx.check(rule, fm, len(sk) == 1 and U(sk[0]._parent.test) == "p == most_common_pref or term_i in terms_to_add",
              "only terms with a different prefactor are completed, once", "selection of terms to complete changed", key="mixed selection")
    # factor_itmd split
    fi = ctx.model.fn(IT + "factor_itmd")
    sp = [n for n in walk_fn(fi) if isinstance(n, ast.For) and U(n.iter) == "zip(terms, term_is_relevant)"]
    ok = len(sp) == 1 and U(sp[0].body[0]) == "if is_relevant:\n    to_factor += term\nelse:\n    remainder += term.sympy"
    ctx.check(rule, fi, ok, "every term goes either to the part to factor or to the remainder", "relevant/irrelevant split changed", key="split")
    fin = sorted(U(x) for x in walk_fn(fi) if isinstance(x, (ast.Assign, ast.AugAssign)) and "remainder" in U(x) and "factored" in U(x))
    ctx.check(rule, fi, fin == ["factored += remainder", "factored = to_factor + remainder"], "remainder added back in both branches",
              f"recombination {fin}", key="recombine")
    early = [U(r.value) for r in common.returns_of(fi)]
    ctx.check(rule, fi, early == ["expr", "expr", "factored"], "nothing to factor: expression unchanged", f"returns {early}", key="early")
    top = ctx.model.fn(FI + "factor_intermediates")
    lp = [n for n in walk_fn(top) if isinstance(n, ast.For) and U(n.iter) == "itmd_to_factor.items()"]
    ok = len(lp) == 1 and any(U(s) == "expr = itmd_cls.factor_itmd(expr, factored, max_order)" for s in lp[0].body) \
        and any(U(s) == "factored.append(name)" for s in lp[0].body)
    ctx.check(rule, top, ok, "intermediates factored one after another on the running expression", "driver loop changed", key="driver")
    flt = [x for x in walk_fn(top) if isinstance(x, ast.Assign) and isinstance(x.value, ast.DictComp)]
    ctx.check(rule, top, len(flt) == 1 and [U(i) for i in flt[0].value.generators[0].ifs] == ["itmd_cls.order <= max_order"],
              "max_order filter", "max_order filter changed", key="max order")


def r11c(ctx):
    rule = "R11c"
    fn = ctx.model.fn(FI + "_build_factored_term")
    z = [r for r in common.returns_of(fn) if "Expr(0" in U(r.value)]
    ok = len(z) == 1 and ("tensor.name == 'Zero'", True) in conditions(z[0])
    ctx.check(rule, fn, ok, "zero only for the placeholder tensor named 'Zero'", "the factored term is replaced by 0 under another condition",
              key="zero placeholder")
    last = common.returns_of(fn)[-1]
    ctx.check(rule, fn, sorted(U(f) for f in c13._flatten(last.value)) == ["pref", "remainder", "tensor"], "factored term = remainder * pref * tensor",
              f"factored term `{U(last.value)}`", key="assembly")
    t = [x for x in walk_fn(fn) if isinstance(x, ast.Assign) and U(x.targets[0]) == "tensor"]
    ctx.check(rule, fn, len(t) == 1 and U(t[0].value) == "itmd_cls.tensor(indices=itmd_indices, return_sympy=True)",
              "tensor of the factored intermediate on the found indices", "tensor construction changed", key="tensor")
    reg = registry(ctx)
    for name, info in reg.items():
        builds_zero = info["tensor_name_literal"] == "Zero"
        ctx.check(rule, info["cls"], builds_zero == (info["itmd_type"] == "re_residual"),
                  f"{name}: {'builds' if builds_zero else 'does not build'} the Zero placeholder",
                  f"{name} (type {info['itmd_type']}) {'builds' if builds_zero else 'does not build'} the 'Zero' placeholder; only "
                  "residuals (which vanish for converged amplitudes) may be factored to 0", key=f"zero {name}")


def r11d(ctx):
    rule = "R11d"
    reg = registry(ctx)
    n = 0
    for name, info in reg.items():
        fn = info["build"]
        refs = {}
        for a in walk_fn(fn):
            if isinstance(a, (ast.Assign, ast.AnnAssign)):
                t = a.targets[0] if isinstance(a, ast.Assign) else a.target
                v = a.value
                if v is not None and "self._registry[" in U(v) and isinstance(t, ast.Name):
                    refs[t.id] = U(v)
        for var, src in refs.items():
            n += 1
            rebinds = [a for a in walk_fn(fn) if isinstance(a, ast.Assign) and U(a.targets[0]) == var and "self._registry[" not in U(a.value)]
            if info["itmd_type"] == "re_residual":
                uses = [c for c in calls_in(fn) if isinstance(c.func, ast.Attribute) and U(c.func.value) == var]
                ok = not rebinds and uses and all(c.func.attr == "tensor" for c in uses)
                ctx.check(rule, fn, ok, f"{name}: residual uses {var}.tensor only", f"{name}: residual definitions must reference `{var}` "
                          "through .tensor", fn=f"intermediates:{name}._build_expanded_itmd", key=f"{name} {var}")
                continue
            ok = False
            if len(rebinds) == 1 and U(rebinds[0].value) == f"{var}.expand_itmd if fully_expand else {var}.tensor":
                ok = True
            elif len(rebinds) == 2:
                tab = {}
                for r in rebinds:
                    cs = conditions(r)
                    tab[True if ("fully_expand", True) in cs else False if ("fully_expand", False) in cs else None] = U(r.value)
                ok = tab == {True: f"{var}.expand_itmd", False: f"{var}.tensor"}
            ctx.check(rule, fn, ok, f"{name}: `{var}` = expand_itmd if fully_expand else tensor",
                      f"{name}: referenced intermediate `{var}` is not bound as `{var}.expand_itmd if fully_expand else {var}.tensor` "
                      f"({[U(r.value) for r in rebinds]}): the expansion level is ignored for it",
                      fn=f"intermediates:{name}._build_expanded_itmd", key=f"{name} {var}")
    ctx.floor(rule, "references to other intermediates", n, 30)


def r11e(ctx):
    rule = "R11e"
    reg = registry(ctx)
    ctx.floor(rule, "registered intermediate classes", len(reg), 25)
    for name, info in reg.items():
        if info["tensor_name_literal"] == "Zero":
            ctx.ok(rule, info["cls"], f"{name}: Zero placeholder (resolved by _build_factored_term)", fn=f"intermediates:{name}", key=f"name {name}")
            continue
        ln = info["longname"]
        ctx.check(rule, info["cls"], ln == name, f"{name}: longname of its tensor is `{ln}`",
                  f"the tensor built by {name}._build_tensor has the long name `{ln}`; Obj.expand_intermediates looks intermediates up by "
                  f"that name, so `{name}` is never found (or another definition is used)", fn=f"intermediates:{name}", key=f"name {name}")
    ln = ctx.model.fn("expr_container:Obj.longname")
    fs = sorted(U(a.value) for a in walk_fn(ln) if isinstance(a, ast.Assign) and U(a.targets[0]) == "name" and isinstance(a.value, ast.JoinedStr))
    want = sorted(["f'{base_name}{len(base.upper)}_{ext}'", "f'{base_name}{len(base.upper)}'", "f'u{lr}{n}'", "f'{base_name}0_{ext}_{self.space}'",
                   "f'{base_name}0_{self.space}'", "f't2eri_{name[5:]}'", "f'd_{self.space}'"])
    ctx.check(rule, ln, fs == want, "longname formats (t{rank}_{order}, p0_{order}_{space}, t2eri_{n})", f"longname formats {fs}", key="longname formats")
    av = ctx.model.fn("intermediates:Intermediates.__init__")
    a = [x for x in walk_fn(av) if isinstance(x, (ast.Assign, ast.AnnAssign)) and "_available" in U(x.targets[0] if isinstance(x, ast.Assign) else x.target)]
    ok = len(a) == 1 and U(a[0].value) == "{name: obj for objects in self._registered.values() for name, obj in objects.items()}"
    ctx.check(rule, av, ok, "available = all registered classes by class name", "registry flattening changed", key="available")
    isub = ctx.model.fn("intermediates:RegisteredIntermediate.__init_subclass__")
    st = [x for x in walk_fn(isub) if isinstance(x, ast.Assign) and U(x.targets[0]) == "cls._registry[itmd_type][name]"]
    ctx.check(rule, isub, len(st) == 1 and U(st[0].value) == "cls()", "classes registered under their class name", "registration changed", key="register")
    from . import c19
    saved = ctx.per_rule
    c19.r19h(ctx)
    ob = ctx.model.fn("expr_container:Obj.expand_intermediates")
    lk = [c for c in calls_in(ob) if call_name(c) == "get" and U(c.func.value).endswith(".available")]
    ctx.check(rule, ob, len(lk) == 1, "definitions looked up in the registry", "lookup changed", key="lookup")


def r11f(ctx):
    rule = "R11f"
    reg = registry(ctx)
    for name, info in reg.items():
        d = info["default_idx"]
        got = info["idx_order"]
        ctx.check(rule, info["cls"], got is not None and list(got) == list(d), f"{name}: tensor.idx reproduces {tuple(d)}",
                  f"{name}: Obj.expand_intermediates hands the indices to expand_itmd in the order {got}, but the definition expects "
                  f"_default_idx order {tuple(d)}", fn=f"intermediates:{name}", key=f"order {name}")
        for grp in info["groups"]:
            srt = sorted(grp, key=CANON_KEY)
            ctx.check(rule, info["cls"], list(grp) == srt, f"{name}: default group {tuple(grp)} already canonical",
                      f"{name}: default index group {tuple(grp)} is not in canonical order {tuple(srt)}: construction permutes the "
                      "defaults and the read-back order differs", fn=f"intermediates:{name}", key=f"canonical {name} {''.join(grp)}")
        if info["bra_ket_sym"] and len(info["groups"]) == 2:
            up, lo = info["groups"]
            ctx.check(rule, info["cls"], not need_bra_ket_swap(up, lo), f"{name}: no bra-ket swap for the defaults",
                      f"{name}: the default upper/lower groups {up}/{lo} are exchanged on construction", fn=f"intermediates:{name}",
                      key=f"swap {name}")
        ctx.check(rule, info["cls"], info["partition_ok"], f"{name}: _build_tensor slices partition the indices",
                  f"{name}: the slices of `indices` in _build_tensor overlap or leave a gap ({info['slices']})", fn=f"intermediates:{name}",
                  key=f"partition {name}")


# ---------------------------------------------------------------------------
# R11h / R11i: the pool of matches of a long intermediate (concrete decision tables)

LV = FI + "LongItmdVariants."


def _pools():
    """Small pools {itmd_indices: {remainder: {positions: [(term_i, pref, unit pref)]}}}: hand-made corner cases and a
    deterministic enumeration (position order, empty lists, terms listed at none / some / all positions)."""
    F = Fraction
    yield {("i", "a"): {"R0": {(0,): [(0, 1, 1), (1, 2, 1)], (1,): [(2, 1, 1)], (0, 1): [(0, 1, 1), (3, 1, 2)]}, "R1": {(0,): [(5, 1, 1)]}},
           ("j", "b"): {"R2": {(1,): [(0, 1, 1)], (0,): [(4, 1, 1), (0, 3, 1)]}}}
    yield {("i", "a"): {"R0": {(0,): [(4, 1, 1)], (1,): [(0, 1, 1)], (2,): [(0, F(1, 2), 1), (0, 1, -1), (1, 1, 1)]}}}
    yield {("i", "a"): {"R0": {(0,): [(0, 1, 1)], (1,): [(1, 1, 1)]}, "R1": {(0,): [(2, 1, 1)]}}, ("j", "b"): {"R0": {(0,): [(0, 1, 1)]}}}
    yield {("i", "a"): {"R0": {}}, ("j", "b"): {}}
    yield {}
    import itertools
    import random
    rnd = random.Random(11)
    for n in range(40):
        pool = {}
        for ik in range(rnd.randint(1, 3)):
            rems = {}
            for rk in range(rnd.randint(0, 3)):
                pos = {}
                for pk in rnd.sample([(0,), (1,), (2,), (0, 1), (1, 2), (0, 1, 2)], rnd.randint(0, 4)):
                    pos[pk] = [(rnd.randint(0, 4), rnd.choice([1, -1, F(1, 2)]), rnd.choice([1, -1, 2])) for _ in range(rnd.randint(0, 3))]
                rems[f"R{rk}"] = pos
            pool[("i", "a", ik)] = rems
        yield pool


def _copy_pool(p):
    return {k: {r: {pos: list(ms) for pos, ms in d.items()} for r, d in v.items()} for k, v in p.items()}


def r11h(ctx):
    """pool clean-up of LongItmdVariants: evaluated on concrete pools against the specification"""
    rule = "R11h"
    ru = ctx.model.fn(LV + "remove_used_terms")
    ce = ctx.model.fn(LV + "clean_empty")
    sx = Symex(ctx.model, inline=lambda q: True, what="LongItmdVariants clean-up")
    n = 0
    for k, pool in enumerate(_pools()):
        for used in ([0], [0, 2], [1, 3, 4], [], [0, 1, 2, 3, 4, 5]):
            # specification: no match of a used term survives anywhere, every other match survives in order, positions
            # whose list became empty disappear (positions empty before stay as they are only if they were non-empty)
            want = {}
            for ik, rems in pool.items():
                want[ik] = {}
                for r, poss in rems.items():
                    want[ik][r] = {}
                    for pos, ms in poss.items():
                        left = [m for m in ms if m[0] not in used]
                        if left:
                            want[ik][r][pos] = left
            st = {}

            def args():
                st["p"] = _copy_pool(pool)
                return dict(self=st["p"], used_terms=list(used))
            outs = sx.run(ru, args)
            ok = len(outs) == 1 and outs[0].kind == "return" and st["p"] == want
            n += 1
            if not ok:
                left = sorted({m[0] for rems in st["p"].values() for poss in rems.values() for ms in poss.values() for m in ms} & set(used))
                ctx.bad(rule, ru, f"remove_used_terms({used}) on the pool {pool} leaves {st['p']}, expected {want}"
                        + (f": matches of the used terms {left} stay in the pool and the terms are factored a second time" if left else ""),
                        key=f"remove_used_terms pool {k} used {used}")
            else:
                ctx.ok(rule, ru, f"remove_used_terms({used}) on pool {k}: every match of a used term removed, everything else kept",
                       key=f"remove_used_terms pool {k} used {used}")
            # clean_empty afterwards: exactly the empty remainders and the indices without remainders vanish
            want2 = {ik: {r: poss for r, poss in rems.items() if poss} for ik, rems in want.items()}
            want2 = {ik: rems for ik, rems in want2.items() if rems}
            st2 = {}

            def args2():
                st2["p"] = _copy_pool(want)
                return dict(self=st2["p"])
            outs = sx.run(ce, args2)
            ok = len(outs) == 1 and outs[0].kind == "return" and st2["p"] == want2
            ctx.check(rule, ce, ok, f"clean_empty on pool {k}/{used}: empty remainders and index entries removed, nothing else",
                      f"clean_empty on {want} leaves {st2['p']}, expected {want2}", key=f"clean_empty pool {k} used {used}")
    ctx.floor(rule, "pool clean-up evaluations", n, 100)


def r11i(ctx):
    """LongItmdVariants.add: a match is filed under the first stored remainder it can be mapped onto, with BOTH stored
    prefactors multiplied by the sign of that mapping; otherwise it founds a new remainder with the prefactors as given"""
    rule = "R11i"
    fn = ctx.model.fn(LV + "add")
    F = Fraction
    IDX = ("i", "a")
    cases = []
    for pref, unit in ((F(1, 2), 3), (2, 2), (-1, F(1, 4)), (1, 1)):
        for signs in (("R0", -1), ("R0", 1), ("R1", -1), ("R1", 1), (None, None)):
            cases.append((pref, unit, signs))
    n = 0
    for pref, unit, (hit, sign) in cases:
        for existing in ("other", "same", "none", "dup", "dupsign"):
            if existing == "none":
                pool0 = {}
            else:
                pool0 = {IDX: {"R0": {(0, 1): [(7, 1, 1)]}, "R1": {(2,): [(8, 1, 1)]}}, ("j", "b"): {"R0": {(0, 1): [(9, 1, 1)]}}}
                if existing == "same":
                    pool0[IDX][hit or "R0"][(0, 1)] = [(1, 5, 5)]
                if existing in ("dup", "dupsign") and hit is not None:
                    pool0[IDX][hit][(0, 1)] = [(1, pref * sign, unit * sign * (-1 if existing == "dupsign" else 1))]
            st = {}
            seen = []

            def cmp_model(sx_, a, kw):
                ref = kw.get("ref_remainder", a[1] if len(a) > 1 else None)
                seen.append((kw.get("remainder", a[0] if a else None), ref, kw.get("itmd_indices", a[2] if len(a) > 2 else None)))
                return sign if ref == hit else None
            sx = Symex(ctx.model, inline=lambda q: not q.endswith("_compare_remainder"), hooks={"_compare_remainder": cmp_model},
                       what="LongItmdVariants.add")

            def args():
                st["p"] = _copy_pool(pool0)
                del seen[:]
                return dict(self=st["p"], term_i=1, itmd_indices=IDX, remainder="NEW", matching_itmd_terms=(1, 0), prefactor=pref,
                            unit_factorization_pref=unit)
            outs = sx.run(fn, args)
            want = _copy_pool(pool0)
            want.setdefault(IDX, {})
            if hit is not None and hit in want[IDX]:
                rec = (1, pref * sign, unit * sign)
                lst = want[IDX][hit].setdefault((0, 1), [])
                if not any(m[0] == 1 and m[1] == rec[1] and abs(m[2]) == abs(rec[2]) for m in lst):
                    lst.append(rec)
            else:
                want[IDX]["NEW"] = {(0, 1): [(1, pref, unit)]}
            got = st.get("p")
            ok = len(outs) == 1 and outs[0].kind == "return" and got == want
            n += 1
            what = f"add(pref={pref}, unit={unit}) with stored remainders matching {hit} by {sign} [{existing}]"
            why = f"{what}: pool becomes {got}, expected {want}"
            if not ok and got is not None and hit is not None:
                recs = [m for m in got.get(IDX, {}).get(hit, {}).get((0, 1), []) if m[0] == 1]
                if recs and recs[-1][1] == pref * sign and recs[-1][2] != unit * sign:
                    why += (": the stored prefactor refers to the stored remainder, the unit factorisation prefactor to the unmapped one; "
                            "_factor_mixed_prefactors then completes the term with the wrong sign")
            ctx.check(rule, fn, ok, f"{what}: record filed with both prefactors referring to the stored remainder", why,
                      key=f"add {pref} {unit} {hit} {sign} {existing}")
            # the comparison is made against the stored remainders of the same itmd indices, with those indices fixed
            okc = all(r == "NEW" and i == IDX for r, ref, i in seen) and (existing == "none" or [ref for _, ref, _ in seen] ==
                                                                          (["R0", "R1"][:(["R0", "R1"].index(hit) + 1) if hit else 2]))
            ctx.check(rule, fn, okc, f"{what}: compared with the stored remainders of these itmd indices in order",
                      f"{what}: _compare_remainder called with {seen}", key=f"add compare {pref} {unit} {hit} {sign} {existing}")
    ctx.floor(rule, "evaluations of LongItmdVariants.add", n, 60)


def run(ctx):
    if ctx.want("R11h"):
        r11h(ctx)
    if ctx.want("R11i"):
        r11i(ctx)
    if ctx.want("R13h"):
        c13.r13h(ctx)
    if ctx.want("R13d"):
        c13.r13d(ctx)
    for r, f in (("R11a", r11a), ("R11b", r11b), ("R11c", r11c), ("R11d", r11d), ("R11e", r11e), ("R11f", r11f)):
        if ctx.want(r):
            f(ctx)
    if ctx.want("R13g"):
        c13.r13g(ctx)
    if ctx.want("R08a"):
        c08.r08a(ctx, modules={"reduce_expr", "intermediates", "factor_intermediates"})
