#!/usr/bin/env python3
"""tools/mk_followup.py <Cxx> <items file> : creates the worktree /tmp/va/<cxx> of /verif (branch agent/<cxx> at HEAD)
and writes the follow-up prompt for a hardening agent to /tmp/prompts/followup_<Cxx>.txt"""
import json, os, subprocess, sys
HERE = os.path.dirname(os.path.dirname(os.path.abspath(__file__)))
P = sys.argv[1].upper(); p = P.lower()
items = open(sys.argv[2]).read().strip()
wt = f"/tmp/va/{p}"
os.makedirs("/tmp/va", exist_ok=True)
os.makedirs("/tmp/prompts", exist_ok=True)
if not os.path.exists(wt):
    subprocess.run(["git", "-C", HERE, "branch", "-D", f"agent/{p}"], capture_output=True)
    r = subprocess.run(["git", "-C", HERE, "worktree", "add", "-b", f"agent/{p}", wt, "HEAD"], capture_output=True, text=True)
    assert r.returncode == 0, r.stderr
text = None
for l in open(os.path.join(HERE, "properties.jsonl")):
    d = json.loads(l)
    if d["id"] == P:
        text = d["title"] + ". " + d["statement"] + " Quantifier: " + d["quantifier"]["text"]
t = open(os.path.join(HERE, "tools/prompts/followup_prompt.txt")).read()
out = t.replace("{wt}", wt).replace("{P}", P).replace("{p}", p).replace("{text}", text).replace("{items}", items)
open(f"/tmp/prompts/followup_{P}.txt", "w").write(out)
print(f"/tmp/prompts/followup_{P}.txt", wt)
