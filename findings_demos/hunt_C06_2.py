"""
C06 / defect 2: the bra-ket swap that canonicalises a bra-ket (anti)symmetric
tensor on a diagonal space/spin block is decided by comparing only
(number, letter) of the index names. Two different indices that agree in this
reduced key - 'i' and 'i0' (both (0, 'i')), or two distinct Index objects of
the same name as they are produced by wicks for contracted general indices -
tie, no swap is ever performed and d^{x}_{y} and d^{y}_{x} stay two different
objects although the declared symmetry identifies them (up to the sign).

Run from the worktree root:  /venv/bin/python hunt_out/2/demo.py
exit 1: defect present, exit 0: fixed
"""
import os
import sys
sys.path.insert(0, os.getcwd())

import itertools  # noqa E402

from sympy import S  # noqa E402
import adcgen  # noqa E402
from adcgen.sympy_objects import (  # noqa E402
    AntiSymmetricTensor, SymmetricTensor, Amplitude
)
from adcgen.indices import get_symbols, Index  # noqa E402
from adcgen.expr_container import Expr  # noqa E402

print("using", adcgen.__file__)
bad = []


def check(descr, cls, upper, lower, **kw):
    """all orderings of bra/ket related by the bra-ket symmetry"""
    for bk in (1, -1):
        t1 = cls("d", upper, lower, bk)
        t2 = cls("d", lower, upper, bk)
        if t1 - bk * t2 is not S.Zero:
            bad.append(f"{descr}: {cls.__name__} bra_ket_sym={bk:+d}: "
                       f"d^{upper}_{lower} -> {t1!r}  but  "
                       f"d^{lower}_{upper} -> {t2!r}")


# ---- a) numbered names: i and i0, a and a0, (p1 and p01)
i, i0, j, k = get_symbols("ii0jk")
a, a0, b = get_symbols("aa0b")
ia, i0a = get_symbols(["i", "i0"], "aa")
for cls in (AntiSymmetricTensor, SymmetricTensor, Amplitude):
    check("i/i0", cls, (i,), (i0,))
    check("i/i0 (alpha)", cls, (ia,), (i0a,))
    check("ij/i0j", cls, (i, j), (i0, j))
    check("ia/i0a0", cls, (i, a), (i0, a0))
# control: other numbered names are canonicalised
i1, i2, i10 = get_symbols("i1i2i10")
for cls in (AntiSymmetricTensor, SymmetricTensor, Amplitude):
    n = len(bad)
    check("control", cls, (i1,), (i,))
    check("control", cls, (i10,), (i2,))
    check("control", cls, (i, j), (k, i1))
    assert len(bad) == n

# ---- b) distinct indices of the same name (the contraction of general
#         indices in wicks creates such unregistered dummies, see
#         func._contraction)
x, y = Index("i", below_fermi=True), Index("i", below_fermi=True)
u, v = Index("p"), Index("p")
for cls in (AntiSymmetricTensor, SymmetricTensor):
    check("same name occ", cls, (x,), (y,))
    check("same name general", cls, (u, v), (v, x))

# ---- c) declaring the assumption on an expression: in a real orbital basis
#         f^{i}_{i0} - f^{i0}_{i} = 0 and V^{i j}_{i0 k} - V^{i0 k}_{i j} = 0
e = (AntiSymmetricTensor("f", (i,), (i0,))
     - AntiSymmetricTensor("f", (i0,), (i,)))
res = Expr(e, real=True).sympy
if res is not S.Zero:
    bad.append(f"Expr(f^i_i0 - f^i0_i, real=True) = {res} (expected 0)")
e = (AntiSymmetricTensor("V", (i, j), (i0, j))
     - AntiSymmetricTensor("V", (i0, j), (i, j)))
res = Expr(e, real=True).sympy
if res is not S.Zero:
    bad.append(f"Expr(V^ij_i0j - V^i0j_ij, real=True) = {res} (expected 0)")
# the same expression with any other name for the second index is fine
e = (AntiSymmetricTensor("V", (i, j), (i1, j))
     - AntiSymmetricTensor("V", (i1, j), (i, j)))
assert Expr(e, real=True).sympy is S.Zero
e = Expr(AntiSymmetricTensor("d", (i,), (i0,))
         + AntiSymmetricTensor("d", (i0,), (i,)), antisym_tensors=["d"])
if e.sympy is not S.Zero:
    bad.append(f"Expr(d^i_i0 + d^i0_i, antisym_tensors=['d']) = {e.sympy} "
               "(expected 0)")

if bad:
    print("DEFECT: bra-ket related index tuples are not identified:")
    for line in bad:
        print("  -", line)
    sys.exit(1)
print("OK: bra-ket related tuples give the same canonical object")
sys.exit(0)
