#!/usr/bin/env python3
"""Applies every kept seeded change (seeded/<id>/patch.diff) to a scratch worktree of /repo's HEAD in turn and runs the
check of its property against that tree (/repo itself is never touched; safe to run concurrently).
Usage: tools/seed_eval.py [ids or property ids...]   (prints one line per seed)"""
import json
import os
import subprocess
import sys
import tempfile

HERE = os.path.dirname(os.path.dirname(os.path.abspath(__file__)))
REPO = "/repo"


def sh(*a, **k):
    return subprocess.run(a, capture_output=True, text=True, **k)


def main():
    sel = [a for a in sys.argv[1:] if not a.startswith('--')]
    ids = sorted(os.listdir(os.path.join(HERE, "seeded")))
    if sel:
        ids = [i for i in ids if i in sel or i.split("-")[0] in [s.upper() for s in sel]]
    tree = tempfile.mkdtemp(prefix="seed_eval_", dir="/tmp")
    os.rmdir(tree)
    assert sh("git", "-C", REPO, "worktree", "add", "--detach", tree, "HEAD").returncode == 0
    rows = []
    try:
        for sid in ids:
            d = os.path.join(HERE, "seeded", sid)
            if not os.path.exists(os.path.join(d, "patch.diff")):
                continue
            meta = json.load(open(os.path.join(d, "meta.json")))
            prop = meta["property"]
            r = sh("git", "-C", tree, "apply", os.path.join(d, "patch.diff"))
            if r.returncode != 0:
                rows.append((sid, prop, "PATCH-DOES-NOT-APPLY", r.stderr.strip()[:100]))
                continue
            try:
                out = {}
                for tier in ("quick", "thorough"):
                    c = sh("/venv/bin/python", "-m", "sa.main", prop, "--tier", tier, "--repo", tree, cwd=HERE,
                           env={**os.environ, "PYTHONDONTWRITEBYTECODE": "1", "VERIF_NO_EVIDENCE": "1", "VERIF_NO_WITNESS": "1"})
                    rules = sorted({ln.split("rule=")[1].split()[0] for ln in c.stdout.splitlines() if " rule=" in ln})
                    out[tier] = (c.returncode, rules)
                    if c.returncode == 1:
                        break
                det = "DETECTED" if any(rc == 1 for rc, _ in out.values()) else \
                      ("ANALYSIS-ERROR" if any(rc == 2 for rc, _ in out.values()) else "MISSED")
                rows.append((sid, prop, det, json.dumps(out)))
            finally:
                sh("git", "-C", tree, "checkout", "--", ".")
                sh("git", "-C", tree, "clean", "-fdq")
    finally:
        sh("git", "-C", REPO, "worktree", "remove", "--force", tree)
    for r in rows:
        print(*r)
    if "--md" in sys.argv:
        lines = ["Every change was produced by an independent sub-agent that saw only the property text and its own scratch worktree, "
                 "passes the 127 tests, and has a demonstration (seeded/<id>/demo.py) that fails with it; each was re-confirmed in a "
                 "scratch worktree before it was kept. `tools/seed_eval.py` applies each patch to a scratch worktree of /repo's HEAD and "
                 "runs the property's check against it (quick, then thorough if quick is silent).", "",
                 "| seed | property | verdict | tier | rule(s) | function(s) | change |", "|---|---|---|---|---|---|---|"]
        for sid, prop, det, info in rows:
            meta = json.load(open(os.path.join(HERE, "seeded", sid, "meta.json")))
            try:
                out = json.loads(info)
                tier = [t for t, (rc, _) in out.items() if rc == 1]
                tier = tier[0] if tier else "-"
                rules = ", ".join(out[tier][1]) if tier != "-" else ""
            except Exception:
                tier, rules = "-", info
            fns = ", ".join(meta.get("functions", []))
            lines.append(f"| {sid} | {prop} | {det} | {tier} | {rules} | {fns} | {' '.join(meta.get('summary', '').split())[:220]} |")
        n = sum(1 for r in rows if r[2] == "DETECTED")
        lines += ["", f"{n} of {len(rows)} seeded changes are reported."]
        open(os.path.join(HERE, "seeded", "RESULTS.md"), "w").write("\n".join(lines) + "\n")


if __name__ == "__main__":
    main()
