"""Immutable symbolic terms used by the abstract evaluator (sa/symex.py).

A term is an uninterpreted expression tree over the parameters of the analysed
function and over the results of calls the analysis does not look into.  Two
pieces of source that compute the same value through different local names,
temporaries, keyword/positional spelling, unpacking or control-flow layout
evaluate to the same term (after ``canon``), which is what lets a rule state a
*semantic* expectation instead of matching source text.
"""
from __future__ import annotations

from fractions import Fraction

NUM = (int, Fraction)


class T:
    __slots__ = ("op", "args", "_h", "_r")

    def __init__(self, op, *args):
        self.op = op
        self.args = tuple(args)
        self._h = None
        self._r = None

    def __eq__(self, o):
        return isinstance(o, T) and self.op == o.op and self.args == o.args

    def __ne__(self, o):
        return not self.__eq__(o)

    def __hash__(self):
        if self._h is None:
            try:
                self._h = hash((self.op, self.args))
            except TypeError:
                self._h = hash((self.op, repr(self.args)))
        return self._h

    def __deepcopy__(self, memo):
        return self

    def __copy__(self):
        return self

    def __repr__(self):
        if self._r is None:
            self._r = show(self)
        return self._r

    def __bool__(self):
        raise TypeError(f"truth value of symbolic term {self!r} taken by the analysis itself")

    def __iter__(self):
        raise TypeError(f"iteration over symbolic term {self!r} by the analysis itself")


def is_num(x):
    return isinstance(x, NUM) and not isinstance(x, bool)


def sym(name):
    return T("sym", name)


def show(t) -> str:
    if not isinstance(t, T):
        if isinstance(t, tuple):
            return "(" + ", ".join(show(x) for x in t) + ("," if len(t) == 1 else "") + ")"
        if isinstance(t, list):
            return "[" + ", ".join(show(x) for x in t) + "]"
        if isinstance(t, dict):
            return "{" + ", ".join(f"{show(k)}: {show(v)}" for k, v in t.items()) + "}"
        if isinstance(t, (set, frozenset)):
            return "{" + ", ".join(sorted(show(x) for x in t)) + "}"
        return repr(t)
    op, a = t.op, t.args
    if op == "sym":
        return str(a[0])
    if op == "call":
        name, pos, kw = a
        parts = [show(x) for x in pos] + [f"{k}={show(v)}" for k, v in kw]
        return f"{name}({', '.join(parts)})"
    if op == "mcall":
        recv, name, pos, kw = a
        parts = [show(x) for x in pos] + [f"{k}={show(v)}" for k, v in kw]
        return f"{show(recv)}.{name}({', '.join(parts)})"
    if op == "attr":
        return f"{show(a[0])}.{a[1]}"
    if op == "item":
        return f"{show(a[0])}[{show(a[1])}]"
    if op == "slice":
        return f"{show(a[0])}[{show(a[1])}:{show(a[2])}:{show(a[3])}]"
    if op == "mul":
        return "(" + " * ".join(show(x) for x in a) + ")"
    if op == "add":
        return "(" + " + ".join(show(x) for x in a) + ")"
    if op == "pow":
        return f"({show(a[0])} ** {show(a[1])})"
    if op == "cmp":
        return f"({show(a[1])} {a[0]} {show(a[2])})"
    if op == "not":
        return f"(not {show(a[0])})"
    if op in ("and", "or"):
        return "(" + f" {op} ".join(show(x) for x in a) + ")"
    if op == "ite":
        return f"({show(a[1])} if {show(a[0])} else {show(a[2])})"
    if op == "occ":
        return f"{show(a[0])}#{a[1]}"
    if op == "elem":
        return f"{show(a[0])}<{a[1]}>"
    if op == "fstr":
        return "f'" + "".join(x if isinstance(x, str) else "{" + show(x) + "}" for x in a) + "'"
    return f"{op}(" + ", ".join(show(x) for x in a) + ")"


# ------------------------------------------------------------------ arithmetic

def t_mul(*xs):
    coeff = 1
    fs = []
    for x in xs:
        if isinstance(x, T) and x.op == "mul":
            for y in x.args:
                if is_num(y):
                    coeff = coeff * y
                else:
                    fs.append(y)
        elif is_num(x):
            coeff = coeff * x
        else:
            fs.append(x)
    if coeff == 0 and all(isinstance(f, T) for f in fs):
        # 0 * symbolic stays symbolic (sympy objects do not collapse to python 0)
        return T("mul", 0, *fs) if fs else 0
    if isinstance(coeff, Fraction) and coeff.denominator == 1:
        coeff = int(coeff)
    if not fs:
        return coeff
    if coeff == 1:
        return fs[0] if len(fs) == 1 else T("mul", *fs)
    return T("mul", coeff, *fs)


def t_add(*xs):
    const = 0
    ts = []
    for x in xs:
        if isinstance(x, T) and x.op == "add":
            for y in x.args:
                if is_num(y):
                    const = const + y
                else:
                    ts.append(y)
        elif is_num(x):
            const = const + x
        else:
            ts.append(x)
    if isinstance(const, Fraction) and const.denominator == 1:
        const = int(const)
    if not ts:
        return const
    if const == 0:
        return ts[0] if len(ts) == 1 else T("add", *ts)
    return T("add", const, *ts)


def t_neg(x):
    return t_mul(-1, x)


def t_sub(a, b):
    return t_add(a, t_neg(b))


def _isqrt_exact(q):
    import math
    q = Fraction(q)
    if q < 0:
        return None
    n, d = math.isqrt(q.numerator), math.isqrt(q.denominator)
    if n * n == q.numerator and d * d == q.denominator:
        r = Fraction(n, d)
        return int(r) if r.denominator == 1 else r
    return None


def t_pow(a, b):
    if isinstance(a, Fraction) and a.denominator == 1:
        a = int(a)
    if isinstance(b, float) and b == int(b):
        b = int(b)
    elif isinstance(b, float) and b * 2 == int(b * 2):
        b = Fraction(int(b * 2), 2)
    if is_num(a) and isinstance(b, int) and not isinstance(b, bool):
        try:
            r = Fraction(a) ** b if b < 0 else a ** b
            return int(r) if isinstance(r, Fraction) and r.denominator == 1 else r
        except ZeroDivisionError:
            pass
    if is_num(a) and isinstance(b, Fraction) and b.denominator == 2:
        r = _isqrt_exact(a)
        if r is not None:
            return t_pow(r, b.numerator)
    if b == 1:
        return a
    if isinstance(a, T) and a.op == "pow" and is_num(a.args[1]) and is_num(b):
        e = a.args[1] * b
        if isinstance(e, Fraction) and e.denominator == 1:
            e = int(e)
        return t_pow(a.args[0], e)
    return T("pow", a, b)


def t_div(a, b):
    if is_num(a) and is_num(b) and b != 0:
        r = Fraction(a) / Fraction(b)
        return int(r) if r.denominator == 1 else r
    if is_num(b) and b != 0:
        return t_mul(Fraction(1) / Fraction(b), a)
    return t_mul(a, t_pow(b, -1))


_FLIP = {"<": ">", ">": "<", "<=": ">=", ">=": "<=", "==": "==", "!=": "!="}
_NEG = {"<": ">=", ">": "<=", "<=": ">", ">=": "<", "==": "!=", "!=": "==", "in": "not in", "not in": "in",
        "is": "is not", "is not": "is"}


def t_cmp(op, a, b):
    """Canonical comparison: ``>``/``>=`` are flipped, ``a - b > 0`` is not rewritten."""
    if op in (">", ">="):
        op, a, b = _FLIP[op], b, a
    if op in ("==", "!=") and repr(a) > repr(b):
        a, b = b, a
    if op in ("in", "not in") and isinstance(b, (list, tuple, set, frozenset)):
        try:
            b = frozenset(b)
        except TypeError:
            b = tuple(b)
        if isinstance(b, frozenset) and len(b) == 1:
            (only,) = b
            return t_cmp("==" if op == "in" else "!=", a, only)
    return T("cmp", op, a, b)


def t_not(c):
    if isinstance(c, bool):
        return not c
    if isinstance(c, T):
        if c.op == "not":
            return c.args[0]
        if c.op == "cmp" and c.args[0] in _NEG:
            op, a, b = c.args
            return T("cmp", _NEG[op], a, b) if op in ("in", "not in", "is", "is not") else t_cmp(_NEG[op], a, b)
        if c.op == "and":
            return t_or(*[t_not(x) for x in c.args])
        if c.op == "or":
            return t_and(*[t_not(x) for x in c.args])
    return T("not", c)


def _flat(op, xs):
    out = []
    for x in xs:
        if isinstance(x, T) and x.op == op:
            out.extend(x.args)
        else:
            out.append(x)
    return out


def t_and(*xs):
    xs = _flat("and", xs)
    out = []
    for x in xs:
        if x is True:
            continue
        if x is False:
            return False
        if x not in out:
            out.append(x)
    if not out:
        return True
    return out[0] if len(out) == 1 else T("and", *out)


def t_or(*xs):
    xs = _flat("or", xs)
    out = []
    for x in xs:
        if x is False:
            continue
        if x is True:
            return True
        if x not in out:
            out.append(x)
    if not out:
        return False
    if len(out) > 1:
        # x == a or x == b  ->  x in {a, b}
        eqs = [x for x in out if isinstance(x, T) and x.op == "cmp" and x.args[0] == "=="]
        if len(eqs) == len(out):
            for cand in (eqs[0].args[1], eqs[0].args[2]):
                others = []
                for e in eqs:
                    if e.args[1] == cand:
                        others.append(e.args[2])
                    elif e.args[2] == cand:
                        others.append(e.args[1])
                    else:
                        break
                else:
                    try:
                        return t_cmp("in", cand, frozenset(others))
                    except TypeError:
                        pass
    return out[0] if len(out) == 1 else T("or", *out)


def t_ite(c, a, b):
    if c is True:
        return a
    if c is False:
        return b
    if _same(a, b):
        return a
    if isinstance(c, T) and c.op == "not":
        return T("ite", c.args[0], b, a)
    return T("ite", c, a, b)


def _same(a, b):
    try:
        return type(a) is type(b) and a == b
    except Exception:
        return False


# ------------------------------------------------------------------ canonical form

def canon(t, comm_mul=True, scalar=None):
    """Order-insensitive normal form: sums sorted; products sorted when
    ``comm_mul``; with a ``scalar`` predicate only the scalar factors of a
    product are sorted (in front), the other factors keep their order."""
    if isinstance(t, T):
        args = tuple(canon(x, comm_mul, scalar) for x in t.args)
        if t.op == "mul" and scalar is not None:
            nums = [x for x in args if is_num(x)]
            sc = sorted((x for x in args if not is_num(x) and scalar(x)), key=repr)
            rest = [x for x in args if not is_num(x) and not scalar(x)]
            args = tuple(nums) + tuple(sc) + tuple(rest)
        elif t.op == "add" or (t.op == "mul" and comm_mul) or t.op in ("and", "or"):
            nums = [x for x in args if is_num(x)]
            rest = sorted((x for x in args if not is_num(x)), key=repr)
            args = tuple(nums) + tuple(rest)
        return T(t.op, *args)
    if isinstance(t, tuple):
        return tuple(canon(x, comm_mul, scalar) for x in t)
    if isinstance(t, list):
        return [canon(x, comm_mul, scalar) for x in t]
    if isinstance(t, dict):
        return {k: canon(v, comm_mul, scalar) for k, v in t.items()}
    return t


def same(a, b, comm_mul=True) -> bool:
    return repr(canon(a, comm_mul)) == repr(canon(b, comm_mul))


def subterms(t):
    """All sub-terms (pre-order), descending into containers."""
    stack = [t]
    while stack:
        x = stack.pop()
        if isinstance(x, T):
            yield x
            stack.extend(x.args)
        elif isinstance(x, (tuple, list, set, frozenset)):
            stack.extend(x)
        elif isinstance(x, dict):
            stack.extend(x.keys())
            stack.extend(x.values())


def calls(t, name=None):
    for x in subterms(t):
        if x.op == "call" and (name is None or x.args[0] == name):
            yield x
        elif x.op == "mcall" and (name is None or x.args[1] == name):
            yield x


def factors(t):
    """Factors of a product term (a non-product is its own single factor)."""
    if isinstance(t, T) and t.op == "mul":
        return list(t.args)
    return [t]


def summands(t):
    if isinstance(t, T) and t.op == "add":
        return list(t.args)
    return [t]


def call_arg(c, name=None, pos=None):
    """Argument of a call/mcall term by keyword name or position."""
    p, kw = (c.args[1], c.args[2]) if c.op == "call" else (c.args[2], c.args[3])
    if name is not None:
        for k, v in kw:
            if k == name:
                return v
    if pos is not None and pos < len(p):
        return p[pos]
    return None


# ------------------------------------------------------------------ rule-side helpers

def rebuild(t, f):
    """Bottom-up rewrite: ``f`` is applied to every (already rewritten) term."""
    if isinstance(t, T):
        args = tuple(rebuild(x, f) for x in t.args)
        if t.op == "mul":
            t2 = t_mul(*args)
        elif t.op == "add":
            t2 = t_add(*args)
        else:
            t2 = T(t.op, *args)
        return f(t2) if isinstance(t2, T) else t2
    if isinstance(t, tuple):
        return tuple(rebuild(x, f) for x in t)
    if isinstance(t, list):
        return [rebuild(x, f) for x in t]
    if isinstance(t, frozenset):
        return frozenset(rebuild(x, f) for x in t)
    return t


def strip(t, calls=(), mcalls=(), attrs=()):
    """Removes value-preserving wrappers: ``f(x)`` -> x for f in calls (first
    argument), ``x.m(...)`` -> x for m in mcalls, ``x.a`` -> x for a in attrs."""
    def f(x):
        if x.op == "call" and x.args[0] in calls:
            pos, kw = x.args[1], x.args[2]
            if pos:
                return pos[0]
            if kw:
                return kw[0][1]
        if x.op == "mcall" and x.args[1] in mcalls:
            return x.args[0]
        if x.op == "attr" and x.args[1] in attrs:
            return x.args[0]
        return x
    return rebuild(t, f)


def expand_products(t):
    """Distributes products over sums: list of (coefficient, [factors in order])."""
    if isinstance(t, T) and t.op == "add":
        out = []
        for x in t.args:
            out.extend(expand_products(x))
        return out
    if isinstance(t, T) and t.op == "mul":
        acc = [(1, [])]
        for x in t.args:
            if is_num(x):
                acc = [(c * x, fs) for c, fs in acc]
                continue
            parts = expand_products(x) if isinstance(x, T) and x.op in ("add", "mul") else [(1, [x])]
            acc = [(c * c2, fs + fs2) for c, fs in acc for c2, fs2 in parts]
        return [(c, fs) for c, fs in acc if c != 0]
    if is_num(t):
        return [(t, [])] if t != 0 else []
    return [(1, [t])]


def product_key(coeff, fs, scalar=lambda f: False):
    """Canonical text of one product: scalar factors sorted in front, the others in order."""
    sc = sorted(repr(canon(f, scalar=scalar)) for f in fs if scalar(f))
    rest = [repr(canon(f, scalar=scalar)) for f in fs if not scalar(f)]
    c = Fraction(coeff)
    return f"{c} | {' * '.join(sc)} | {' * '.join(rest)}"


def multiset(keys):
    out = {}
    for k in keys:
        out[k] = out.get(k, 0) + 1
    return out


def multiset_diff(got, want):
    """(missing, surplus) as lists of keys with multiplicity."""
    missing, surplus = [], []
    for k in set(got) | set(want):
        d = got.get(k, 0) - want.get(k, 0)
        if d > 0:
            surplus.extend([k] * d)
        elif d < 0:
            missing.extend([k] * -d)
    return sorted(missing), sorted(surplus)


def call(name, *pos, **kw):
    return T("call", name, tuple(pos), tuple(kw.items()))


def mcall(recv, name, *pos, **kw):
    return T("mcall", recv, name, tuple(pos), tuple(kw.items()))


def kwcall(name, **kw):
    """A repository call as the evaluator records it (all arguments bound by name, in signature order)."""
    return T("call", name, (), tuple(kw.items()))


def args_of(c):
    """dict of the named arguments of a call/mcall term plus positional ones under their index."""
    p, kw = (c.args[1], c.args[2]) if c.op == "call" else (c.args[2], c.args[3])
    d = {i: v for i, v in enumerate(p)}
    d.update(dict(kw))
    return d


def strip_occ(t):
    """Removes the call-event tags ``T("occ", term, k)``."""
    return rebuild(t, lambda x: x.args[0] if x.op == "occ" else x)
