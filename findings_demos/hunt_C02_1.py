"""
C02 / defect 1: GroundState.mp_amplitude (and amplitude_residual) silently
return a wrong amplitude when a requested target index carries the name of a
generic index that one of the *cached* building blocks (the first order
Hamiltonian of Operators.h1, the energies of GroundState.energy) already uses
as a summation index.  The result therefore depends on the call history:
in a fresh interpreter the very same call is correct.

Run from the worktree root:   /venv/bin/python hunt_out/1/demo.py
exit code 1: defect present, 0: fixed
"""
import os
import sys
sys.path.insert(0, os.getcwd())

from fractions import Fraction          # noqa E402
from itertools import combinations, product   # noqa E402
import random                           # noqa E402

from sympy import Add, Mul, Pow         # noqa E402

from adcgen.groundstate import GroundState   # noqa E402
from adcgen.operators import Operators       # noqa E402
from adcgen.indices import Index, get_symbols   # noqa E402
from adcgen.sympy_objects import (      # noqa E402
    NonSymmetricTensor, KroneckerDelta
)

# ---------------------------------------------------------------------------
# explicit determinant space RSPT (MP partitioning, canonical HF)
# ---------------------------------------------------------------------------
NO, NV = 3, 2
N = NO + NV
rng = random.Random(2024)


def rnd():
    return Fraction(rng.randint(-9, 9), rng.randint(1, 5))


eps = sorted({Fraction(k, 3) + rnd() / 50 for k in range(-6, 9, 3)})[:N]
assert len(eps) == N
V = {}
pairs = list(combinations(range(N), 2))
for x, (p, q) in enumerate(pairs):
    for (r, s) in pairs[x:]:
        val = rnd()
        for (a, b, s1) in ((p, q, 1), (q, p, -1)):
            for (c, d, s2) in ((r, s, 1), (s, r, -1)):
                V[(a, b, c, d)] = V[(c, d, a, b)] = s1 * s2 * val


def v(p, q, r, s):
    return V.get((p, q, r, s), Fraction(0))


def apply_string(ops, det):
    sign = 1
    for kind, p in reversed(ops):
        bit = 1 << p
        if bool(det & bit) == (kind == '+'):
            return None
        if bin(det & (bit - 1)).count("1") % 2:
            sign = -sign
        det ^= bit
    return sign, det


dets = sorted(
    (sum(1 << p for p in c) for c in combinations(range(N), NO)),
    key=lambda d: (bin(d >> NO).count("1"), d)
)
didx = {d: i for i, d in enumerate(dets)}
REF = (1 << NO) - 1
assert dets[0] == REF
ND = len(dets)
# h_pq = f_pq - sum_i <pi||qi>,  f diagonal (canonical HF)
h = {(p, q): (eps[p] if p == q else 0) - sum(v(p, i, q, i) for i in range(NO))
     for p in range(N) for q in range(N)}
H = [[Fraction(0)] * ND for _ in range(ND)]
for J, dj in enumerate(dets):
    occs = [p for p in range(N) if dj >> p & 1]
    for q in occs:
        for p in range(N):
            r = apply_string([('+', p), ('-', q)], dj)
            if r is not None and h[(p, q)]:
                H[didx[r[1]]][J] += r[0] * h[(p, q)]
    for r_, s_ in combinations(occs, 2):
        for p, q in pairs:
            val = v(p, q, r_, s_)
            r = apply_string([('+', p), ('+', q), ('-', s_), ('-', r_)], dj)
            if r is not None and val:
                H[didx[r[1]]][J] += r[0] * val
H0 = [sum(eps[p] for p in range(N) if d >> p & 1) for d in dets]
H1 = [[H[i][j] - (H0[i] if i == j else 0) for j in range(ND)]
      for i in range(ND)]
MAXO = 3
E = [H0[0]]
psi = [[Fraction(1)] + [Fraction(0)] * (ND - 1)]
for n in range(1, MAXO + 1):
    hv = [sum(H1[i][j] * psi[n - 1][j] for j in range(ND)) for i in range(ND)]
    E.append(hv[0])
    new = [Fraction(0)] * ND
    for i in range(1, ND):
        rhs = hv[i] - sum(E[m] * psi[n - m][i] for m in range(1, n))
        new[i] = rhs / (H0[0] - H0[i])
    psi.append(new)


def t_explicit(order, virt_vals, occ_vals):
    """t^{ab..}_{ij..} in the sign convention of adcgen (doubles: -c)"""
    ops = [('+', a) for a in virt_vals] + \
        [('-', i) for i in reversed(occ_vals)]
    r = apply_string(ops, REF)
    if r is None:
        return Fraction(0)
    c = r[0] * psi[order][didx[r[1]]]
    return -c if len(virt_vals) == 2 else c


# ---------------------------------------------------------------------------
# brute force evaluation of an adcgen expression (Einstein summation over all
# indices of a term that are not target indices)
# ---------------------------------------------------------------------------
def value(obj, asg):
    if isinstance(obj, Add):
        return sum(value(a, asg) for a in obj.args)
    if isinstance(obj, Mul):
        r = Fraction(1)
        for a in obj.args:
            r *= value(a, asg)
        return r
    if isinstance(obj, Pow):
        return value(obj.args[0], asg) ** int(obj.args[1])
    if obj.is_number:
        return Fraction(int(obj.p), int(obj.q))
    if isinstance(obj, KroneckerDelta):
        return Fraction(int(asg[obj.args[0]] == asg[obj.args[1]]))
    if isinstance(obj, NonSymmetricTensor):
        assert obj.name == "e"
        return eps[asg[obj.indices[0]]]
    up = tuple(asg[s] for s in obj.upper)
    lo = tuple(asg[s] for s in obj.lower)
    if obj.name == "V":
        return v(*up, *lo)
    if obj.name == "f":
        return eps[up[0]] if up == lo else Fraction(0)
    assert obj.name[0] == "t" and obj.name[1:].isnumeric(), obj
    return t_explicit(int(obj.name[1:]), up, lo)


def space(s):
    return {"occ": range(NO), "virt": range(NO, N)}.get(s.space, range(N))


def evaluate(expr, target_asg):
    expr = expr.expand()
    total = Fraction(0)
    for term in (expr.args if isinstance(expr, Add) else [expr]):
        contracted = sorted(term.atoms(Index) - set(target_asg),
                            key=lambda s: (s.name, s.dummy_index))
        for vals in product(*[space(s) for s in contracted]):
            asg = dict(target_asg)
            asg.update(zip(contracted, vals))
            total += value(term, asg)
    return total


def check(gs, order, sp, names, label):
    """compare gs.mp_amplitude(order, sp, names) for all orbital assignments
    with (a) explicit RSPT and (b) the amplitude requested with the
    plain target index names 'ia' (invariance under renaming)."""
    ampl = gs.mp_amplitude(order, sp, names)
    ref_ampl = gs.mp_amplitude(order, sp, "ia")
    (i_new, a_new), (i, a) = get_symbols(names), get_symbols("ia")
    bad = 0
    for io, av in product(range(NO), range(NO, N)):
        val = evaluate(ampl, {i_new: io, a_new: av})
        renamed = evaluate(ref_ampl, {i: io, a: av})
        explicit = t_explicit(order, (av,), (io,))
        assert renamed == explicit  # the plain names are always fine
        if val != explicit:
            bad += 1
            if bad <= 3:
                print(f"  t{order}^{{{a_new}}}_{{{i_new}}}[i={io}, a={av}] = "
                      f"{val}   expected (RSPT and indices='ia'): {explicit}")
    print(f"{label}: mp_amplitude({order}, '{sp}', '{names}') wrong for "
          f"{bad} of {NO * NV} orbital assignments")
    return bad


gs = GroundState(Operators("mp"))
# a perfectly normal call history: energies have been requested before
assert evaluate(gs.energy(1), {}) == E[1]
assert evaluate(gs.energy(2), {}) == E[2]

n_bad = 0
# (A) name of the summation index of the one-particle part of the cached
#     first order Hamiltonian, -<p o||q o> p^+ q  (typically 'i3')
h1_occ = sorted(s.name for s in gs.h.h1[0].atoms(Index) if s.space == "occ")
print("occupied summation index in the cached H1:", h1_occ)
n_bad += check(gs, 2, "ph", h1_occ[0] + "a", "(A) index of cached H1")
# (B) name of a summation index of the cached first order energy
e1_occ = sorted(s.name for s in gs.energy(1).atoms(Index) if s.space == "occ")
print("occupied summation indices in the cached E^(1):", e1_occ)
n_bad += check(gs, 3, "ph", e1_occ[0] + "a", "(B) index of cached E^(1)")

if n_bad:
    print("DEFECT: the MP amplitude depends on the call history / the names "
          "of the requested target indices.")
    sys.exit(1)
print("OK: amplitudes agree with explicit RSPT for all requested index names")
sys.exit(0)
